"""C08 - keys and signatures: serialisation is lossless and sign/verify is sound (spsdk/crypto/keys.py,
certificate.py, signature_provider.py, crypto_types.py, utils.py).

Obligations   : Properties/C08.lean over Model/Keys.lean + Generated/KeysTables.lean (tables and the integer tests of the
                length sniffing re-extracted from the source).  Proved: SPSDK's own encoding / sniffing layer.
Correspondence: real functions vs the native model driver (DER codec, ECDSASignature, serialize_signature,
                get_signature, raw RSA/ECC export + recreate, get_file_encodings, PublicKey.parse routing with the
                answers of `cryptography` supplied as data, verify_signature's candidate encodings behaviourally).
Oracle        : the property's statements on the real code: export -> parse equality for every key type / encoding /
                password / entry point; sign -> verify for every parameter set, also by `cryptography` called directly
                and by a pure-Python RSA / ECDSA verifier; single-bit changes, other key, other message are refused;
                raw <-> DER conversions of (r, s) are lossless.
PARTIAL       : PEM/DER/PKCS#8 serialisation and the signature primitives belong to `cryptography`; they are covered
                by these differential runs only, not by proof.
"""
from __future__ import annotations

import hashlib
import os
import random
from pathlib import Path

from vcore import Infra, canon, hexs, pyres

FID = "C08-ecdsa-der-length-sniffing"

# NIST curve parameters (FIPS 186-4); used by the pure-Python verifier and to construct signatures with chosen (r, s) sizes
CURVES = {
    "secp256r1": dict(
        bits=256, cl=32,
        p=0xFFFFFFFF00000001000000000000000000000000FFFFFFFFFFFFFFFFFFFFFFFF,
        b=0x5AC635D8AA3A93E7B3EBBD55769886BC651D06B0CC53B0F63BCE3C3E27D2604B,
        gx=0x6B17D1F2E12C4247F8BCE6E563A440F277037D812DEB33A0F4A13945D898C296,
        gy=0x4FE342E2FE1A7F9B8EE7EB4A7C0F9E162BCE33576B315ECECBB6406837BF51F5,
        n=0xFFFFFFFF00000000FFFFFFFFFFFFFFFFBCE6FAADA7179E84F3B9CAC2FC632551, hash="sha256"),
    "secp384r1": dict(
        bits=384, cl=48,
        p=0xFFFFFFFFFFFFFFFFFFFFFFFFFFFFFFFFFFFFFFFFFFFFFFFFFFFFFFFFFFFFFFFEFFFFFFFF0000000000000000FFFFFFFF,
        b=0xB3312FA7E23EE7E4988E056BE3F82D19181D9C6EFE8141120314088F5013875AC656398D8A2ED19D2A85C8EDD3EC2AEF,
        gx=0xAA87CA22BE8B05378EB1C71EF320AD746E1D3B628BA79B9859F741E082542A385502F25DBF55296C3A545E3872760AB7,
        gy=0x3617DE4A96262C6F5D9E98BF9292DC29F8F41DBD289A147CE9DA3113B5F0B8C00A60B1CE1D7E819D7A431D7C90EA0E5F,
        n=0xFFFFFFFFFFFFFFFFFFFFFFFFFFFFFFFFFFFFFFFFFFFFFFFFC7634D81F4372DDF581A0DB248B0A77AECEC196ACCC52973, hash="sha384"),
    "secp521r1": dict(
        bits=521, cl=66,
        p=2 ** 521 - 1,
        b=0x0051953EB9618E1C9A1F929A21A0B68540EEA2DA725B99B315F3B8B489918EF109E156193951EC7E937B1652C0BD3BB1BF073573DF883D2C34F1EF451FD46B503F00,
        gx=0x00C6858E06B70404E9CD9E3ECB662395B4429C648139053FB521F828AF606B4D3DBAA14B5E77EFE75928FE1DC127A2FFA8DE3348B3C1856A429BF97E7E31C2E5BD66,
        gy=0x011839296A789A3BC0045C8A5FB42C7D1BD998F54449579B446817AFBD17273E662C97EE72995EF42640C550B9013FAD0761353C7086A272C24088BE94769FD16650,
        n=0x01FFFFFFFFFFFFFFFFFFFFFFFFFFFFFFFFFFFFFFFFFFFFFFFFFFFFFFFFFFFFFFFFFA51868783BF2F966B7FCC0148F709A5D03BB5C9B8899C47AEBB6FB71E91386409,
        hash="sha512"),
}
RAW_LENS = (64, 65, 96, 97, 132, 133)
# first bytes of a raw blob that collide with a format marker: NUL, uncompressed-point tag, '-', DER SEQUENCE, ASCII hex digits / "0x"
# (OTPS text), 'x', top bit, 0xFF, UTF-8 lead bytes
MARKER_BYTES = (0x00, 0x04, 0x2D, 0x30, 0x31, 0x39, 0x41, 0x46, 0x61, 0x66, 0x78, 0x7F, 0x80, 0xC2, 0xE0, 0xF0, 0xFF, 0x02, 0x03, 0x0A, 0x20)


# ------------------------------------------------------------------------------------------------ independent verifiers
def _jdouble(P, p):
    X, Y, Z = P
    if Y == 0 or Z == 0:
        return (0, 1, 0)
    Y2 = Y * Y % p
    S = 4 * X * Y2 % p
    Z2 = Z * Z % p
    M = 3 * (X - Z2) * (X + Z2) % p  # a = -3
    X3 = (M * M - 2 * S) % p
    return (X3, (M * (S - X3) - 8 * Y2 * Y2) % p, 2 * Y * Z % p)


def _jadd(P, Q, p):
    if P[2] == 0:
        return Q
    if Q[2] == 0:
        return P
    X1, Y1, Z1 = P
    X2, Y2, Z2 = Q
    Z1Z1, Z2Z2 = Z1 * Z1 % p, Z2 * Z2 % p
    U1, U2 = X1 * Z2Z2 % p, X2 * Z1Z1 % p
    S1, S2 = Y1 * Z2 * Z2Z2 % p, Y2 * Z1 * Z1Z1 % p
    if U1 == U2:
        return _jdouble(P, p) if S1 == S2 else (0, 1, 0)
    H, R = (U2 - U1) % p, (S2 - S1) % p
    H2 = H * H % p
    H3 = H * H2 % p
    V = U1 * H2 % p
    X3 = (R * R - H3 - 2 * V) % p
    return (X3, (R * (V - X3) - S1 * H3) % p, H * Z1 * Z2 % p)


def py_ecdsa_verify(curve: str, x: int, y: int, z: int, r: int, s: int) -> bool:
    """ECDSA verification (FIPS 186-4 §6.4) in pure Python, `z` = leftmost min(bits, hashbits) bits of the digest."""
    c = CURVES[curve]
    p, n = c["p"], c["n"]
    if not (1 <= r < n and 1 <= s < n):
        return False
    if (y * y - (x * x * x - 3 * x + c["b"])) % p != 0:
        return False
    w = pow(s, -1, n)
    u1, u2 = z * w % n, r * w % n
    G, Q = (c["gx"], c["gy"], 1), (x, y, 1)
    GQ = _jadd(G, Q, p)
    acc = (0, 1, 0)
    for i in range(max(u1.bit_length(), u2.bit_length()) - 1, -1, -1):
        acc = _jdouble(acc, p)
        b1, b2 = (u1 >> i) & 1, (u2 >> i) & 1
        if b1 and b2:
            acc = _jadd(acc, GQ, p)
        elif b1:
            acc = _jadd(acc, G, p)
        elif b2:
            acc = _jadd(acc, Q, p)
    if acc[2] == 0:
        return False
    zi = pow(acc[2], -1, p)
    return (acc[0] * zi * zi % p) % n == r


def digest_to_z(curve: str, digest: bytes) -> int:
    z = int.from_bytes(digest, "big")
    extra = len(digest) * 8 - CURVES[curve]["n"].bit_length()
    return z >> extra if extra > 0 else z


_DIGEST_INFO = {
    "sha1": bytes.fromhex("3021300906052b0e03021a05000414"),
    "sha256": bytes.fromhex("3031300d060960864801650304020105000420"),
    "sha384": bytes.fromhex("3041300d060960864801650304020205000430"),
    "sha512": bytes.fromhex("3051300d060960864801650304020305000440"),
}


def py_rsa_verify(n: int, e: int, digest: bytes, hname: str, sig: bytes, pss: bool) -> bool:
    """RSASSA-PKCS1-v1_5 / RSASSA-PSS (salt length = digest length, MGF1 with the same hash) verification, RFC 8017."""
    k = (n.bit_length() + 7) // 8
    if len(sig) != k:
        return False
    sv = int.from_bytes(sig, "big")
    if sv >= n:
        return False
    m = pow(sv, e, n)
    if not pss:
        t = _DIGEST_INFO[hname] + digest
        return m.to_bytes(k, "big") == b"\x00\x01" + b"\xff" * (k - len(t) - 3) + b"\x00" + t
    embits = n.bit_length() - 1
    emlen = (embits + 7) // 8
    if m >> (8 * emlen):
        return False
    em = m.to_bytes(emlen, "big")
    hlen = len(digest)
    if emlen < 2 * hlen + 2 or em[-1] != 0xBC:
        return False
    masked, h = em[:emlen - hlen - 1], em[emlen - hlen - 1:-1]
    if masked[0] >> (8 - (8 * emlen - embits)) if 8 * emlen - embits else 0:
        return False
    mask = b""
    cnt = 0
    while len(mask) < len(masked):
        mask += hashlib.new(hname, h + cnt.to_bytes(4, "big")).digest()
        cnt += 1
    db = bytearray(a ^ b for a, b in zip(masked, mask))
    if 8 * emlen - embits:
        db[0] &= 0xFF >> (8 * emlen - embits)
    ps_len = emlen - 2 * hlen - 2
    if any(db[:ps_len]) or db[ps_len] != 1:
        return False
    salt = bytes(db[ps_len + 1:])
    return hashlib.new(hname, bytes(8) + digest + salt).digest() == h


# ------------------------------------------------------------------------------------------------ deterministic RSA keys
_SMALL_PRIMES = [p for p in range(3, 2000, 2) if all(p % q for q in range(3, int(p ** 0.5) + 1, 2))]


def _is_prime(n, rng):
    for p in _SMALL_PRIMES:
        if n % p == 0:
            return n == p
    d, s = n - 1, 0
    while d % 2 == 0:
        d //= 2
        s += 1
    for a in [2] + [rng.randrange(3, n - 1) for _ in range(5)]:
        x = pow(a, d, n)
        if x in (1, n - 1):
            continue
        for _ in range(s - 1):
            x = x * x % n
            if x == n - 1:
                break
        else:
            return False
    return True


def _gen_prime(bits, rng, e):
    while True:
        c = rng.getrandbits(bits) | (3 << (bits - 2)) | 1
        if c % e != 1 and _is_prime(c, rng):
            return c


def make_rsa_key(bits, rng, e=65537):
    """RSA private key from primes drawn with the run's seeded generator (key generation of OpenSSL cannot be seeded)."""
    from cryptography.hazmat.primitives.asymmetric import rsa
    from spsdk.crypto.keys import PrivateKeyRsa
    while True:
        p, q = _gen_prime(bits // 2, rng, e), _gen_prime(bits // 2, rng, e)
        if p != q and (p * q).bit_length() == bits:
            break
    if p < q:
        p, q = q, p
    d = pow(e, -1, (p - 1) * (q - 1))
    nums = rsa.RSAPrivateNumbers(p, q, d, d % (p - 1), d % (q - 1), pow(q, -1, p), rsa.RSAPublicNumbers(e, p * q))
    return PrivateKeyRsa(nums.private_key())


# ------------------------------------------------------------------------------------------------ small helpers
def der_int_len(v: int) -> int:
    return v.bit_length() // 8 + 1


def _tlv_len(n: int) -> int:
    return 1 + (1 if n < 128 else 1 + (n.bit_length() + 7) // 8) + n


def der_sig_len(r: int, s: int) -> int:
    return _tlv_len(_tlv_len(der_int_len(r)) + _tlv_len(der_int_len(s)))


def der_outside(curve: str, length: int) -> bool:
    """Predicate of the open finding: the curve (or even the encoding) cannot be inferred from this DER length."""
    cl = CURVES[curve]["cl"]
    return length // 2 in (32, 48, 66) or not (2 * cl + 3 <= length <= 2 * cl + 8)


def with_len(rng, nbytes: int, below: int = 0) -> int:
    """random positive integer (< `below` when given and possible) whose DER INTEGER content has exactly `nbytes` octets"""
    lo, hi = (1, 128) if nbytes == 1 else (1 << (8 * nbytes - 9), 1 << (8 * nbytes - 1))
    if below and lo < below < hi:
        hi = below
    return rng.randrange(lo, hi)


def pubnum(k):
    """canonical public numbers of an SPSDK public key object"""
    from spsdk.crypto.keys import PublicKeyEcc, PublicKeyRsa
    if isinstance(k, PublicKeyEcc):
        return f"ecc:{k.curve.value}:{k.x}:{k.y}"
    if isinstance(k, PublicKeyRsa):
        return f"rsa:{k.n}:{k.e}"
    return "other:" + type(k).__name__


def crypto_pub(obj):
    """canonical numbers of a `cryptography` public key object (or 'none')"""
    from cryptography.hazmat.primitives.asymmetric import ec, rsa
    if isinstance(obj, ec.EllipticCurvePublicKey):
        nm = obj.curve.name
        if nm not in CURVES:
            return "none"
        pn = obj.public_numbers()
        return f"ecc:{nm}:{pn.x}:{pn.y}"
    if isinstance(obj, rsa.RSAPublicKey):
        pn = obj.public_numbers()
        return f"rsa:{pn.n}:{pn.e}"
    return "none"


def privnum(k):
    from spsdk.crypto.keys import PrivateKeyEcc, PrivateKeyRsa
    if isinstance(k, PrivateKeyEcc):
        return f"ecc:{k.curve.value}:{k.d}"
    if isinstance(k, PrivateKeyRsa):
        pn = k.key.private_numbers()
        return f"rsa:{pn.public_numbers.n}:{pn.public_numbers.e}:{pn.d}:{pn.p}:{pn.q}:{pn.dmp1}:{pn.dmq1}:{pn.iqmp}"
    return "other:" + type(k).__name__


def drv_false_or_model(drv, line):
    """for ECC keys the padding flag is irrelevant to the signature: take the model's own answer for that part of the line"""
    if drv is None:
        return "false"
    a = drv.ask(line)
    return a.rsplit(";", 1)[-1] if a.startswith("ok:") else "false"


def parse_cands(ans):
    """candidate list of a `verify_cands` answer, or None when the answer does not have the expected shape"""
    if not isinstance(ans, str) or not ans.startswith("ok:"):
        return None
    out = []
    for h in ans[3:].split(","):
        try:
            out.append(b"" if h == "-" else bytes.fromhex(h))
        except ValueError:
            return None
    return out


def flip(data: bytes, bit: int) -> bytes:
    b = bytearray(data)
    b[bit // 8] ^= 1 << (bit % 8)
    return bytes(b)


# ================================================================================================ run
def run(ck):
    from cryptography.exceptions import InvalidSignature
    from cryptography.hazmat.primitives import hashes as chashes
    from cryptography.hazmat.primitives import serialization as cser
    from cryptography.hazmat.primitives.asymmetric import ec, padding, rsa
    from cryptography.hazmat.primitives.asymmetric import utils as cutils
    from spsdk.crypto import utils as sutils
    from spsdk.crypto.certificate import Certificate, generate_name
    from spsdk.crypto.crypto_types import SPSDKEncoding
    from spsdk.crypto.hash import EnumHashAlgorithm
    from spsdk.crypto.keys import (ECDSASignature, EccCurve, KeyEccCommon, PrivateKey, PrivateKeyEcc, PrivateKeyRsa, PublicKey,
                                   PublicKeyEcc, PublicKeyRsa)
    from spsdk.crypto.signature_provider import PlainFileSP, SignatureProvider
    import logging
    logging.getLogger("spsdk.crypto.signature_provider").setLevel(logging.ERROR)  # "unexpected length" warnings of get_signature

    import time
    marks = [("start", time.time())]
    ck.spec_ops = set()  # every op of drv_c08 evaluates Model/Keys*.lean over Generated/KeysTables.lean: none is Spec-only; no oracle uses the driver
    ck.lean_obligations(generated=["KeysTables"])
    drv = ck.driver()
    marks.append(("lean", time.time()))
    rng = ck.rng
    scratch = Path(os.environ.get("VERIF_SCRATCH", "/tmp/C08"))
    scratch.mkdir(parents=True, exist_ok=True)
    ck.assume(
        "PEM/DER/PKCS#8 (de)serialisation, password encryption, point / RSA-number validation and the RSA / ECDSA primitives are the "
        "`cryptography` package's; in the model they are parameters whose values the harness obtains by calling `cryptography` directly "
        "(differential coverage only - level of the property is PARTIAL)",
        "`utils.encode_dss_signature` / `decode_dss_signature` = strict DER as modelled in Model/Keys.lean (at most four length octets); "
        "checked on every generated and malformed signature of this run (stream der_codec)",
        "key_size of the cryptography curve objects is 256 / 384 / 521 (checked at start-up)",
        "optional back ends (SM2, Dilithium / ML-DSA) are not installed: their attempts inside PublicKey.parse are not modelled",
        "Python's strict UTF-8 decoder = Model/Keys.lean `utf8Valid` (stream file_encoding)",
        "RSA keys are built from primes drawn with the seeded generator (OpenSSL key generation cannot be seeded); signatures themselves "
        "use OpenSSL's randomness (ECDSA nonce, PSS salt) and are therefore not reproducible bit by bit")

    # ---- generated tables vs live objects (a disagreement is an extractor problem, not a verdict)
    meta = ck.generated_meta.get("KeysTables", {}).get("values", {})
    live = {"coordinate_lengths": [[k.value, v] for k, v in ECDSASignature.COORDINATE_LENGTHS.items()],
            "curves": [[c.name, c.value] for c in EccCurve], "rsa_key_sizes": list(PrivateKeyRsa.SUPPORTED_KEY_SIZES)}
    for k, v in live.items():
        if meta.get(k) is not None and [list(x) if isinstance(x, (list, tuple)) else x for x in meta[k]] != v:
            raise Infra(f"generated table {k} = {meta[k]} differs from the live object {v}")
    for name, c in CURVES.items():
        if KeyEccCommon._get_ec_curve_object(EccCurve(name)).key_size != c["bits"]:
            raise Infra("curve key_size assumption broken for " + name)
    ck.extra["generator_fallbacks"] = ck.generated_meta.get("KeysTables", {}).get("fallback", {})

    HASHES = {"sha1": (EnumHashAlgorithm.SHA1, chashes.SHA1), "sha256": (EnumHashAlgorithm.SHA256, chashes.SHA256),
              "sha384": (EnumHashAlgorithm.SHA384, chashes.SHA384), "sha512": (EnumHashAlgorithm.SHA512, chashes.SHA512)}
    ENC = {"nxp": SPSDKEncoding.NXP, "pem": SPSDKEncoding.PEM, "der": SPSDKEncoding.DER}

    def corr(stream, reqs):
        """reqs: list of (input, request-line, real-canonical-line)."""
        if drv is None or not reqs:
            return
        answers = drv.batch([r[1] for r in reqs])
        for (inp, _line, real), ans in zip(reqs, answers):
            stream.compare(inp, real, ans)

    def ask(lines):
        return drv.batch(lines) if drv is not None else [None] * len(lines)

    def real_decode(b):
        r = pyres(cutils.decode_dss_signature, b)
        return f"ok:{r[1][0]},{r[1][1]}" if r[0] == "ok" else "E:other"

    def sig_parse_canon(b):
        r = pyres(ECDSASignature.parse, b)
        return f"ok:{r[1].r},{r[1].s},{r[1].ecc_curve.value}" if r[0] == "ok" else r[0]

    def crypto_verify_ec(pub_obj, der, data, hcls, prehashed=False):
        alg = ec.ECDSA(cutils.Prehashed(hcls()) if prehashed else hcls())
        try:
            pub_obj.verify(der, data, alg)
            return True
        except (InvalidSignature, ValueError):
            return False

    def ec_key(curve: str, d: int):
        return PrivateKeyEcc(ec.derive_private_key(d, KeyEccCommon._get_ec_curve_object(EccCurve(curve))))

    # ================================================================== 1. DER ECDSA-Sig-Value codec
    s = ck.stream("der_codec", "encode: every (r,s) in 0..40 x 0..40, boundary values 2^(8k-1)-1, 2^(8k-1), 2^(8k)-1, 2^(8k) for k<=70 paired with each "
                  "other and with random values, INTEGERs of 120..135 and 250..260 octets (long-form lengths), random bit lengths <= 1100; decode: "
                  "each encoding, every single-byte substitution of DER(1,1) and DER(128,255), truncations / extensions / random byte and bit "
                  "changes of P-256/384/521-sized encodings, hand-made non-minimal forms; non-trivial = distinct input; cls = accept/reject")
    pairs = [(r, t) for r in range(0, 41) for t in range(0, 41)]
    bvals = sorted({v for k in range(1, 71) for v in (2 ** (8 * k - 1) - 1, 2 ** (8 * k - 1), 2 ** (8 * k) - 1, 2 ** (8 * k))})
    for v in bvals:
        pairs.append((v, rng.choice(bvals)))
        pairs.append((rng.getrandbits(rng.randrange(1, 530)) + 1, v))
    for nb in list(range(120, 136)) + list(range(250, 261)):
        pairs.append((with_len(rng, nb), with_len(rng, rng.choice([1, 5, 32, 66, 120, 127, 128, 200]))))
    for _ in range(ck.budget(300, 30000)):
        pairs.append((rng.getrandbits(rng.randrange(1, 1100)), rng.getrandbits(rng.randrange(1, 1100))))
    reqs, encs = [], []
    for r, t in pairs:
        e = pyres(cutils.encode_dss_signature, r, t)
        s.note(("enc", r, t), cls="encode")
        reqs.append((("enc", r, t), f"derenc {r} {t}", canon(e)))
        if e[0] == "ok":
            encs.append(e[1])
            back = pyres(cutils.decode_dss_signature, e[1])
            s.expect(back == ("ok", (r, t)), ("enc", r, t), "DER encoding of (r, s) does not decode to (r, s)", back, (r, t))
            s.expect(len(e[1]) == der_sig_len(r, t), ("enc", r, t), "DER length is not 2+len-octets+two minimal INTEGERs", len(e[1]), der_sig_len(r, t))
        else:
            s.expect(False, ("enc", r, t), "encode_dss_signature refuses non-negative integers", e)
    mal = list(encs[:400]) + encs[-300:]
    for base in (cutils.encode_dss_signature(1, 1), cutils.encode_dss_signature(128, 255)):
        for i in range(len(base)):
            for v in range(256):
                mal.append(base[:i] + bytes([v]) + base[i + 1:])
    typical = []
    for name, c in CURVES.items():
        for _ in range(ck.budget(6, 60)):
            typical.append(cutils.encode_dss_signature(rng.randrange(1, c["n"]), rng.randrange(1, c["n"])))
    for b in typical:
        mal.append(b)
        for _ in range(ck.budget(12, 40)):
            kind = rng.randrange(6)
            if kind == 0:
                mal.append(b[:rng.randrange(len(b))])
            elif kind == 1:
                mal.append(b + bytes(rng.getrandbits(8) for _ in range(rng.randrange(1, 4))))
            elif kind == 2:
                mal.append(flip(b, rng.randrange(8 * len(b))))
            elif kind == 3:
                i = rng.randrange(len(b))
                mal.append(b[:i] + bytes([rng.getrandbits(8)]) + b[i + 1:])
            elif kind == 4:
                i = rng.randrange(min(8, len(b)))
                mal.append(flip(b, 8 * i + rng.randrange(8)))
            else:
                i = rng.randrange(len(b))
                mal.append(b[:i] + b[i + 1:])
    mal += [bytes.fromhex(h) for h in (
        "", "30", "3000", "3003020101", "30060201810201" + "01", "300702020001020101", "3006020100020100", "308106020101020101",
        "30820006020101020101", "3080020101020101" + "0000", "3106020101020101", "3006030101020101", "3006020101030101", "30080201010201010500",
        "300602010102010100", "3005020101020101", "3007020101020101", "30060200020201" + "01", "3006020101020100", "300602017f0201ff",
        "30850000000006020101020101", "3084000000060201010201" + "01", "30830000060201010201" + "01", "3006028101" + "01020101")]
    # long-form boundary made by hand: content of exactly 127 / 128 / 255 / 256 octets
    for body_len in (127, 128, 255, 256):
        rl = (body_len - 4) // 2
        r0, s0 = with_len(rng, rl), with_len(rng, body_len - 4 - rl if body_len - 4 - rl < 128 else 127)
        e = cutils.encode_dss_signature(r0, s0)
        mal.append(e)
        mal.append(e[:1] + b"\x81" + e[1:2] + e[2:] if e[1] < 0x80 else e[:1] + b"\x82\x00" + e[2:])
    for b in mal:
        real = real_decode(b)
        s.note(("dec", b), cls="accept" if real.startswith("ok") else "reject")
        reqs.append((("dec", b), "derdec " + hexs(b), real))
        if real.startswith("ok"):
            r0, s0 = (int(x) for x in real[3:].split(","))
            s.expect(cutils.encode_dss_signature(r0, s0) == b, ("dec", b), "decoder accepts a non-canonical encoding (decode then encode differs)", real)
    corr(s, reqs)

    marks.append(("der_codec", time.time()))
    # ================================================================== 2. ECDSASignature parse / export / sniffing, serialize, get_signature
    class _FixedSP(SignatureProvider):
        """signature provider whose `sign` returns a prepared byte string (what an HSM / plugin provider would return)"""
        identifier = "verif-c08-fixed"

        def __init__(self, sig, length):
            self._sig, self._len = sig, length

        def sign(self, data):
            return self._sig

        @property
        def signature_length(self):
            return self._len

    s = ck.stream("ecdsa_sig", "(r,s) per curve: exhaustive 1..40 x 1..40; values with 1..8 leading zero bytes, top bit set, n-1, 1, coordinate-width "
                  "overflow, random; DER lengths forced to every value 2cl-2..2cl+9 and to the other curves' windows; get_ecc_curve for every "
                  "length 0..300; get_encoding/parse on random blobs of every length 0..150 and on the malformed DER pool; "
                  "non-trivial = distinct input; cls = curve/kind")
    reqs = []
    hits = {"raw_rt": 0, "der_rt_ok": 0, "der_finding": 0}

    def sig_case(curve, r, t, kind):
        c = CURVES[curve]
        cl = c["cl"]
        inp = (curve, r, t)
        s.note(inp, cls=f"{curve}/{kind}")
        obj = ECDSASignature(r, t, EccCurve(curve))
        raw = pyres(obj.export, SPSDKEncoding.NXP)
        der = pyres(obj.export, SPSDKEncoding.DER)
        reqs.append((("export_nxp",) + inp, f"sig_export {r} {t} {curve} nxp", canon(raw)))
        reqs.append((("export_der",) + inp, f"sig_export {r} {t} {curve} der", canon(der)))
        reqs.append((("export_pem",) + inp, f"sig_export {r} {t} {curve} pem", canon(pyres(obj.export, SPSDKEncoding.PEM))))
        fits = r < 256 ** cl and t < 256 ** cl
        if fits:
            want_raw = r.to_bytes(cl, "big") + t.to_bytes(cl, "big")
            s.expect(raw == ("ok", want_raw), inp, "raw export is not fixed-width big-endian r || s", raw, want_raw)
        else:
            s.expect(raw[0] != "ok", inp, "raw export truncates a value that does not fit the coordinate width", raw)
        s.expect(der[0] == "ok" and pyres(cutils.decode_dss_signature, der[1]) == ("ok", (r, t)), inp, "DER export does not decode to (r, s)", der)
        want = f"ok:{r},{t},{curve}"
        if raw[0] == "ok":
            b = raw[1]
            got = sig_parse_canon(b)
            reqs.append((("parse_raw",) + inp, "sig_parse " + hexs(b), got))
            reqs.append((("sniff_raw",) + inp, "sig_sniff " + hexs(b), canon(pyres(lambda: ECDSASignature.get_encoding(b).value.lower()))))
            s.expect(got == want, inp, "raw r||s does not parse back to (r, s, curve)", got, want)
            hits["raw_rt"] += got == want
            conv = pyres(lambda: ECDSASignature.parse(b).export(SPSDKEncoding.DER))
            s.expect(der[0] == "ok" and conv == ("ok", der[1]), inp, "raw -> DER conversion differs from the direct DER encoding", conv, der)
            g = pyres(_FixedSP(b, 2 * cl).get_signature, b"m")
            reqs.append((("getsig_raw",) + inp, f"get_signature {hexs(b)} none", canon(g)))
            s.expect(g == ("ok", b), inp, "get_signature changes a raw signature", g, b)
            g2 = pyres(_FixedSP(b, 2 * cl).get_signature, b"m", SPSDKEncoding.DER)
            reqs.append((("getsig_raw_der",) + inp, f"get_signature {hexs(b)} der", canon(g2)))
            s.expect(der[0] == "ok" and g2 == ("ok", der[1]), inp, "get_signature(encoding=DER) is not the DER encoding of the raw signature", g2)
        if der[0] == "ok":
            b = der[1]
            outside = der_outside(curve, len(b))
            got = sig_parse_canon(b)
            reqs.append((("parse_der",) + inp, "sig_parse " + hexs(b), got))
            reqs.append((("sniff_der",) + inp, "sig_sniff " + hexs(b), canon(pyres(lambda: ECDSASignature.get_encoding(b).value.lower()))))
            ok = s.expect(got == want, ("der",) + inp + (len(b),), "DER signature does not parse back to (r, s, curve)", got, want,
                          finding=FID if outside else None)
            hits["der_rt_ok" if ok else "der_finding"] += 1
            ser = pyres(KeyEccCommon.serialize_signature, b, cl)
            reqs.append((("serialize",) + inp, f"serialize {hexs(b)} {cl}", canon(ser)))
            if fits:
                s.expect(ser == ("ok", want_raw), inp, "serialize_signature(DER) is not the fixed-width r || s", ser, want_raw)
                g = pyres(_FixedSP(b, 2 * cl).get_signature, b"m")
                reqs.append((("getsig_der",) + inp, f"get_signature {hexs(b)} none", canon(g)))
                s.expect(g == ("ok", want_raw), ("getsig_der",) + inp + (len(b),),
                         "get_signature does not normalise a provider's DER signature to raw r || s", g, want_raw, finding=FID if outside else None)
            else:
                s.expect(ser[0] != "ok", inp, "serialize_signature truncates", ser)

    for curve, c in CURVES.items():
        cl, n = c["cl"], c["n"]
        for r in range(1, 41):
            for t in range(1, 41):
                sig_case(curve, r, t, "small")
        special = [1, 2, 127, 128, 255, 256, n - 1, n - 2, n // 2, n // 2 + 1, 2 ** (8 * cl - 1), 2 ** (8 * cl - 1) - 1, 2 ** (8 * cl) - 1 if 2 ** (8 * cl) - 1 < n else n - 1]
        for z in range(1, 9):  # z leading zero bytes in the fixed-width form
            special += [2 ** (8 * (cl - z)) - 1, 2 ** (8 * (cl - z) - 1), 2 ** (8 * (cl - z) - 1) - 1, rng.getrandbits(8 * (cl - z)) | 1]
        special = [v for v in special if 1 <= v]
        for v in special:
            sig_case(curve, v, rng.choice(special), "boundary")
            sig_case(curve, rng.randrange(1, n), v, "boundary")
        for _ in range(ck.budget(250, 15000)):
            sig_case(curve, rng.randrange(1, n), rng.randrange(1, n), "random")
        for b in range(256):  # every value of the FIRST byte of the raw form (0x30 = DER SEQUENCE tag, 0x2D = '-', 0x04, 0x00, 0x80, 0xFF ...)
            tail = rng.getrandbits(8 * (cl - 1))
            sig_case(curve, (b << (8 * (cl - 1))) | tail, rng.randrange(1, n), f"lead-byte-r{'/marker' if b in MARKER_BYTES else ''}")
            sig_case(curve, rng.randrange(1, n), (b << (8 * (cl - 1))) | tail, f"lead-byte-s{'/marker' if b in MARKER_BYTES else ''}")
        # raw signatures that look like the start of a DER signature: 30 <len> 02 <len> ...
        for total in (2 * cl,):
            pre = bytes([0x30, total - 2, 0x02, cl - 4]) if total - 2 < 128 else bytes([0x30, 0x81, total - 3, 0x02])
            r0 = int.from_bytes(pre + bytes(rng.getrandbits(8) for _ in range(cl - len(pre))), "big")
            sig_case(curve, r0, rng.randrange(1, n), "lead-byte-r/der-lookalike")
        for v in (256 ** cl, 256 ** cl + 5, 2 ** (8 * cl + 7)):  # do not fit: export must refuse
            sig_case(curve, v, 1, "overflow")
            sig_case(curve, 1, v, "overflow")
        # DER total length forced to every value around the raw length and the window, and into other curves' windows
        targets = list(range(2 * cl - 2, 2 * cl + 10)) + [t for t in (8, 40, 66, 67, 72, 73, 98, 99, 104, 105, 134, 135, 140, 141) if t <= 2 * cl + 9]
        for total in sorted(set(targets)):
            hdr = 2 if total - 2 < 128 else 3
            content = total - hdr - 4
            max_int = n.bit_length() // 8 + 1
            lo, hi = max(1, content - max_int), min(max_int, content - 1)
            if (hdr == 3 and content + 4 < 128) or lo > hi:
                continue  # no (r, s) below n has a DER signature of this length
            done = 0
            for _ in range(200):
                lr = rng.randrange(lo, hi + 1)
                r0, s0 = with_len(rng, lr, n), with_len(rng, content - lr, n)
                if r0 >= n or s0 >= n or der_sig_len(r0, s0) != total:
                    continue
                sig_case(curve, r0, s0, f"derlen{'-in' if not der_outside(curve, total) else '-out'}")
                done += 1
                if done >= ck.budget(3, 12):
                    break
            if not done:
                raise Infra(f"no signature of DER length {total} constructed for {curve}")
    for L in range(0, 301):
        s.note(("curve_of_len", L), cls="get_ecc_curve")
        reqs.append((("curve_of_len", L), f"sig_curve {L}", canon(pyres(lambda: ECDSASignature.get_ecc_curve(L).value))))
    blobs = [bytes(rng.getrandbits(8) for _ in range(L)) for L in range(0, 151) for _ in range(ck.budget(1, 6))]
    blobs += [bytes([0x30, L - 2]) + bytes(rng.getrandbits(8) for _ in range(L - 2)) for L in RAW_LENS + (66, 70, 100, 136)]
    blobs += rng.sample(mal, min(len(mal), ck.budget(600, 4000)))
    for b in blobs:
        s.note(("blob", b), nontrivial=False, cls="blob")
        reqs.append((("parse_blob", b), "sig_parse " + hexs(b), sig_parse_canon(b)))
        reqs.append((("sniff_blob", b), "sig_sniff " + hexs(b), canon(pyres(lambda: ECDSASignature.get_encoding(b).value.lower()))))
        g = pyres(_FixedSP(b, 64).get_signature, b"m")
        reqs.append((("getsig_blob", b), f"get_signature {hexs(b)} none", canon(g)))
        reqs.append((("getsig_blob_pem", b), f"get_signature {hexs(b)} pem", canon(pyres(_FixedSP(b, 64).get_signature, b"m", SPSDKEncoding.PEM))))
    corr(s, reqs)
    ck.extra["ecdsa_sig_counts"] = hits

    marks.append(("ecdsa_sig", time.time()))
    # ================================================================== keys of this run
    keys = []  # (label, private key object)
    for curve, c in CURVES.items():
        cl = c["cl"]
        keys.append((curve, ec_key(curve, rng.randrange(1, c["n"]))))
        # a coordinate with a leading zero byte, forced by rejection sampling (probability 2/256 per key; 1/2 for P-521's 9-bit top byte)
        for which in ("x", "y"):
            for _ in range(20000):
                k = ec_key(curve, rng.randrange(1, c["n"]))
                pk = k.get_public_key()
                if (pk.x if which == "x" else pk.y) < 256 ** (cl - 1):
                    keys.append((f"{curve}/lz{which}", k))
                    break
        for i in range(ck.budget(2, 24)):
            keys.append((f"{curve}/r{i}", ec_key(curve, rng.randrange(1, c["n"]))))
    keys.append(("secp256r1/d=1", ec_key("secp256r1", 1)))
    keys.append(("secp384r1/d=n-1", ec_key("secp384r1", CURVES["secp384r1"]["n"] - 1)))
    rsa_sizes = [2048] if ck.quick else [2048, 2048, 3072, 4096]
    for bits in rsa_sizes:
        keys.append((f"rsa{bits}/gen", make_rsa_key(bits, rng)))
    tests = Path(os.environ.get("SPSDK_REPO", "/repo")) / "tests"
    for rel in ("image/mbi/data/keys_and_certs/private_rsa3072.pem", "image/mbi/data/keys_and_certs/private_rsa4096.pem",
                "crypto/data/selfsign_privatekey_rsa2048.pem"):
        p = tests / rel
        if p.exists():
            r = pyres(PrivateKey.load, str(p))
            if r[0] == "ok":
                keys.append(("rsa-file/" + p.name, r[1]))
    others = {}  # label -> a different key of the same type
    for label, k in keys:
        if isinstance(k, PrivateKeyEcc):
            cv = k.curve.value
            others[label] = ec_key(cv, rng.randrange(1, CURVES[cv]["n"]))
    rsa_other = {}

    def other_key(label, k):
        if label in others:
            return others[label]
        bits = k.key_size
        if bits not in rsa_other:
            cands = [kk for ll, kk in keys if isinstance(kk, PrivateKeyRsa) and kk.key_size == bits and kk is not k]
            rsa_other[bits] = cands[0] if cands else make_rsa_key(bits, rng)
        o = rsa_other[bits]
        return o if o is not k else [kk for ll, kk in keys if isinstance(kk, PrivateKeyRsa) and kk.key_size == bits and kk is not k][0]

    marks.append(("key_generation", time.time()))
    # ================================================================== 3. key serialisation
    s = ck.stream("key_serialisation", "every key of the run (P-256/384/521 incl. leading-zero X / Y, d=1, d=n-1; RSA-2048 generated from seeded primes; "
                  "RSA 2048/3072/4096 from tests data; thorough: generated 3072/4096): private export PEM/DER x password {none, ascii, non-ascii} -> "
                  "PrivateKey.parse / type-specific parse / load from file / extract_public_key_from_data; public export PEM/DER/NXP -> PublicKey.parse / "
                  "type-specific parse / recreate_from_data; wrong / missing password and wrong type are refused; self-signed certificate "
                  "PEM/DER/NXP -> Certificate.parse; non-trivial = distinct (key, encoding, password, entry point); cls = key type/encoding")
    reqs_pub = []

    def ext_tokens(data):
        """answers of `cryptography` for this blob, obtained by direct calls (the model's `Ext`)"""
        d = pyres(cser.load_der_public_key, data)
        p = pyres(cser.load_pem_public_key, data)
        der_t = crypto_pub(d[1]) if d[0] == "ok" else "none"
        pem_t = crypto_pub(p[1]) if p[0] == "ok" else "none"
        onc = "0"
        if len(data) in (64, 96, 132):
            cv = {64: "secp256r1", 96: "secp384r1", 132: "secp521r1"}[len(data)]
            h = len(data) // 2
            x, y = int.from_bytes(data[:h], "big"), int.from_bytes(data[h:], "big")
            ok = pyres(lambda: ec.EllipticCurvePublicNumbers(x, y, KeyEccCommon._get_ec_curve_object(EccCurve(cv))).public_key())
            onc = "1" if ok[0] == "ok" else "0"
        return der_t, pem_t, onc

    def pub_parse_reqs(data, tag):
        """correspondence requests for the three entry points + recreate_from_data on one blob"""
        if drv is None:
            return
        der_t, pem_t, onc = ext_tokens(data)
        # would `cryptography` accept the RSA numbers the implementation reads from this blob?  (input of the model's `Ext`, taken from the
        # real code - never from the driver: a driver answer may only ever be compared)
        rsaok = "0"
        rn = pyres(PublicKeyRsa.recreate_public_numbers, data)
        if rn[0] == "ok":
            rsaok = "1" if pyres(lambda: rsa.RSAPublicNumbers(rn[1].e, rn[1].n).public_key())[0] == "ok" else "0"
        reqs_pub.append(((tag, "rsa_numbers", data), "rsa_numbers " + hexs(data),
                         (lambda r: f"ok:{r[1].n},{r[1].e}" if r[0] == "ok" else r[0])(pyres(PublicKeyRsa.recreate_public_numbers, data))))
        for which, fn in (("any", PublicKey.parse), ("rsa", PublicKeyRsa.parse), ("ecc", PublicKeyEcc.parse), ("rsa_data", PublicKeyRsa.recreate_from_data)):
            r = pyres(fn, data)
            real = "ok:" + pubnum(r[1]) if r[0] == "ok" else r[0]
            reqs_pub.append(((tag, which, data), f"pub_parse {which} {hexs(data)} {der_t} {pem_t} {onc} {rsaok} none", real))
        for cv in ("none", "secp256r1", "secp384r1", "secp521r1"):
            r = pyres(PublicKeyEcc.recreate_from_data, data, None if cv == "none" else EccCurve(cv))
            real = "ok:" + pubnum(r[1]) if r[0] == "ok" else r[0]
            reqs_pub.append(((tag, "ecc_recreate", cv, data), f"ecc_recreate {hexs(data)} {cv} {der_t} {pem_t} {onc} {rsaok} none", real))
        reqs_pub.append(((tag, "file_enc", data), "file_enc " + hexs(data), canon(pyres(lambda: SPSDKEncoding.get_file_encodings(data).value.lower()))))

    passwords = [None, "pass", "hešlo-ключ"]
    for label, k in keys:
        is_ecc = isinstance(k, PrivateKeyEcc)
        ktype = "ecc" if is_ecc else f"rsa{k.key_size}"
        own_cls, wrong_cls = (PrivateKeyEcc, PrivateKeyRsa) if is_ecc else (PrivateKeyRsa, PrivateKeyEcc)
        want_priv = privnum(k)
        pub = k.get_public_key()
        want_pub = pubnum(pub)
        # ---- private keys
        for enc in ("pem", "der"):
            for pw in (passwords if (ck.quick is False or label.endswith(("gen", "lzx")) or "/" not in label) else passwords[:2]):
                inp = (label, "private", enc, pw)
                s.note(inp, cls=f"{ktype}/priv-{enc}{'-pw' if pw else ''}")
                ex = pyres(k.export, pw, ENC[enc])
                if not s.expect(ex[0] == "ok", inp, "private key export fails", ex):
                    continue
                data = ex[1]
                fe = SPSDKEncoding.get_file_encodings(data)
                s.expect(fe == ENC[enc], inp, "exported private key is sniffed as the other encoding", fe.value, enc)
                for ename, fn in (("PrivateKey.parse", PrivateKey.parse), (own_cls.__name__ + ".parse", own_cls.parse)):
                    r = pyres(fn, data, pw)
                    s.expect(r[0] == "ok" and privnum(r[1]) == want_priv and r[1] == k, inp + (ename,), "parsed private key differs from the exported one",
                             r if r[0] != "ok" else privnum(r[1])[:80], want_priv[:80])
                r = pyres(wrong_cls.parse, data, pw)
                s.expect(r[0] == "E:spsdk", inp + ("wrong type",), "type-specific parse of the other key type does not refuse with an SPSDK error", r)
                if pw:
                    r = pyres(PrivateKey.parse, data, pw + "x")
                    s.expect(r[0] == "E:spsdk", inp + ("wrong password",), "wrong password is not refused with an SPSDK error", r)
                    r = pyres(PrivateKey.parse, data, None)
                    s.expect(r[0] == "E:spsdk", inp + ("no password",), "missing password is not refused with an SPSDK error", r)
                else:
                    r = pyres(sutils.extract_public_key_from_data, data)
                    s.expect(r[0] == "ok" and pubnum(r[1]) == want_pub, inp + ("extract_public_key_from_data",), "public key extracted from private key data differs", r)
                if enc == "pem" and pw in (None, "pass"):
                    fpath = scratch / f"k{abs(hash((label, pw))) % 10 ** 8}.pem"
                    r = pyres(lambda: (k.save(str(fpath), pw, ENC[enc]), PrivateKey.load(str(fpath), pw))[1])
                    s.expect(r[0] == "ok" and privnum(r[1]) == want_priv, inp + ("save/load",), "key loaded from file differs from the saved one", r)
        # ---- public keys
        own_pcls, wrong_pcls = (PublicKeyEcc, PublicKeyRsa) if is_ecc else (PublicKeyRsa, PublicKeyEcc)
        for enc in ("pem", "der", "nxp"):
            inp = (label, "public", enc)
            s.note(inp, cls=f"{ktype}/pub-{enc}")
            ex = pyres(pub.export, ENC[enc])
            if not s.expect(ex[0] == "ok", inp, "public key export fails", ex):
                continue
            data = ex[1]
            if enc == "nxp":
                if is_ecc:
                    cl = CURVES[k.curve.value]["cl"]
                    want_raw = pub.x.to_bytes(cl, "big") + pub.y.to_bytes(cl, "big")
                    reqs_pub.append(((label, "ecc_export"), f"ecc_export {k.curve.value} {pub.x} {pub.y}", canon(ex)))
                else:
                    want_raw = pub.n.to_bytes(k.key_size // 8, "big") + pub.e.to_bytes(3, "big")
                    reqs_pub.append(((label, "rsa_export"), f"rsa_export {pub.n} {pub.e} 0 0", canon(ex)))
                    for el, ml in ((4, 0), (0, k.key_size // 8 + 2), (4, k.key_size // 8), (2, 0), (0, 8)):
                        r = pyres(pub.export, ENC[enc], el or None, ml or None)
                        reqs_pub.append(((label, "rsa_export", el, ml), f"rsa_export {pub.n} {pub.e} {el} {ml}", canon(r)))
                s.expect(data == want_raw, inp, "NXP raw export is not the fixed-width big-endian concatenation", data, want_raw)
            for ename, fn in (("PublicKey.parse", PublicKey.parse), (own_pcls.__name__ + ".parse", own_pcls.parse)) + (
                    ((own_pcls.__name__ + ".recreate_from_data", own_pcls.recreate_from_data),) if enc == "nxp" else ()):
                r = pyres(fn, data)
                s.expect(r[0] == "ok" and pubnum(r[1]) == want_pub and r[1] == pub, inp + (ename,), "parsed public key differs from the exported one",
                         r if r[0] != "ok" else pubnum(r[1])[:80], want_pub[:80])
            r = pyres(wrong_pcls.parse, data)
            s.expect(r[0] == "E:spsdk", inp + ("wrong type",), "type-specific parse of the other key type does not refuse with an SPSDK error", r)
            r = pyres(sutils.extract_public_key_from_data, data)
            s.expect(r[0] == "ok" and pubnum(r[1]) == want_pub, inp + ("extract_public_key_from_data",), "extract_public_key_from_data differs", r)
            pub_parse_reqs(data, label + "/" + enc)
            if enc == "nxp":
                # damaged raw blobs: one byte changed, one byte more / less
                i = rng.randrange(len(data))
                for bad in (data[:i] + bytes([data[i] ^ (1 << rng.randrange(8))]) + data[i + 1:], data + b"\x00", data[:-1], b"\x00" + data):
                    s.note((label, "public", "nxp-damaged", len(bad)), nontrivial=False, cls=f"{ktype}/pub-damaged")
                    pub_parse_reqs(bad, label + "/nxp-damaged")
                    r = pyres(PublicKey.parse, bad)
                    s.expect(not (r[0] == "ok" and pubnum(r[1]) == want_pub), (label, "nxp-damaged", bad),
                             "a damaged raw public key parses to the original key", r)
        # ---- certificate (X.509 around the same key; its signature is a DER ECDSA / PKCS#1 signature checked through verify_signature)
        if ck.quick is False or "/" not in label or label.endswith("gen"):
            inp = (label, "certificate")
            s.note(inp, cls=f"{ktype}/cert")
            name = generate_name([{"COMMON_NAME": "verif-c08"}])
            cr = pyres(Certificate.generate_certificate, name, name, pub, k, 0x1234 + len(label))
            if s.expect(cr[0] == "ok", inp, "self-signed certificate cannot be generated", cr):
                cert = cr[1]
                der0 = cert.export(SPSDKEncoding.DER)
                for enc in ("pem", "der", "nxp"):
                    r = pyres(lambda: Certificate.parse(cert.export(ENC[enc])))
                    ok = r[0] == "ok" and r[1].export(SPSDKEncoding.DER) == der0 and pubnum(r[1].get_public_key()) == want_pub
                    s.expect(ok, inp + (enc,), "certificate does not survive export -> parse (bytes or public key differ)", r)
                r = pyres(cert.validate, cert)
                s.expect(r == ("ok", True), inp + ("validate",), "self-signed certificate does not validate under its own key", r)
                r = pyres(sutils.extract_public_key_from_data, cert.export(SPSDKEncoding.PEM))
                s.expect(r[0] == "ok" and pubnum(r[1]) == want_pub, inp + ("extract_public_key_from_data",), "public key extracted from certificate differs", r)
                oc = pyres(Certificate.generate_certificate, name, name, pub, other_key(label, k), 77)
                if oc[0] == "ok":
                    r = pyres(oc[1].validate, cert)
                    s.expect(r == ("ok", False), inp + ("validate-other",), "certificate signed by another key validates under this key", r)
    # ---- FIRST BYTE of the raw encodings, swept systematically.  ECC: private scalars d = 1, 2, 3, ... (deterministic spread) until every
    # value 0x00..0xFF has been seen as the leading byte of X and of Y (cap N); every first occurrence goes through ALL auto-detecting and
    # type-specific entry points and the model.  secp521r1's leading byte is 0 or 1 (521 bits in 66 bytes): its second byte is swept instead.
    class _CheckSP(SignatureProvider):
        identifier = "verif-c08-check"

        def __init__(self, expected):
            self.expected = expected

        def sign(self, data):
            return b""

        @property
        def signature_length(self):
            return 0

        def verify_public_key(self, public_key):
            return pubnum(public_key) == self.expected

    lead_cov = {}
    cap = ck.budget(6000, 60000)
    for curve, c in CURVES.items():
        cl = c["cl"]
        pos = 1 if curve == "secp521r1" else 0  # byte position swept
        seen = {"x": {}, "y": {}}
        cobj = KeyEccCommon._get_ec_curve_object(EccCurve(curve))
        d = 0
        while d < cap and (len(seen["x"]) < 256 or len(seen["y"]) < 256):
            d += 1
            pn = ec.derive_private_key(d, cobj).public_key().public_numbers()
            bx, by = pn.x.to_bytes(cl, "big")[pos], pn.y.to_bytes(cl, "big")[pos]
            new_x, new_y = bx not in seen["x"], by not in seen["y"]
            if not (new_x or new_y):
                continue
            if new_x:
                seen["x"][bx] = d
            if new_y:
                seen["y"][by] = d
            marker = (new_x and bx in MARKER_BYTES) or (new_y and by in MARKER_BYTES)
            pub = PublicKeyEcc.recreate(pn.x, pn.y, EccCurve(curve))
            want_pub = f"ecc:{curve}:{pn.x}:{pn.y}"
            data = pub.export(SPSDKEncoding.NXP)
            inp = (curve, "first-byte", {"private_value": d, "x_byte": bx, "y_byte": by, "raw": data.hex()})
            s.note(inp, cls=f"ecc/first-byte{'/marker' if marker else ''}")
            s.expect(data == pn.x.to_bytes(cl, "big") + pn.y.to_bytes(cl, "big"), inp, "NXP raw export is not the fixed-width big-endian concatenation", data)
            fpath = scratch / "fb.bin"
            entries = [("PublicKey.parse", lambda: PublicKey.parse(data)), ("PublicKeyEcc.parse", lambda: PublicKeyEcc.parse(data)),
                       ("PublicKeyEcc.recreate_from_data", lambda: PublicKeyEcc.recreate_from_data(data)),
                       ("extract_public_key_from_data", lambda: sutils.extract_public_key_from_data(data))]
            if marker or d % 7 == 0:
                entries.append(("PublicKey.load", lambda: (fpath.write_bytes(data), PublicKey.load(str(fpath)))[1]))
            for ename, fn in entries:
                r = pyres(fn)
                s.expect(r[0] == "ok" and pubnum(r[1]) == want_pub, inp + (ename,), "parsed public key differs from the exported one (raw NXP form)",
                         r if r[0] != "ok" else pubnum(r[1])[:80], want_pub[:80])
            r = pyres(_CheckSP(want_pub).try_to_verify_public_key, data)
            s.expect(r == ("ok", None), inp + ("SignatureProvider.try_to_verify_public_key(bytes)",), "the raw public key is not accepted as matching", r)
            r = pyres(PublicKeyRsa.parse, data)
            s.expect(r[0] == "E:spsdk", inp + ("wrong type",), "PublicKeyRsa.parse of a raw ECC key does not refuse with an SPSDK error", r)
            pub_parse_reqs(data, f"{curve}/first-byte")
        lead_cov[curve] = {"byte_position": pos, "x_values": len(seen["x"]), "y_values": len(seen["y"]), "scalars_tried": d,
                           "marker_bytes_x": sorted(b for b in MARKER_BYTES if b in seen["x"]), "d_for_x_0x30": seen["x"].get(0x30)}
    # RSA: the modulus has its top bit set, so its first byte is 0x80..0xFF - every value, on synthetic odd moduli (public key only)
    rsa_seen = 0
    for bits in (2048,) if ck.quick else (2048, 3072, 4096):
        for b in range(0x80, 0x100):
            nmod = (b << (bits - 8)) | rng.getrandbits(bits - 8) | 1
            r = pyres(PublicKeyRsa.recreate, 65537, nmod)
            if r[0] != "ok":
                continue
            rsa_seen += 1
            pub = r[1]
            data = pub.export(SPSDKEncoding.NXP)
            inp = (f"rsa{bits}", "first-byte", b, {"n": nmod})
            s.note(inp, cls="rsa/first-byte")
            for ename, fn in (("PublicKey.parse", PublicKey.parse), ("PublicKeyRsa.parse", PublicKeyRsa.parse), ("extract_public_key_from_data", sutils.extract_public_key_from_data)):
                r = pyres(fn, data)
                s.expect(r[0] == "ok" and pubnum(r[1]) == f"rsa:{nmod}:65537", inp + (ename,), "parsed public key differs from the exported one (raw NXP form)", r)
            if b in (0x80, 0xC2, 0xE0, 0xF0, 0xFF) or b % 16 == 0:
                pub_parse_reqs(data, f"rsa{bits}/first-byte")
    lead_cov["rsa_modulus_first_bytes"] = rsa_seen
    # raw private scalars (read by nxpcrypto's reconstruct_key only): every first byte, P-256 and P-384
    from spsdk.apps.nxpcrypto import reconstruct_key
    for curve, width in (("secp256r1", 32), ("secp384r1", 48)):
        for b in range(256):
            dv = ((b << (8 * (width - 1))) | rng.getrandbits(8 * (width - 1))) % CURVES[curve]["n"] or 1
            raw = dv.to_bytes(width, "big")
            inp = (curve, "raw-private-first-byte", raw[0], {"private_value": dv})
            s.note(inp, cls="ecc/raw-private-first-byte")
            r = pyres(reconstruct_key, raw)
            s.expect(r[0] == "ok" and isinstance(r[1], PrivateKeyEcc) and r[1].d == dv and r[1].curve.value == curve, inp,
                     "nxpcrypto reconstruct_key does not recover a raw private scalar", r if r[0] != "ok" else repr(r[1]))
    ck.extra["first_byte_coverage"] = lead_cov
    # malformed / boundary-length blobs through every public entry point (correspondence only: accept/reject class and numbers)
    for L in (0, 1, 63, 64, 65, 70, 71, 72, 73, 74, 95, 96, 97, 102, 103, 105, 106, 131, 132, 133, 138, 139, 141, 142, 258, 259, 260, 261, 386, 387, 388, 389, 514, 515, 516, 517):
        for _ in range(ck.budget(1, 4)):
            b = bytes(rng.getrandbits(8) for _ in range(L))
            s.note(("blob", L), nontrivial=False, cls="pub-blob")
            pub_parse_reqs(b, "blob")
            if L in (259, 387, 515):  # odd / even exponent variants at the RSA raw lengths
                pub_parse_reqs(b[:-3] + b"\x01\x00\x01", "blob-e65537")
                pub_parse_reqs(b[:-3] + b"\x01\x00\x00", "blob-e-even")
    corr(s, reqs_pub)

    marks.append(("key_serialisation", time.time()))
    # ================================================================== 4. get_file_encodings (UTF-8 + "----")
    s = ck.stream("file_encoding", "every 1- and 2-byte string followed by '----' (exhaustive), 3/4-byte sequences over the boundary bytes of every UTF-8 "
                  "lead-byte class followed by '----', dashes split by other bytes, PEM / DER exports of the run's keys with one byte changed; "
                  "non-trivial = distinct input; cls = pem/der")
    reqs = []
    cases = [bytes([a]) + b"----" for a in range(256)]
    step2 = 1 if not ck.quick else 3
    cases += [bytes([a, b]) + b"----" for a in range(0x70, 256) for b in range(0, 256, step2)]
    edge = [0x00, 0x7F, 0x80, 0x8F, 0x90, 0x9F, 0xA0, 0xBF, 0xC0, 0xC2]
    for a in (0xE0, 0xE1, 0xEC, 0xED, 0xEE, 0xEF):
        cases += [bytes([a, b, c]) + b"----" for b in edge for c in edge]
    for a in (0xF0, 0xF1, 0xF3, 0xF4, 0xF5):
        cases += [bytes([a, b, c, d]) + b"-----" for b in edge for c in (0x7F, 0x80, 0xBF, 0xC0) for d in (0x7F, 0x80, 0xBF, 0xC0)]
    cases += [b"", b"-", b"---", b"----", b"--x--", b"---\xff-", b"\xff----", b"----\xff", b"-----BEGIN", b"\xe2\x82\xac----", b"\xe2\x82----", b"--\xc3\xa9--", b"-\n---",
              "é----".encode(), b"\xed\xa0\x80----", b"\xf4\x90\x80\x80----", b"\xc0\xaf----", b"\xef\xbb\xbf----"]
    for b in cases:
        real = canon(pyres(lambda: SPSDKEncoding.get_file_encodings(b).value.lower()))
        s.note(b, cls=real)
        reqs.append((b, "file_enc " + hexs(b), real))
        # the property only needs PEM text to be recognised as PEM and binary DER / raw data as DER (checked on every export of the
        # key_serialisation stream); on arbitrary bytes the answer is compared with the model only
        s.expect(real in ("ok:pem", "ok:der"), b, "get_file_encodings raises or answers something else than PEM / DER", real)
    corr(s, reqs)

    marks.append(("file_encoding", time.time()))
    # ================================================================== 5. sign / verify
    s = ck.stream("sign_verify", "every key x hash {sha256, sha384, sha512 (+sha1 thorough)} x {PKCS#1 v1.5, PSS | raw, DER} x {message, pre-hashed}: SPSDK verify, "
                  "cryptography called directly, pure-Python RSA / ECDSA verifier; negative: single-bit changes of message and signature, other key, "
                  "other message, other hash; real signatures with a leading-zero r or s forced by rejection sampling; valid signatures constructed "
                  "with DER length = raw length / outside the window (real keys solved from chosen k, s); PlainFileSP.get_signature; "
                  "non-trivial = distinct (key, parameters, message); cls = key type/parameters")
    hnames = ["sha256", "sha384", "sha512"] + ([] if ck.quick else ["sha1"])
    vreqs = []  # (input, curve, signature bytes, pub obj, data, hash cls, prehashed, spsdk result)
    nneg = 0

    def neg(cond_res, inp, what):
        nonlocal nneg
        nneg += 1
        s.expect(cond_res != ("ok", True), inp, what, cond_res)

    def check_ecc_sig(label, k, pub, sig, msg, hname, prehashed, inp, expect_findingless=True):
        """positive + negative checks of one ECDSA signature (raw or DER) on data `msg`"""
        halg, hcls = HASHES[hname]
        curve = k.curve.value
        cl = CURVES[curve]["cl"]
        data = hashlib.new(hname, msg).digest() if prehashed else msg
        r = pyres(pub.verify_signature, sig, data, halg, prehashed=prehashed)
        s.expect(r == ("ok", True), inp, "SPSDK does not verify a signature made with the matching key and parameters", r, True)
        vreqs.append((inp, curve, sig, pub.key, data, hcls, prehashed, r))
        # independent: cryptography called directly on the DER form, and the pure-Python verifier on (r, s)
        if len(sig) == 2 * cl and pyres(cutils.decode_dss_signature, sig)[0] != "ok":
            r0, s0 = int.from_bytes(sig[:cl], "big"), int.from_bytes(sig[cl:], "big")
        else:
            dd = pyres(cutils.decode_dss_signature, sig)
            if dd[0] != "ok":
                s.expect(False, inp, "signature is neither raw nor DER", sig)
                return
            r0, s0 = dd[1]
        der = cutils.encode_dss_signature(r0, s0)
        s.expect(crypto_verify_ec(pub.key, der, data, hcls, prehashed), inp, "cryptography (called directly) rejects the signature SPSDK produced", (r0, s0))
        z = digest_to_z(curve, hashlib.new(hname, msg).digest())
        s.expect(py_ecdsa_verify(curve, pub.x, pub.y, z, r0, s0), inp, "the pure-Python ECDSA verifier rejects the signature", (r0, s0))
        # pre-hashed and plain forms are interchangeable
        r = pyres(pub.verify_signature, sig, msg if prehashed else hashlib.new(hname, msg).digest(), halg, prehashed=not prehashed)
        s.expect(r == ("ok", True), inp + ("prehash-equivalence",), "pre-hashed and plain verification disagree", r)
        # negatives
        for bit in rng.sample(range(8 * len(sig)), ck.budget(3, 10)):
            neg(pyres(pub.verify_signature, flip(sig, bit), data, halg, prehashed=prehashed), inp + ("sig-bit", bit), "a signature with one bit changed verifies")
        if msg and not prehashed:
            for bit in rng.sample(range(8 * len(msg)), min(8 * len(msg), ck.budget(2, 8))):
                neg(pyres(pub.verify_signature, sig, flip(msg, bit), halg), inp + ("msg-bit", bit), "a message with one bit changed verifies")
        if prehashed:
            used = min(len(data), CURVES[curve]["n"].bit_length() // 8)  # ECDSA uses the leftmost bits of a longer digest only
            neg(pyres(pub.verify_signature, sig, flip(data, rng.randrange(8 * used)), halg, prehashed=True), inp + ("digest-bit",), "a digest with one (used) bit changed verifies")
        neg(pyres(pub.verify_signature, sig, msg + b"\x00", halg), inp + ("msg-extended",), "an extended message verifies")
        neg(pyres(other_key(label, k).get_public_key().verify_signature, sig, data, halg, prehashed=prehashed), inp + ("other-key",), "the signature verifies under a different key")
        oh = [h for h in hnames if h != hname][0]
        if not prehashed:
            neg(pyres(pub.verify_signature, sig, msg, HASHES[oh][0]), inp + ("other-hash",), "the signature verifies with a different hash algorithm")

    messages = [b"", b"a", bytes(rng.getrandbits(8) for _ in range(rng.randrange(2, 300)))]
    for label, k in keys:
        pub = k.get_public_key()
        is_ecc = isinstance(k, PrivateKeyEcc)
        full = (not ck.quick) or "/" not in label or label.endswith(("gen", "lzx"))
        for hname in (hnames if full else hnames[:1]):
            halg, hcls = HASHES[hname]
            for msg in (messages if full else messages[2:]):
                digest = hashlib.new(hname, msg).digest()
                if is_ecc:
                    for der_format in (False, True):
                        for prehashed in (False, True):
                            inp = (label, hname, "der" if der_format else "raw", "prehashed" if prehashed else "msg", msg)
                            s.note(inp, cls=f"ecc/{k.curve.value}/{'der' if der_format else 'raw'}{'/prehashed' if prehashed else ''}")
                            sg = pyres(k.sign, digest if prehashed else msg, halg, der_format=der_format, prehashed=prehashed)
                            if not s.expect(sg[0] == "ok", inp, "signing fails", sg):
                                continue
                            cl = CURVES[k.curve.value]["cl"]
                            if not der_format:
                                s.expect(len(sg[1]) == 2 * cl == k.signature_size, inp, "raw signature is not 2 x coordinate size long", len(sg[1]), 2 * cl)
                            else:
                                dd = pyres(cutils.decode_dss_signature, sg[1])
                                s.expect(dd[0] == "ok" and cutils.encode_dss_signature(*dd[1]) == sg[1], inp, "sign(der_format=True) does not return a DER signature", sg[1])
                            check_ecc_sig(label, k, pub, sg[1], msg, hname, prehashed, inp)
                else:
                    for pss in (False, True):
                        for prehashed in (False, True):
                            inp = (label, hname, "pss" if pss else "pkcs1v15", "prehashed" if prehashed else "msg", msg)
                            s.note(inp, cls=f"rsa{k.key_size}/{'pss' if pss else 'v15'}{'/prehashed' if prehashed else ''}")
                            data = digest if prehashed else msg
                            sg = pyres(k.sign, data, halg, pss_padding=pss, prehashed=prehashed)
                            if not s.expect(sg[0] == "ok" and len(sg[1]) == k.signature_size, inp, "signing fails or signature has the wrong size", sg):
                                continue
                            sig = sg[1]
                            r = pyres(pub.verify_signature, sig, data, halg, pss_padding=pss, prehashed=prehashed)
                            s.expect(r == ("ok", True), inp, "SPSDK does not verify a signature made with the matching key and parameters", r, True)
                            pad = padding.PSS(mgf=padding.MGF1(hcls()), salt_length=padding.PSS.DIGEST_LENGTH) if pss else padding.PKCS1v15()
                            try:
                                pub.key.verify(sig, msg, pad, hcls())
                                ok = True
                            except InvalidSignature:
                                ok = False
                            s.expect(ok, inp, "cryptography (called directly, on the message) rejects the signature SPSDK produced")
                            s.expect(py_rsa_verify(pub.n, pub.e, digest, hname, sig, pss), inp, "the pure-Python RSA verifier rejects the signature")
                            r = pyres(pub.verify_signature, sig, msg if prehashed else digest, halg, pss_padding=pss, prehashed=not prehashed)
                            s.expect(r == ("ok", True), inp + ("prehash-equivalence",), "pre-hashed and plain verification disagree", r)
                            for bit in rng.sample(range(8 * len(sig)), ck.budget(2, 8)):
                                neg(pyres(pub.verify_signature, flip(sig, bit), data, halg, pss_padding=pss, prehashed=prehashed), inp + ("sig-bit", bit), "a signature with one bit changed verifies")
                            if msg and not prehashed:
                                for bit in rng.sample(range(8 * len(msg)), min(8 * len(msg), ck.budget(2, 8))):
                                    neg(pyres(pub.verify_signature, sig, flip(msg, bit), halg, pss_padding=pss), inp + ("msg-bit", bit), "a message with one bit changed verifies")
                            neg(pyres(pub.verify_signature, sig, data, halg, pss_padding=not pss, prehashed=prehashed), inp + ("other-padding",), "the signature verifies with the other padding scheme")
                            neg(pyres(other_key(label, k).get_public_key().verify_signature, sig, data, halg, pss_padding=pss, prehashed=prehashed), inp + ("other-key",), "the signature verifies under a different key")
                            oh = [h for h in hnames if h != hname][0]
                            if not prehashed:
                                neg(pyres(pub.verify_signature, sig, msg, HASHES[oh][0], pss_padding=pss), inp + ("other-hash",), "the signature verifies with a different hash algorithm")
        # default parameters (algorithm=None): the key's default hash
        inp = (label, "defaults")
        s.note(inp, cls="defaults")
        sg = pyres(k.sign, b"default parameters")
        r = pyres(lambda: pub.verify_signature(sg[1], b"default parameters")) if sg[0] == "ok" else sg
        s.expect(r == ("ok", True), inp, "sign/verify with default parameters fails", r)
        if is_ecc and sg[0] == "ok":
            dh = CURVES[k.curve.value]["hash"]
            r = pyres(pub.verify_signature, sg[1], b"default parameters", HASHES[dh][0])
            s.expect(r == ("ok", True), inp + (dh,), "the default hash of the curve is not SHA-256/384/512 by key size", r)
        # PlainFileSP: key file -> get_signature -> raw signature of the expected length that verifies
        if "/" not in label or label.endswith("gen"):
            inp = (label, "PlainFileSP")
            s.note(inp, cls="signature-provider")
            fpath = scratch / f"sp{abs(hash(label)) % 10 ** 8}.pem"
            r = pyres(lambda: (k.save(str(fpath)), PlainFileSP(str(fpath)))[1])
            if s.expect(r[0] == "ok", inp, "PlainFileSP cannot load the saved key", r):
                sp = r[1]
                g = pyres(sp.get_signature, b"provider data")
                ok = g[0] == "ok" and len(g[1]) == sp.signature_length == k.signature_size and pub.verify_signature(g[1], b"provider data")
                s.expect(ok, inp, "PlainFileSP.get_signature is not a raw signature of signature_length bytes that verifies", g)
                s.expect(pyres(sp.verify_public_key, pub) == ("ok", True), inp, "PlainFileSP.verify_public_key rejects its own public key")
                if is_ecc and g[0] == "ok":
                    g2 = pyres(sp.get_signature, b"provider data", SPSDKEncoding.DER)
                    s.expect(g2[0] == "ok" and pyres(cutils.decode_dss_signature, g2[1])[0] == "ok" and pub.verify_signature(g2[1], b"provider data"),
                             inp + ("der",), "get_signature(encoding=DER) is not a DER signature that verifies", g2)
    # real signatures whose r or s has a leading zero byte (rejection sampling, probability ~2/256 per signature)
    for curve in CURVES:
        label, k = next((ll, kk) for ll, kk in keys if ll == curve)
        pub, cl = k.get_public_key(), CURVES[curve]["cl"]
        found = 0
        for i in range(ck.budget(3000, 20000)):
            msg = b"lz%d" % i
            sig = k.sign(msg)
            if sig[0] == 0 or sig[cl] == 0 if curve != "secp521r1" else (sig[:2] == b"\x00\x00" or sig[cl:cl + 2] == b"\x00\x00"):
                found += 1
                for fmt in ("raw", "der"):
                    sg = sig if fmt == "raw" else cutils.encode_dss_signature(int.from_bytes(sig[:cl], "big"), int.from_bytes(sig[cl:], "big"))
                    inp = (label, "leading-zero", fmt, msg)
                    s.note(inp, cls=f"ecc/{curve}/leading-zero-{fmt}")
                    check_ecc_sig(label, k, pub, sg, msg, CURVES[curve]["hash"], False, inp)
                if found >= ck.budget(2, 12):
                    break
        ck.extra.setdefault("leading_zero_signatures", {})[curve] = found
    # real raw signatures starting with the DER SEQUENCE tag 0x30 (and with '-'): rejection sampling, ~1/256 per signature
    for curve in ("secp256r1", "secp384r1"):
        label, k = next((ll, kk) for ll, kk in keys if ll == curve)
        pub = k.get_public_key()
        want = {0x30, 0x2D}
        for i in range(ck.budget(4000, 20000)):
            msg = b"fb%d" % i
            sig = k.sign(msg)
            if sig[0] in want:
                want.discard(sig[0])
                inp = (label, "raw-first-byte", sig[0], msg, sig.hex())
                s.note(inp, cls=f"ecc/{curve}/raw-first-byte-marker")
                check_ecc_sig(label, k, pub, sig, msg, CURVES[curve]["hash"], False, inp)
                if not want:
                    break
        ck.extra.setdefault("raw_signature_marker_first_bytes_missing", {})[curve] = sorted(want)
    # valid signatures with a chosen DER length: pick k and s, solve the private key d = (s*k - z) / r mod n  (a real key pair)
    ncon = 0
    for curve, c in CURVES.items():
        n, cl, hname = c["n"], c["cl"], c["hash"]
        cobj = KeyEccCommon._get_ec_curve_object(EccCurve(curve))
        targets = [2 * cl, 2 * cl + 1, 2 * cl + 2, 2 * cl + 3, 2 * cl - 1, 40] + ([] if ck.quick else [2 * cl - 6, 2 * cl + 8, 66, 72, 100, 104])
        for total in targets:
            for rep in range(ck.budget(1, 3)):
                msg = b"constructed %d %d" % (total, rep)
                z = digest_to_z(curve, hashlib.new(hname, msg).digest())
                kk = rng.randrange(1, n)
                r0 = ec.derive_private_key(kk, cobj).public_key().public_numbers().x % n
                hdr = 2 if total - 2 < 128 else 3
                ls = total - hdr - 4 - der_int_len(r0)
                if r0 == 0 or ls < 1 or ls > n.bit_length() // 8 + 1 or (hdr == 3 and total - 3 < 128):
                    continue
                s0 = with_len(rng, ls, n)
                d = (s0 * kk - z) * pow(r0, -1, n) % n
                if d == 0 or s0 >= n or der_sig_len(r0, s0) != total:
                    continue
                key = ec_key(curve, d)
                pub = key.get_public_key()
                der = cutils.encode_dss_signature(r0, s0)
                if not (crypto_verify_ec(pub.key, der, msg, HASHES[hname][1]) and py_ecdsa_verify(curve, pub.x, pub.y, z, r0, s0)):
                    raise Infra("constructed signature is not valid - harness error")
                ncon += 1
                label = f"{curve}/constructed"
                others[label] = ec_key(curve, rng.randrange(1, n))
                for fmt, sg in (("der", der), ("raw", r0.to_bytes(cl, "big") + s0.to_bytes(cl, "big"))):
                    inp = (label, f"derlen={total}", fmt, {"private_value": d, "r": r0, "s": s0, "signature": sg.hex(), "hash": hname}, msg)
                    s.note(inp, cls=f"ecc/{curve}/constructed-{fmt}-len{'=raw' if total == 2 * cl else '!=raw'}")
                    check_ecc_sig(label, key, pub, sg, msg, hname, False, inp)
                # a certificate-style check through get_matching_key_id_from_signature (utils.py)
                r = pyres(sutils.get_matching_key_id_from_signature, [others[label].get_public_key(), pub], msg, der, HASHES[hname][0])
                s.expect(r == ("ok", 1), (label, f"derlen={total}", "get_matching_key_id_from_signature"), "the matching key is not found for a valid DER signature", r, 1)
    ck.extra["constructed_signatures"] = ncon
    marks.append(("sign_verify", time.time()))

    # ================================================================== 6. nxpcrypto command line (key convert / signature create / verify)
    s2 = ck.stream("nxpcrypto_cli", "one key per type (P-256, P-384, P-521, a P-521 key whose X needs all 66 bytes, RSA-2048; thorough: every key): key convert to "
                   "PEM / DER / RAW (private, --puk) -> load -> same key, RAW public = export(NXP); signature create x {NXP, DER | v1.5, PSS} x hash -> "
                   "cryptography directly + signature verify says 'IS matching', changed data 'IS NOT matching'; non-trivial = distinct command; cls = command")
    from click.testing import CliRunner
    from spsdk.apps import nxpcrypto
    runner = CliRunner()

    def cli(*args):
        r = runner.invoke(nxpcrypto.main, list(args))
        return r.exit_code, r.output
    big521 = next((kk for ll, kk in keys if isinstance(kk, PrivateKeyEcc) and kk.curve.value == "secp521r1" and kk.get_public_key().x >> 520), None)
    cli_keys = [(ll, kk) for ll, kk in keys if "/" not in ll or ll.endswith("gen") or not ck.quick] + ([("secp521r1/bigx", big521)] if big521 else [])
    for n_k, (label, k) in enumerate(cli_keys):
        pub = k.get_public_key()
        is_ecc = isinstance(k, PrivateKeyEcc)
        d = scratch / f"cli{n_k}"
        d.mkdir(exist_ok=True)
        prk, data_f = str(d / "prk.pem"), str(d / "data.bin")
        k.save(prk)
        msg = bytes(rng.getrandbits(8) for _ in range(rng.randrange(1, 200)))
        Path(data_f).write_bytes(msg)
        for enc, puk in (("PEM", False), ("DER", False), ("PEM", True), ("DER", True)) + ((("RAW", True),) if is_ecc else ()):
            out = str(d / f"out_{enc}_{int(puk)}.bin")
            inp = (label, "key convert", enc, "puk" if puk else "private") + (({"curve": k.curve.value, "private_value": k.d},) if is_ecc else ())
            s2.note(inp, cls=f"key convert {enc}{' --puk' if puk else ''}")
            rc = cli("key", "convert", "-e", enc, "-i", prk, "-o", out, *(["--puk"] if puk else []))
            if not s2.expect(rc[0] == 0 and os.path.exists(out), inp, "nxpcrypto key convert fails", rc):
                continue
            r = pyres((PublicKey if puk else PrivateKey).load, out)
            same = r[0] == "ok" and ((pubnum(r[1]) == pubnum(pub)) if puk else (privnum(r[1]) == privnum(k)))
            s2.expect(same, inp, "the converted key file does not load to the same key", r if r[0] != "ok" else "different key")
            if enc == "RAW":
                s2.expect(Path(out).read_bytes() == pub.export(SPSDKEncoding.NXP), inp, "RAW public key differs from PublicKeyEcc.export(NXP)", len(Path(out).read_bytes()))
        puk_f = str(d / "out_PEM_1.bin")
        variants = [("NXP", None), ("DER", "sha512")] if is_ecc else [("v15", None), ("pss", "sha384")]
        for var, alg in variants:
            sig_f = str(d / f"sig_{var}.bin")
            inp = (label, "signature", var, alg, msg)
            s2.note(inp, cls=f"signature create/verify {var}")
            args = ["signature", "create", "-k", prk, "-i", data_f, "-o", sig_f] + (["-a", alg] if alg else []) + (["-e", var] if is_ecc else []) + (["-pp"] if var == "pss" else [])
            rc = cli(*args)
            if not s2.expect(rc[0] == 0 and os.path.exists(sig_f), inp, "nxpcrypto signature create fails", rc):
                continue
            sig = Path(sig_f).read_bytes()
            hname = alg or (CURVES[k.curve.value]["hash"] if is_ecc else "sha256")
            hcls = HASHES[hname][1]
            if is_ecc:
                cl = CURVES[k.curve.value]["cl"]
                der = sig if var == "DER" else cutils.encode_dss_signature(int.from_bytes(sig[:cl], "big"), int.from_bytes(sig[cl:], "big"))
                s2.expect((len(sig) == 2 * cl) == (var == "NXP"), inp, "signature file is not in the requested encoding", len(sig))
                ok = crypto_verify_ec(pub.key, der, msg, hcls)
            else:
                pad = padding.PSS(mgf=padding.MGF1(hcls()), salt_length=padding.PSS.DIGEST_LENGTH) if var == "pss" else padding.PKCS1v15()
                try:
                    pub.key.verify(sig, msg, pad, hcls())
                    ok = True
                except InvalidSignature:
                    ok = False
            s2.expect(ok, inp, "cryptography (called directly) rejects the signature file nxpcrypto wrote")
            vargs = ["signature", "verify", "-k", puk_f, "-i", data_f, "-s", sig_f] + (["-a", alg] if alg else []) + (["-pp"] if var == "pss" else [])
            rc = cli(*vargs)
            s2.expect(rc[0] == 0 and "IS matching" in rc[1], inp, "nxpcrypto signature verify does not confirm the signature it created", rc)
            bad_f = str(d / "bad.bin")
            Path(bad_f).write_bytes(flip(msg, rng.randrange(8 * len(msg))))
            rc = cli(*[bad_f if a == data_f else a for a in vargs])
            s2.expect("IS NOT matching" in rc[1], inp + ("changed data",), "nxpcrypto signature verify accepts changed data", rc)
    ck.extra["negative_checks"] = nneg
    marks.append(("nxpcrypto_cli", time.time()))

    # ================================================================== 7. certificate layer + utils.py attempt logic
    s3 = ck.stream("cert_layer", "certificate chains of depth 1..4 over the run's keys (P-256/384/521, RSA-2048; RSA issuers sign v1.5 or PSS): correct order, "
                   "one swap, a foreign certificate inserted, a non-CA intermediate, every chain prefix of length 0..1: validate_certificate_chain / "
                   "validate / validate_subject / self_signed / ca / validate_ca_flag_in_cert_chain vs the model and vs cryptography called directly with "
                   "the certificate's own algorithm; Certificate.parse on DER / PEM / NXP-padded / DER + 1..5 zero bytes / non-zero trailer / truncated / "
                   "garbage vs the model; raw_size, public_key_hash; extract_public_key_from_data on certificate / private (+/- password, wrong "
                   "password, password on an unencrypted key) / public (PEM, DER, NXP) / garbage: attempt order vs the model with the three decoders "
                   "called directly; get_matching_key_id(_from_signature) with the match at every position; non-trivial = distinct input; cls = kind")
    from cryptography import x509 as cx509
    from spsdk.crypto.certificate import generate_extensions, validate_ca_flag_in_cert_chain, validate_certificate_chain
    reqs = []
    PSS_OID = cx509.oid.SignatureAlgorithmOID.RSASSA_PSS

    def direct_valid(subject, issuer):
        """signature of `subject` checked under `issuer`'s key by cryptography, with the algorithm the certificate names"""
        c, ipk = subject.cert, issuer.cert.public_key()
        try:
            if isinstance(ipk, rsa.RSAPublicKey):
                pad = (padding.PSS(mgf=padding.MGF1(c.signature_hash_algorithm), salt_length=padding.PSS.DIGEST_LENGTH)
                       if c.signature_algorithm_oid == PSS_OID else padding.PKCS1v15())
                ipk.verify(c.signature, c.tbs_certificate_bytes, pad, c.signature_hash_algorithm)
            else:
                ipk.verify(c.signature, c.tbs_certificate_bytes, ec.ECDSA(c.signature_hash_algorithm))
            return True
        except (InvalidSignature, ValueError, TypeError):
            return False

    def is_pss(cert):
        return cert.cert.signature_algorithm_oid == PSS_OID

    cert_desc = {}
    chain_keys = [(ll, kk) for ll, kk in keys if ("/" not in ll or ll.endswith("gen")) and (isinstance(kk, PrivateKeyEcc) or kk.key_size == 2048)]
    ncert = 0

    def mk_cert(subject_cn, issuer_cn, subject_key, issuer_key, ca, pss=None):
        nonlocal ncert
        ncert += 1
        ext = generate_extensions({"BASIC_CONSTRAINTS": {"ca": ca, "path_length": 3}}) if ca is not None else None
        crt = Certificate.generate_certificate(generate_name([{"COMMON_NAME": subject_cn}]), generate_name([{"COMMON_NAME": issuer_cn}]),
                                               subject_key.get_public_key(), issuer_key, 1000 + ncert, None, ext, pss)
        cert_desc[hex(1000 + ncert)] = (f"{subject_cn}: key {privnum(subject_key)[:60]} signed by key {privnum(issuer_key)[:60]} "
                                        f"{'RSASSA-PSS' if pss and isinstance(issuer_key, PrivateKeyRsa) else 'PKCS1v15' if isinstance(issuer_key, PrivateKeyRsa) else 'ECDSA'} ca={ca}")
        return crt

    def chain_check(chain, kind):
        """chain = [leaf, ..., root]"""
        n = len(chain)
        inp = (kind, [cert_desc.get(hex(c.cert.serial_number), hex(c.cert.serial_number)) for c in chain])
        s3.note(inp, cls=f"chain/{kind}/len{n}")
        real = pyres(validate_certificate_chain, list(chain))
        realc = "ok:" + "".join("1" if b else "0" for b in real[1]) if real[0] == "ok" else real[0]
        # model with the validity relation the real code implements (validate = verify with pss_padding=False)
        m_real = "".join("1" if pyres(chain[i].validate, chain[j]) == ("ok", True) else "0" for i in range(n) for j in range(n))
        reqs.append((("validate_chain",) + inp, f"validate_chain {n} {m_real or '-'}", realc))
        if n >= 2:
            want = "".join("1" if direct_valid(chain[i], chain[i + 1]) else "0" for i in range(n - 1))
            s3.expect(realc == "ok:" + want, inp, "validate_certificate_chain differs from checking every certificate under the next one's key with the "
                      "certificate's own signature algorithm", realc, want)
        else:
            s3.expect(real[0] == "E:spsdk", inp, "a chain of fewer than two certificates is not refused with an SPSDK error", real)
        if n >= 1:
            r = pyres(validate_ca_flag_in_cert_chain, list(chain))
            try:
                want_ca = chain[0].cert.extensions.get_extension_for_class(cx509.BasicConstraints).value.ca
            except cx509.ExtensionNotFound:
                want_ca = False
            s3.expect(r == ("ok", want_ca) and pyres(lambda: chain[0].ca) == ("ok", want_ca), inp, "ca flag differs from the BasicConstraints extension", r, want_ca)

    def der_declared_len(data):
        """total length declared by a leading SEQUENCE header, read independently of the model (None = no readable header)"""
        if len(data) < 2 or data[0] != 0x30:
            return None
        if data[1] < 0x80:
            return 2 + data[1]
        k = data[1] - 0x80
        if k == 0 or k > 4 or len(data) < 2 + k:
            return None
        return 2 + k + int.from_bytes(data[2:2 + k], "big")

    def loader_answers(data):
        """the loader's CONTENT answers, obtained directly: (P, verdict of cryptography on data[:P]) for P = the length the header declares
        (0 / fail when there is no such prefix), PEM loadable?"""
        L0 = der_declared_len(data)
        P, cls = 0, "fail"
        if L0 is not None and 0 < L0 <= len(data):
            P, cls = L0, real_load_class(data[:L0]).split(":")[0]
            if cls not in ("ok", "extra", "fail"):
                cls = "fail"
        return P, cls, pyres(cx509.load_pem_x509_certificate, data)[0] == "ok"

    def real_load_class(data):
        try:
            cx509.load_der_x509_certificate(data)
            return "ok:cert"
        except ValueError as exc:
            return "extra" if exc.args and "kind: ExtraData" in str(exc.args[0]) else "fail"
        except Exception as exc:  # noqa: BLE001 - anything else is reported as such
            return "other:" + type(exc).__name__

    leaf_ders = []

    def parse_cases(der, pem, nxp, tag, zero_end=False):
        """Certificate.parse on every variant of one certificate (`der` = its DER form) vs the model + the round-trip oracle"""
        hdr = der_declared_len(der) or 0
        hl = 2 + (der[1] - 0x80 if der[1] >= 0x80 else 0)
        variants = [("der", der), ("pem", pem), ("nxp", nxp[1] if nxp[0] == "ok" else der)] + [(f"zeros{k}", der + bytes(k)) for k in range(1, 6)] + [
            ("nonzero-trailer", der + b"\x01"), ("zeros-then-nonzero", der + b"\x00\x00\x07"), ("truncated", der[:-1]), ("truncated-half", der[:len(der) // 2]),
            ("garbage", bytes(rng.getrandbits(8) for _ in range(40))), ("empty", b""), ("pem-damaged", pem[:40] + b"!" + pem[41:]),
            ("der-bitflip", flip(der, rng.randrange(8 * len(der)))),
            # the declared length one more / one less than the data, a non-minimal length field, an indefinite length, another tag
            ("declared-longer", der[:hl - 1] + bytes([(der[hl - 1] + 1) & 0xFF]) + der[hl:]), ("declared-shorter+zero", der[:hl - 1] + bytes([(der[hl - 1] - 1) & 0xFF]) + der[hl:]),
            ("length-nonminimal", b"\x30" + bytes([der[1] + 1]) + b"\x00" + der[2:]), ("length-indefinite", b"\x30\x80" + der[hl:] + b"\x00\x00"),
            ("other-tag", b"\x31" + der[1:])]
        if zero_end:
            variants += [("zeros-stripped", der.rstrip(b"\x00")), ("zeros-stripped+pad", der.rstrip(b"\x00") + bytes(3))]
        for vname, data in variants:
            inp = ("Certificate.parse", vname, tag)
            s3.note(inp, cls="cert-parse/" + vname.rstrip("0123456789") + ("/ends-in-zero" if zero_end else ""))
            r = pyres(Certificate.parse, data)
            realc = "ok:cert" if r[0] == "ok" else r[0]
            P, pcls, pem_ok = loader_answers(data)
            reqs.append((inp + (data,), f"cert_parse {hexs(data)} {P} {pcls} {int(pem_ok)}", realc))
            if data:
                reqs.append((("load_der_x509_certificate", vname, tag, data), f"der_load {hexs(data)} {P} {pcls}", real_load_class(data)))
            if vname in ("der", "pem", "nxp") or vname.startswith("zeros") and vname[5:].isdigit():
                ok = r[0] == "ok" and r[1].cert.public_bytes(cser.Encoding.DER) == der
                s3.expect(ok, inp + (data,), "the certificate does not survive export -> parse", r)
            elif vname in ("nonzero-trailer", "zeros-then-nonzero", "truncated", "truncated-half", "garbage", "empty", "declared-longer", "length-nonminimal",
                           "length-indefinite", "other-tag", "zeros-stripped"):
                s3.expect(r[0] == "E:spsdk", inp + (data,), "damaged certificate data is not refused with an SPSDK error", r)

    for depth in range(1, 5):
        for rep in range(ck.budget(3, 12)):
            ks = [rng.choice(chain_keys) for _ in range(depth)]  # ks[0] = root ... ks[-1] = leaf
            pss_flags = [rng.random() < 0.35 if isinstance(k, PrivateKeyRsa) else None for _, k in ks]
            certs = []
            for i, (ll, kk) in enumerate(ks):
                issuer = ks[i - 1][1] if i else kk
                non_ca_mid = depth >= 3 and i == 1 and rep % 3 == 2
                ca = True if i < depth - 1 and not non_ca_mid else (None if i == depth - 1 and rep % 2 else False)
                pss = pss_flags[i - 1] if i else pss_flags[0]
                certs.append(mk_cert(f"c{depth}-{rep}-{i}", f"c{depth}-{rep}-{max(i - 1, 0)}", kk, issuer, ca, pss))
            chain = certs[::-1]
            chain_check(chain, "correct" if not (depth >= 3 and rep % 3 == 2) else "non-ca-intermediate")
            for c_i, crt in enumerate(chain):
                issuer = chain[c_i + 1] if c_i + 1 < len(chain) else crt
                want = direct_valid(crt, issuer)
                inp = ("validate", cert_desc.get(hex(crt.cert.serial_number)), "under", cert_desc.get(hex(issuer.cert.serial_number)))
                s3.note(inp, cls="validate" + ("/pss" if is_pss(crt) else ""))
                r1, r2 = pyres(crt.validate, issuer), pyres(issuer.validate_subject, crt)
                s3.expect(r1 == ("ok", want) and r2 == ("ok", want), inp, "validate / validate_subject differ from cryptography checking the signature with the "
                          "certificate's own algorithm", (r1, r2), want)
                if issuer is crt:
                    s3.expect(pyres(lambda: crt.self_signed) == ("ok", want), inp + ("self_signed",), "self_signed differs", None, want)
                # model: the verify call is made with the model's pss flag
                ipub = issuer.get_public_key()
                alg = "ecdsa" if isinstance(ipub, PublicKeyEcc) else ("rsa_pss" if is_pss(crt) else "rsa_v15")
                hname = crt.cert.signature_hash_algorithm.name
                if drv is not None:
                    ma = drv.ask(f"cert_call {alg}")
                    if ma in ("ok:true", "ok:false"):
                        pred = canon(pyres(ipub.verify_signature, crt.signature, crt.tbs_certificate_bytes, HASHES[hname][0], pss_padding=(ma == "ok:true")))
                    else:
                        pred = "malformed driver answer: " + str(ma)[:60]
                    s3.compare(("cert_call",) + inp, canon(r1), pred, "Certificate.validate differs from verify_signature with the model's parameters")
            if depth >= 2:
                i, j = rng.sample(range(depth), 2)
                sw = list(chain)
                sw[i], sw[j] = sw[j], sw[i]
                chain_check(sw, "swapped")
                foreign = mk_cert("foreign", "foreign", ks[0][1], other_key(ks[0][0], ks[0][1]), True)
                ins = list(chain)
                ins.insert(rng.randrange(1, depth + 1), foreign)
                chain_check(ins, "foreign-inserted")
            chain_check(chain[:1], "single")
            chain_check([], "empty") if rep == 0 else None
            # ---- Certificate.parse / export on the leaf
            crt = chain[0]
            der = crt.cert.public_bytes(cser.Encoding.DER)
            pem = crt.cert.public_bytes(cser.Encoding.PEM)
            nxp = pyres(crt.export, SPSDKEncoding.NXP)
            s3.note(("export", hex(crt.cert.serial_number)), cls="cert-export")
            reqs.append((("cert_export_nxp", der), "cert_export_nxp " + hexs(der), f"ok:{nxp[1].hex()},{crt.raw_size}" if nxp[0] == "ok" else nxp[0]))
            s3.expect(nxp[0] == "ok" and nxp[1][:len(der)] == der and len(nxp[1]) % 4 == 0 and len(nxp[1]) - len(der) < 4 and not any(nxp[1][len(der):])
                      and crt.raw_size == len(nxp[1]), ("export", hex(crt.cert.serial_number)), "NXP export is not the DER form zero-padded to a multiple of 4", nxp)
            pk = crt.get_public_key()
            s3.expect(crt.public_key_hash() == hashlib.sha256(pk.export()).digest() and pubnum(pk) == crypto_pub(crt.cert.public_key()),
                      ("pubkey", hex(crt.cert.serial_number)), "get_public_key / public_key_hash differ from the certificate's key")
            parse_cases(der, pem, nxp, hex(crt.cert.serial_number))
            leaf_ders.append((der, len(crt.cert.signature) >= 200))  # (DER form, signed by an RSA issuer?)
    # ---- DER forms that END IN ZERO bytes (the NXP padding must be removed by the declared length, not by "strip every trailing zero")
    zero_enders = []
    name0 = generate_name([{"COMMON_NAME": "ends-in-zero"}])
    rsa_k = next((kk for ll, kk in chain_keys if isinstance(kk, PrivateKeyRsa)), None)
    ecc_k = next((kk for ll, kk in chain_keys if isinstance(kk, PrivateKeyEcc)), None)
    if rsa_k is not None:  # PKCS#1 v1.5 is deterministic: walk the serial number until the signature (= the end of the DER form) ends in 0x00
        for serial in range(70000, 70000 + ck.budget(4000, 20000)):
            c0 = pyres(Certificate.generate_certificate, name0, name0, rsa_k.get_public_key(), rsa_k, serial, None, None, False)
            if c0[0] == "ok" and c0[1].cert.public_bytes(cser.Encoding.DER)[-1] == 0:
                zero_enders.append(("signed-rsa", c0[1].cert.public_bytes(cser.Encoding.DER), c0[1]))
                break
    if ecc_k is not None:  # ECDSA: fresh nonce per attempt, the DER form ends with the last byte of s
        for att in range(ck.budget(3000, 20000)):
            c0 = pyres(Certificate.generate_certificate, name0, name0, ecc_k.get_public_key(), ecc_k, 90000 + att)
            if c0[0] == "ok" and c0[1].cert.public_bytes(cser.Encoding.DER)[-1] == 0:
                zero_enders.append(("signed-ecc", c0[1].cert.public_bytes(cser.Encoding.DER), c0[1]))
                break
    seen_kind = set()
    for der0, is_rsa in leaf_ders:  # the last k bytes of the signature BIT STRING set to zero: still a well-formed certificate (parse does not verify)
        if is_rsa in seen_kind:
            continue
        seen_kind.add(is_rsa)
        for k in (1, 2, 3, 4, 7):
            dz = der0[:-k] + bytes(k)
            if pyres(cx509.load_der_x509_certificate, dz)[0] == "ok":
                zero_enders.append((f"patched-{'rsa' if is_rsa else 'ecc'}-{k}", dz, None))
    ck.extra["zero_ending_certificates"] = [z[0] for z in zero_enders]
    s3.expect(sum(1 for z in zero_enders if z[0].startswith("patched")) >= 3 and any(z[0].startswith("signed") for z in zero_enders), ("zero-ending certificates",),
              "the generator did not produce certificates whose DER form ends in 0x00 (coverage of the padding removal lost)", [z[0] for z in zero_enders])
    for zkind, dz, czero in zero_enders:
        cz = pyres(lambda: Certificate(cx509.load_der_x509_certificate(dz)))
        if cz[0] != "ok":
            s3.expect(False, ("zero-ender", zkind, dz), "cannot wrap a certificate cryptography loads", cz)
            continue
        nxpz = pyres(cz[1].export, SPSDKEncoding.NXP)
        s3.note(("export", zkind), cls="cert-export/ends-in-zero")
        reqs.append((("cert_export_nxp", dz), "cert_export_nxp " + hexs(dz), f"ok:{nxpz[1].hex()},{cz[1].raw_size}" if nxpz[0] == "ok" else nxpz[0]))
        s3.expect(nxpz[0] == "ok" and nxpz[1][:len(dz)] == dz and len(nxpz[1]) % 4 == 0 and len(nxpz[1]) - len(dz) < 4 and not any(nxpz[1][len(dz):]),
                  ("export", zkind, dz), "NXP export is not the DER form zero-padded to a multiple of 4", nxpz)
        parse_cases(dz, cz[1].cert.public_bytes(cser.Encoding.PEM), nxpz, zkind, zero_end=True)
        if czero is not None:  # a genuinely signed one also validates after the NXP round trip
            back = pyres(Certificate.parse, nxpz[1] if nxpz[0] == "ok" else dz)
            s3.expect(back[0] == "ok" and pyres(back[1].validate, back[1]) == ("ok", True), ("zero-ender", zkind, "validate", dz),
                      "a self-signed certificate whose DER form ends in 0x00 does not validate after export(NXP) -> parse", back)
    # ---- extract_public_key_from_data: attempt order
    def tri(fn):
        r = pyres(fn)
        return ("ok:" + pubnum(r[1]) + ("+ca" if getattr(r[1], "ca", False) else "")) if r[0] == "ok" else ("spsdk" if r[0] == "E:spsdk" else "other")

    def extract_case(data, password, kind):
        inp = ("extract_public_key_from_data", kind, password, data)
        s3.note(inp, cls="extract/" + kind)

        def via_cert():
            c = Certificate.parse(data)
            k = c.get_public_key()
            if c.ca:
                setattr(k, "ca", True)
            return k
        t1, t2, t3 = tri(via_cert), tri(lambda: PrivateKey.parse(data, password=password if password else None).get_public_key()), tri(lambda: PublicKey.parse(data))
        r = pyres(sutils.extract_public_key_from_data, data, password)
        realc = ("ok:" + pubnum(r[1]) + ("+ca" if getattr(r[1], "ca", False) else "")) if r[0] == "ok" else r[0]
        reqs.append((inp, f"first_accept {t1} {t2} {t3}", realc))
        return realc

    ex_keys = [(ll, kk) for ll, kk in keys if "/" not in ll or ll.endswith("gen")]
    for label, k in ex_keys:
        pub = k.get_public_key()
        want = "ok:" + pubnum(pub)
        for enc in ("pem", "der"):
            got = extract_case(k.export(None, ENC[enc]), None, f"private-{enc}")
            s3.expect(got == want, (label, "private", enc), "extract_public_key_from_data(private key) is not its public key", got, want)
            encd = k.export("pw", ENC[enc])
            s3.expect(extract_case(encd, "pw", f"private-{enc}-pw") == want, (label, "private-pw", enc), "extract_public_key_from_data(encrypted private key, password) fails")
            s3.expect(extract_case(encd, None, f"private-{enc}-nopw") == "E:spsdk", (label, "private-nopw", enc), "an encrypted private key without password is not refused with an SPSDK error")
            s3.expect(extract_case(encd, "bad", f"private-{enc}-badpw") == "E:spsdk", (label, "private-badpw", enc), "a wrong password is not refused with an SPSDK error")
            extract_case(k.export(None, ENC[enc]), "pw", f"private-{enc}-password-on-plain")  # correspondence only (TypeError escapes)
        for enc in ("pem", "der", "nxp"):
            got = extract_case(pub.export(ENC[enc]), None, f"public-{enc}")
            s3.expect(got == want, (label, "public", enc), "extract_public_key_from_data(public key) differs", got, want)
            extract_case(pub.export(ENC[enc]), "pw", f"public-{enc}-with-password")
        for ca in (True, False):
            crt = mk_cert("x", "x", k, k, ca)
            for enc in ("pem", "der", "nxp"):
                got = extract_case(crt.export(ENC[enc]), None, f"cert-{enc}")
                s3.expect(got == want + ("+ca" if ca else ""), (label, "cert", enc, ca), "extract_public_key_from_data(certificate) differs (key or ca mark)", got, want)
    for _ in range(ck.budget(10, 60)):
        extract_case(bytes(rng.getrandbits(8) for _ in range(rng.choice([0, 1, 31, 32, 64, 96, 100, 132, 259, 300]))), rng.choice([None, "pw"]), "garbage")
    # ---- get_matching_key_id / get_matching_key_id_from_signature: the match at every position, twice, nowhere
    pool = [kk for ll, kk in keys if isinstance(kk, PrivateKeyEcc)][:6]
    for label, k in ex_keys:
        fpath = scratch / f"mk{abs(hash(label)) % 10 ** 8}.pem"
        k.save(str(fpath))
        sp = PlainFileSP(str(fpath))
        pub = k.get_public_key()
        sig = k.sign(b"match me")
        for pos in list(range(0, 5)) + [None, "twice"]:
            lst = [o.get_public_key() for o in pool[:4] if o is not k]
            if pos == "twice":
                lst.insert(1, pub)
                lst.append(pub)
            elif pos is not None:
                lst.insert(min(pos, len(lst)), pub)
            bits = "".join("1" if pubnum(x) == pubnum(pub) else "0" for x in lst) or "-"
            inp = (label, "matching", bits)
            s3.note(inp, cls="matching-key-id")
            r1 = pyres(sutils.get_matching_key_id, lst, sp)
            r2 = pyres(sutils.get_matching_key_id_from_signature, lst, b"match me", sig)
            reqs.append((inp + ("sp",), f"matching_key {bits}", canon(r1)))
            reqs.append((inp + ("sig",), f"matching_key {bits}", canon(r2)))
            want = ("ok", bits.index("1")) if "1" in bits else ("E:spsdk",)
            s3.expect(r1 == want and r2 == want, inp, "the index of the first matching key is not returned (or no match is not an SPSDK error)", (r1, r2), want)
    corr(s3, reqs)
    marks.append(("cert_layer", time.time()))

    # ================================================================== 8. signature provider plumbing
    s4 = ck.stream("sigprovider_plumbing", "key files of every type (P-256/384/521, RSA 2048 + tests' 3072/4096): SignatureProvider.create / get_signature_provider "
                   "with pss_padding absent / True / False / 'True' / 'False' (dict, cfg string, kwargs, local_file_key), extra keywords, hash_alg: surviving "
                   "sign keywords and the padding actually used vs the model and vs the request; signature_length = len(get_signature) = model; "
                   "verify_public_key / try_to_verify_public_key (object, PEM, DER, NXP bytes; other key refused); get_hash_type_from_signature_size and "
                   "get_ecc_curve for every size 0..200; non-trivial = distinct input; cls = kind")
    from spsdk.crypto.keys import get_ecc_curve as key_len_curve
    from spsdk.crypto.signature_provider import InteractivePlainFileSP, get_signature_provider
    reqs = []
    sp_keys = [(ll, kk) for ll, kk in keys if "/" not in ll or ll.endswith("gen") or ll.startswith("rsa-file")]

    def pv(v):
        return ("b:1" if v else "b:0") if isinstance(v, bool) else "s:" + str(v)

    def vtb(v):
        """the documented meaning of a boolean option (utils.misc.value_to_bool): text is true iff "True" / "true" / "T" / "1" """
        return v in ("True", "true", "T", "1") if isinstance(v, str) else bool(v)

    for label, k in sp_keys:
        is_rsa = isinstance(k, PrivateKeyRsa)
        pub = k.get_public_key()
        fpath = str(scratch / f"sp{abs(hash(label)) % 10 ** 8}b.pem")
        k.save(fpath)
        msg = b"plumbing " + label.encode()

        def padding_used(sp):
            g = pyres(sp.get_signature, msg)
            if g[0] != "ok":
                return g, None
            if not is_rsa:
                return g, ("ecdsa" if pub.verify_signature(g[1], msg) else "??")
            return g, ("pss" if pub.verify_signature(g[1], msg, pss_padding=True) else "v15" if pub.verify_signature(g[1], msg) else "??")
        for pss in (None, True, False, "True", "False", "", "true", "1", "T", "no"):
            for extra in ({}, {"foo": "bar"}, {"search_paths": "x"}):
                params = {"type": "file", "file_path": fpath, **({"pss_padding": pss} if pss is not None else {}), **extra}
                inp = (label, "create", {kk2: repr(vv) for kk2, vv in params.items() if kk2 != "file_path"})
                s4.note(inp, cls="create" + ("/rsa" if is_rsa else "/ecc"))
                r = pyres(SignatureProvider.create, dict(params))
                if not s4.expect(r[0] == "ok" and isinstance(r[1], PlainFileSP), inp, "SignatureProvider.create fails for a file provider", r):
                    continue
                g, used = padding_used(r[1])
                kw = ",".join(f"{a}={pv(b)}" for a, b in r[1].sign_kwargs.items())
                line = "sp_create " + " ".join(f"{a}={pv(b)}" for a, b in params.items() if a != "file_path") + " file_path=s:f"
                reqs.append((inp, line, f"ok:{kw};{'true' if used == 'pss' else 'false'}" if is_rsa else f"ok:{kw};" + drv_false_or_model(drv, line)))
                s4.expect(used in ("pss", "v15", "ecdsa"), inp, "the provider's signature does not verify under the key's public key", g)
                if is_rsa:
                    want = "pss" if vtb(pss) else "v15"
                    s4.expect(used == want, inp, "a provider created with pss_padding=<true value> does not sign with PSS (or the reverse)", used, want)
        for pss in (None, True, False):
            kwargs = {} if pss is None else {"pss_padding": pss}
            for how in ("cfg+kwargs", "local_file_key"):
                inp = (label, how, repr(pss))
                s4.note(inp, cls=how + ("/rsa" if is_rsa else "/ecc"))
                if how == "cfg+kwargs":
                    r = pyres(get_signature_provider, sp_cfg=f"type=file;file_path={fpath}", **kwargs)
                    line = "sp_create type=s:file file_path=s:f " + " ".join(f"{a}={pv(b)}" for a, b in kwargs.items())
                else:
                    r = pyres(get_signature_provider, local_file_key=fpath, **kwargs)
                    line = "sp_local " + " ".join(f"{a}={pv(b)}" for a, b in kwargs.items())
                if not s4.expect(r[0] == "ok", inp, "get_signature_provider fails", r):
                    continue
                g, used = padding_used(r[1])
                if is_rsa:
                    if drv is not None:
                        m = str(drv.ask(line))
                        model_used = "pss" if m.startswith("ok:") and m.endswith("true") else "v15" if m.startswith("ok:") and m.endswith("false") else "malformed driver answer: " + m[:60]
                        s4.compare(inp, "pss" if used == "pss" else "v15", model_used, "padding used differs from the model of the parameter plumbing")
                    want = "pss" if vtb(pss) else "v15"
                    s4.expect(used == want, inp, "a provider created with pss_padding=<true value> does not sign with PSS (or the reverse)", used, want)
                # signature_length = actual length = model
                sl = pyres(lambda: r[1].signature_length)
                want_len = len(g[1]) if g[0] == "ok" else None
                mline = f"sig_len rsa {k.key_size}" if is_rsa else f"sig_len ecc {k.curve.value}"
                reqs.append((inp + ("signature_length",), mline, canon(sl)))
                s4.expect(sl == ("ok", want_len) and want_len == k.signature_size == pub.signature_size, inp, "signature_length differs from the length of the signature returned", sl, want_len)
        # verify_public_key / try_to_verify_public_key
        sp = PlainFileSP(fpath)
        o = other_key(label, k).get_public_key()
        s4.note((label, "verify_public_key"), cls="verify_public_key")
        s4.expect(pyres(sp.verify_public_key, pub) == ("ok", True) and pyres(sp.verify_public_key, o) == ("ok", False), (label, "verify_public_key"), "verify_public_key wrong")
        for enc in ("pem", "der", "nxp"):
            r1 = pyres(sp.try_to_verify_public_key, pub.export(ENC[enc]))
            r2 = pyres(sp.try_to_verify_public_key, o.export(ENC[enc]))
            s4.expect(r1 == ("ok", None) and r2[0] == "E:spsdk", (label, "try_to_verify_public_key", enc), "try_to_verify_public_key(bytes) accepts another key or refuses its own", (r1, r2))
        # interactive provider with an encrypted key and an explicit password
        ef = str(scratch / f"sp{abs(hash(label)) % 10 ** 8}e.pem")
        k.save(ef, "pw")
        r = pyres(lambda: InteractivePlainFileSP(ef, password="pw").get_signature(msg))
        s4.expect(r[0] == "ok" and pub.verify_signature(r[1], msg), (label, "interactive+password"), "provider over an encrypted key file does not sign", r)
    for n0 in range(0, 201):
        s4.note(("sizes", n0), nontrivial=False, cls="size-tables")
        reqs.append((("hash_from_sig_size", n0), f"hash_from_sig_size {n0}", canon(pyres(lambda: sutils.get_hash_type_from_signature_size(n0).label.lower()))))
        reqs.append((("key_len_curve", n0), f"key_len_curve {n0}", canon(pyres(lambda: key_len_curve(n0).value))))
    corr(s4, reqs)
    marks.append(("sigprovider_plumbing", time.time()))

    # ================================================================== 9. raw key files of the CLI
    s5 = ck.stream("cli_raw_keys", "nxpcrypto key convert -e RAW of private and public ECC keys (every curve; d with leading zero / marker bytes) -> key convert -e PEM "
                   "from the raw file -> same key; reconstruct_key on raw scalars, raw points, PEM/DER keys and random blobs of every length 0..140 vs the "
                   "model (PrivateKey.parse / PublicKey.parse called directly as the first two attempts); non-trivial = distinct input; cls = kind")
    from spsdk.apps.nxpcrypto import reconstruct_key as rk
    reqs = []

    def anykey(r):
        if r[0] != "ok":
            return "spsdk" if r[0] == "E:spsdk" else "other"
        k0 = r[1]
        return "ok:" + (f"priv:{k0.curve.value}:{k0.d}" if isinstance(k0, PrivateKeyEcc) else f"pub:{k0.curve.value}:{k0.x}:{k0.y}" if isinstance(k0, PublicKeyEcc)
                        else "rsa-private" if isinstance(k0, PrivateKeyRsa) else "rsa-public:" + pubnum(k0))

    def rk_case(data, kind):
        s5.note((kind, data), cls="reconstruct/" + kind)
        t1, t2 = anykey(pyres(PrivateKey.parse, data)), anykey(pyres(PublicKey.parse, data))
        L = len(data)
        cv = {True: None}.get(False)
        pk_ok, oc_ok = "0", "0"
        cname = pyres(lambda: key_len_curve(L).value)
        if cname[0] == "ok":
            cobj = KeyEccCommon._get_ec_curve_object(EccCurve(cname[1]))
            if L <= 48 or L == 66:
                pk_ok = "1" if pyres(ec.derive_private_key, int.from_bytes(data, "big"), cobj)[0] == "ok" else "0"
            elif L in (64, 96):
                x, y = int.from_bytes(data[:L // 2], "big"), int.from_bytes(data[L // 2:], "big")
                oc_ok = "1" if pyres(lambda: ec.EllipticCurvePublicNumbers(x, y, cobj).public_key())[0] == "ok" else "0"
        real = anykey(pyres(rk, data))
        real = real if real.startswith("ok:") else ("E:spsdk" if real == "spsdk" else "E:other")
        reqs.append(((kind, data), f"reconstruct_key {t1} {t2} {hexs(data)} {pk_ok} {oc_ok}", real))
        return real

    for n_k, (label, k) in enumerate([(ll, kk) for ll, kk in keys if isinstance(kk, PrivateKeyEcc) and ("/" not in ll or ll.endswith(("lzx", "d=1", "d=n-1")) or not ck.quick)]):
        curve, cl = k.curve.value, CURVES[k.curve.value]["cl"]
        d0 = scratch / f"raw{n_k}"
        d0.mkdir(exist_ok=True)
        prk, rawf, backf, praw, pback = (str(d0 / n0) for n0 in ("prk.pem", "d.bin", "back.pem", "p.bin", "pback.pem"))
        k.save(prk)
        inp = (label, "RAW private", {"curve": curve, "private_value": k.d})
        s5.note(inp, cls=f"cli-raw-private/{curve}")
        rc = cli("key", "convert", "-e", "RAW", "-i", prk, "-o", rawf)
        if s5.expect(rc[0] == 0 and os.path.exists(rawf), inp, "nxpcrypto key convert -e RAW (private) fails", rc):
            raw = Path(rawf).read_bytes()
            s5.expect(raw == k.d.to_bytes(cl, "big"), inp, "raw private key file is not d on coordinate-size bytes", raw.hex())
            rc2 = cli("key", "convert", "-e", "PEM", "-i", rawf, "-o", backf)
            back = pyres(PrivateKey.load, backf) if rc2[0] == 0 and os.path.exists(backf) else ("cli-exit", rc2[0])
            s5.expect(back[0] == "ok" and privnum(back[1]) == privnum(k), inp, "the raw private key written by the CLI is not read back by the CLI to the same key",
                      back if back[0] != "ok" else "different key")
            got = rk_case(raw, "raw-private")
            s5.expect(got == f"ok:priv:{curve}:{k.d}", inp + ("reconstruct_key",), "reconstruct_key does not recover the raw private scalar", got)
        inp = (label, "RAW public", {"curve": curve, "private_value": k.d})
        s5.note(inp, cls=f"cli-raw-public/{curve}")
        rc = cli("key", "convert", "-e", "RAW", "--puk", "-i", prk, "-o", praw)
        if s5.expect(rc[0] == 0 and os.path.exists(praw), inp, "nxpcrypto key convert -e RAW --puk fails", rc):
            rc2 = cli("key", "convert", "-e", "PEM", "-i", praw, "-o", pback)
            back = pyres(PublicKey.load, pback) if rc2[0] == 0 and os.path.exists(pback) else ("cli-exit", rc2[0])
            s5.expect(back[0] == "ok" and pubnum(back[1]) == pubnum(k.get_public_key()), inp, "the raw public key written by the CLI is not read back by the CLI", back)
            rk_case(Path(praw).read_bytes(), "raw-public")
        rk_case(k.export(None, SPSDKEncoding.PEM), "pem-private")
        rk_case(k.get_public_key().export(SPSDKEncoding.DER), "der-public")
    for L in range(0, 141):
        for _ in range(ck.budget(1, 4)):
            rk_case(bytes(rng.getrandbits(8) for _ in range(L)), "blob")
    for width, cvn in ((32, "secp256r1"), (48, "secp384r1"), (66, "secp521r1"), (20, "secp256r1"), (40, "secp384r1")):
        nn = CURVES[cvn]["n"]
        for dv in (0, 1, nn - 1, nn, nn + 1, 2 ** (8 * width) - 1):
            if dv < 2 ** (8 * width):
                rk_case(dv.to_bytes(width, "big"), "scalar-boundary")
    corr(s5, reqs)
    marks.append(("cli_raw_keys", time.time()))

    # correspondence for verify_signature: SPSDK's answer = "the backend accepts one of the model's candidate encodings"
    def model_verdict(ans, pobj, data, hcls, prehashed=False):
        cands = parse_cands(ans)
        if cands is None:
            return "malformed driver answer: " + str(ans)[:60]
        return canon(("ok", any(crypto_verify_ec(pobj, c, data, hcls, prehashed) for c in cands)))
    if drv is not None and vreqs:
        answers = drv.batch([f"verify_cands {curve} {hexs(sig)}" for (_i, curve, sig, *_r) in vreqs])
        for (inp, curve, sig, pobj, data, hcls, prehashed, real), ans in zip(vreqs, answers):
            s.compare(("verify",) + tuple(inp), canon(real), model_verdict(ans, pobj, data, hcls, prehashed),
                      "verify_signature differs from 'backend accepts one of the model's candidate encodings'")
    # damaged inputs: raw-length garbage, DER of raw length, wrong lengths (oracle independent of the driver; model compared when available)
    label, k = keys[0]
    pub = k.get_public_key()
    cl = CURVES[k.curve.value]["cl"]
    good = k.sign(b"m")
    junk = [good[:-1], good + b"\x00", bytes(2 * cl), b"\x30" * (2 * cl), b"", good[::-1], cutils.encode_dss_signature(1, 1)]
    answers = drv.batch([f"verify_cands {k.curve.value} {hexs(j)}" for j in junk]) if drv is not None else [None] * len(junk)
    for j, ans in zip(junk, answers):
        real = pyres(pub.verify_signature, j, b"m")
        s.note(("verify-junk", j), nontrivial=False, cls="junk")
        if drv is not None:
            s.compare(("verify-junk", j), canon(real), model_verdict(ans, pub.key, b"m", chashes.SHA256))
        s.expect(real == ("ok", False), ("verify-junk", j), "a damaged signature verifies or raises", real, False)
    marks.append(("verify_correspondence", time.time()))
    ck.extra["timing_s"] = {marks[i][0]: round(marks[i][1] - marks[i - 1][1], 2) for i in range(1, len(marks))}


def replay(ck, data):
    """Re-run the sweep with the recorded seed and tier (all generators are driven by the seeded generator)."""
    if isinstance(data, dict) and "seed" in data:
        ck.seed = data["seed"]
        ck.rng = random.Random(f"{ck.prop}/{ck.seed}")
        if data.get("tier") in ("quick", "thorough"):
            ck.tier = data["tier"]
    run(ck)
