"""C19 - BD command files mean what they say (spsdk/sbfile/sb2/sly_bd_parser.py, sly_bd_lexer.py, sb_21_helper.py,
images.py: parse_sb21_config / load_from_config).

Obligations   : Properties/C19.lean over Generated/BdGrammar.lean (precedence tuple, operator texts, productions and the
                bodies of the expr / bool_expr / unary_expr / LNOT / DEFINED / range / erase rules re-translated from the
                current source), the reference parser + printer, the evaluator and the statement elaboration.
Correspondence: `BDParser().parse(text, extern)` and `BootImageV21.load_from_config(parse_sb21_config(file))` vs the native
                model driver (lexer model + reference parser + generated rule actions + statement model).  That sly's
                LALR(1) tables realise the precedence declaration the way the reference parser does is exactly what these
                streams test (third party, not proved).
Oracle        : an independent Python evaluator of the abstract syntax (ordinary integer arithmetic) and an independent
                "one command per supported statement" reference; both are also compared with the Lean Spec (compiled
                into the driver), so the executable oracle and the Spec of the theorems are tied on every case.
Independence  : every generated input, every expected value and every known-finding predicate is computed on the harness
                side from the input alone (reference printer / lexer / parser for the documented grammar, `ref_eval`,
                `stmt_ref`).  Driver answers only feed `compare`; with no driver, or a driver answering nonsense, the same
                inputs and oracles run and the result is at worst a broken correspondence (VERIF_FAULT self-tests).
                The one Lean-side reference an oracle uses is `rom21` of drv_c04 (boot-ROM decoder, declared in spec_ops).
"""
from __future__ import annotations

import itertools
import logging
import os
import signal
import sys
from pathlib import Path

from vcore import pyres

if hasattr(sys, "set_int_max_str_digits"):
    sys.set_int_max_str_digits(0)

BINOPS = ["+", "-", "*", "/", "%", "<<", ">>", "&", "|", "^"]
CMPOPS = ["<", "<=", ">", ">=", "==", "!=", "&&", "||"]
SIZES = {"b": 8, "h": 16, "w": 32}
OPERANDS = [0, 1, 2, 3, 7, 0xFFFF]
HUGE_SHIFT = 1 << 18
HEXCH = "0123456789abcdefABCDEF"
TESTDATA = "tests/nxpimage/data/sb_sources/"


class Hang(Exception):
    """the implementation did not return within the time limit"""


class time_limit:
    """SIGALRM guard around calls into the implementation: a hang must become a reported failure, not a stuck check"""

    def __init__(self, seconds=20):
        self.seconds = seconds

    def __enter__(self):
        def handler(_sig, _frm):
            raise Hang()
        self.old = signal.signal(signal.SIGALRM, handler)
        signal.alarm(self.seconds)

    def __exit__(self, *exc):
        signal.alarm(0)
        signal.signal(signal.SIGALRM, self.old)
        return False


class RefErr(Exception):
    """the reference semantics gives no value (division by zero, negative shift, undefined identifier in an operation)"""


class StrOp(RefErr):
    """an operation on a str operand (undefined identifier / string option): outside the modelled domain"""


class Huge(Exception):
    """shift count beyond what is evaluated (MemoryError/OverflowError territory): case is skipped"""


def hx(s) -> str:
    b = s.encode() if isinstance(s, str) else bytes(s)
    return b.hex() if b else "-"


# ---------------------------------------------------------------------------------------------- abstract syntax
# Expr : ("L", n) ("V", name) ("B", op, l, r) ("N", e) ("P", e) ("Z", size, e)
# BExpr: ("A", e) ("C", op, l, r) ("!", b) ("D", name)
def wire(a) -> list:
    k = a[0]
    if k == "L":
        return ["L", str(a[1])]
    if k in ("V", "D"):
        return [k, a[1]]
    if k in ("B", "C"):
        return [k, a[1]] + wire(a[2]) + wire(a[3])
    if k in ("N", "P", "!", "A"):
        return [k] + wire(a[1])
    if k == "Z":
        return ["Z", a[1]] + wire(a[2])
    raise ValueError(k)


def ref_eval(a, env):
    """Independent reference: ordinary integer arithmetic on the abstract syntax (Python ints).
    env: dict name -> int | str (str = a string option / an undefined identifier handed on)."""
    k = a[0]
    if k == "L":
        return a[1]
    if k == "V":
        return env.get(a[1], ("sym", a[1]))
    if k == "A":
        return ref_eval(a[1], env)
    if k == "D":
        return 1 if a[1] in env else 0

    def need(v):
        if not isinstance(v, int):
            raise StrOp("operation on a non-integer")
        return v
    if k == "B":
        x = ref_eval(a[2], env)
        y = ref_eval(a[3], env)
        x, y, op = need(x), need(y), a[1]
        if op == "+":
            return x + y
        if op == "-":
            return x - y
        if op == "*":
            if x.bit_length() + y.bit_length() > (1 << 22):
                raise Huge()
            return x * y
        if op in ("/", "%"):
            if y == 0:
                raise RefErr("division by zero")
            q = x // y  # floor; see design note (open question: truncation for negative operands)
            return q if op == "/" else x - q * y
        if op in ("<<", ">>"):
            if y < 0:
                raise RefErr("negative shift count")
            if y > HUGE_SHIFT:
                raise Huge()
            return x * (1 << y) if op == "<<" else x // (1 << y)
        if op == "&":
            return x & y
        if op == "|":
            return x | y
        if op == "^":
            return x ^ y
    if k == "N":
        return -need(ref_eval(a[1], env))
    if k == "P":
        return need(ref_eval(a[1], env))
    if k == "Z":
        return need(ref_eval(a[2], env)) % (1 << SIZES[a[1]])
    if k == "C":
        x = ref_eval(a[2], env)
        y = ref_eval(a[3], env)
        x, y, op = need(x), need(y), a[1]
        if op == "&&":
            return y if x != 0 else x
        if op == "||":
            return x if x != 0 else y
        return int({"<": x < y, "<=": x <= y, ">": x > y, ">=": x >= y, "==": x == y, "!=": x != y}[op])
    if k == "!":
        return int(need(ref_eval(a[1], env)) == 0)
    raise ValueError(k)


def str_bound_ok(a, env, cap=1 << 18):
    """conservative screen for expressions on str operands: False when a str repetition could exceed `cap` characters
    (Python would need gigabytes; neither the implementation nor the model is run on such a case)"""
    def go(x):
        k = x[0]
        if k == "L":
            return ("i", x[1])
        if k == "V":
            v = env.get(x[1])
            return ("i", abs(v)) if isinstance(v, int) else ("s", len(v) if isinstance(v, str) else len(x[1]))
        if k == "A":
            return go(x[1])
        if k == "D":
            return ("i", 1)
        if k in ("N", "P", "!"):
            r = go(x[1])
            return r if k != "!" else ("i", 1)
        if k == "Z":
            return ("i", 1 << 32)
        l, r = go(x[2]), go(x[3])
        op = x[1]
        if k == "C":
            if op in ("&&", "||"):
                return l if l[1] >= r[1] or l[0] == "s" else r
            return ("i", 1)
        if l[0] == "s" or r[0] == "s":
            if op == "*":
                n = l[1] * r[1]
                if n > cap:
                    raise Huge()
                return ("s", n)
            return ("s", l[1] + r[1])
        if op in ("<<",):
            if r[1] > 64:
                return ("i", 1 << 70)
            return ("i", l[1] << r[1])
        if op == "*":
            return ("i", l[1] * r[1])
        return ("i", max(l[1], r[1]) * 2 + 1)
    try:
        go(a)
        return True
    except Huge:
        return False


def ref_canon(a, env):
    try:
        v = ref_eval(a, env)
    except RefErr:
        return "E"
    return val_canon(v)


M61 = (1 << 61) - 1


def int_canon(v):
    """ints beyond 256 bits: bit length, residue mod 2^61-1, low 64 bits (same form as the driver prints)"""
    v = int(v)
    a = abs(v)
    if a < (1 << 256):
        return "i%d" % v
    return "I%s%d:%d:%d" % ("-" if v < 0 else "+", a.bit_length(), a % M61, a & ((1 << 64) - 1))


def val_canon(v):
    if isinstance(v, tuple):
        return "s" + hx(v[1])
    if isinstance(v, str):
        return "s" + hx(v)
    return int_canon(v)


def unwire(ts):
    """prefix form (driver answer of the parse-only request) -> syntax tree"""
    def rd(i):
        k = ts[i]
        if k == "L":
            return ("L", int(ts[i + 1])), i + 2
        if k in ("V", "D"):
            return (k, ts[i + 1]), i + 2
        if k in ("B", "C"):
            l, j = rd(i + 2)
            r, j = rd(j)
            return (k, ts[i + 1], l, r), j
        if k in ("N", "P", "!", "A"):
            e, j = rd(i + 1)
            return (k, e), j
        if k == "Z":
            e, j = rd(i + 2)
            return ("Z", ts[i + 1], e), j
        raise ValueError(k)
    a, j = rd(0)
    if j != len(ts):
        raise ValueError("trailing")
    return a


# ---------------------------------------------------------------------------------------------- reference concrete syntax
# Harness-side printer, lexer and precedence-climbing parser for the DOCUMENTED language (elf2sb.md grammar, C precedence, the token
# spellings of the BD language).  Nothing here comes from the driver or from /repo: every input text the streams generate and every
# expected value of an oracle is computed with these functions and `ref_eval` alone.  The Lean printer / lexer / reference parser are
# compared with them (`s.compare`), so the two stay tied, but an unusable or wrong model can only ever produce disagreements.
LEVEL_BIN = {"|": 3, "^": 4, "&": 5, "<<": 8, ">>": 8, "+": 9, "-": 9, "*": 10, "/": 10, "%": 10}
LEVEL_CMP = {"||": 1, "&&": 2, "==": 6, "!=": 6, "<": 7, "<=": 7, ">": 7, ">=": 7}
LEVEL_NEG = LEVEL_POS = 9          # yacc: a rule has the precedence of its last terminal (`MINUS expr` -> the additive level)
# operator / punctuation tokens of the language in matching priority (longer spellings of a shared prefix first)
SIMPLE_TOKENS = [("PLUS", "+"), ("MINUS", "-"), ("TIMES", "*"), ("DIVIDE", "/"), ("MOD", "%"), ("NOT", "~"), ("XOR", "^"), ("LSHIFT", "<<"),
                 ("RSHIFT", ">>"), ("LOR", "||"), ("OR", "|"), ("LAND", "&&"), ("AND", "&"), ("LE", "<="), ("LT", "<"), ("GE", ">="), ("GT", ">"),
                 ("EQ", "=="), ("NE", "!="), ("LNOT", "!"), ("RANGE", ".."), ("ASSIGN", "="), ("LPAREN", "("), ("RPAREN", ")"), ("LBRACE", "{"),
                 ("RBRACE", "}"), ("COMMA", ","), ("PERIOD", "."), ("SEMI", ";"), ("COLON", ":"), ("QUESTIONMARK", "?"), ("DOLLAR", "$")]
KEYWORDS = ["call", "constants", "extern", "erase", "false", "filters", "from", "jump", "load", "mode", "else", "info", "error", "enable",
            "keywrap", "keystore_to_nv", "keystore_from_nv", "all", "no", "options", "raw", "section", "sources", "switch", "true", "yes", "if",
            "defined", "warning", "sizeof", "unsecure", "jump_sp", "keyblob", "reset", "encrypt", "version_check", "sec", "nsec"]


def _paren(ts):
    return ["("] + ts + [")"]


def py_tokens(a, m=0):
    """syntax tree -> token list with minimal parentheses (same token notation as the driver: n<dec> i<name> o<op> c<op> ! D ( ) . z<letter>)"""
    k = a[0]
    if k == "L":
        if a[1] < 0:
            raise ValueError("negative literal")
        return ["n%d" % a[1]]
    if k == "V":
        return ["i" + a[1]]
    if k == "B":
        lv = LEVEL_BIN[a[1]]
        body = py_tokens(a[2], lv) + ["o" + a[1]] + py_tokens(a[3], lv + 1)
        return body if m <= lv else _paren(body)
    if k in ("N", "P"):
        lv = LEVEL_NEG if k == "N" else LEVEL_POS
        body = ["o-" if k == "N" else "o+"] + py_tokens(a[1], lv + 1)
        return body if m <= lv else _paren(body)
    if k == "Z":
        body = py_tokens(a[2], 0) + [".", "z" + a[1]]
        return body if m == 0 else _paren(body)
    if k == "A":
        return py_tokens(a[1], 0)
    if k == "C":
        lv = LEVEL_CMP[a[1]]
        body = py_tokens(a[2], lv) + ["c" + a[1]] + py_tokens(a[3], lv + 1)
        return body if m <= lv else _paren(body)
    if k == "!":
        inner = py_tokens(a[1], 0)
        return ["!"] + (_paren(inner) if a[1][0] == "C" else inner)
    if k == "D":
        return ["D", "(", "i" + a[1], ")"]
    raise ValueError(k)


def py_canonical(toks):
    """canonical text of a token list (the text of theorems lex_print / parse_print_text / eval_text): every token followed by one blank,
    decimal numbers, an int-size suffix attached directly to the token before it; None when the list has no concrete syntax (a suffix
    after a token that does not end in a hexadecimal digit, an identifier that is a keyword)"""
    def text(t):
        k = t[0]
        if k in "nioc":
            return t[1:]
        return {"!": "!", "D": "defined", "(": "(", ")": ")"}.get(t)

    def ident_ok(t):
        w = t[1:]
        return bool(w) and _is_id_start(w[0]) and all(_is_id_char(c) for c in w) and w not in KEYWORDS
    out, i = [], 0
    while i < len(toks):
        t = toks[i]
        if i + 2 < len(toks) and toks[i + 1] == "." and toks[i + 2][0] == "z":
            if not (t[0] == "n" or (t[0] == "i" and ident_ok(t) and _is_hex(t[-1]))):
                return None
            out.append(text(t) + "." + toks[i + 2][1:] + " ")
            i += 3
            continue
        if text(t) is None or (t[0] == "i" and not ident_ok(t)):
            return None
        out.append(text(t) + " ")
        i += 1
    return "".join(out)


class LexValue(Exception):
    """a token rule raises (e.g. the decimal literal `08`, the empty character literal)"""


def _is_id_start(c):
    return c == "_" or ("a" <= c <= "z") or ("A" <= c <= "Z")


def _is_id_char(c):
    return _is_id_start(c) or ("0" <= c <= "9")


def _is_digit(c):
    return "0" <= c <= "9"


def _is_hex(c):
    return _is_digit(c) or ("a" <= c <= "f") or ("A" <= c <= "F")


def _lex_number(t, i):
    """INT_LITERAL `\b([0-9]+[K]?|0[xX][0-9a-fA-F]+)\b` at position i (a digit): (value | LexValue, end) or None"""
    j = i
    while j < len(t) and _is_digit(t[j]):
        j += 1
    ds = t[i:j]
    r2, is_k = j, False
    if j < len(t) and t[j] == "K" and not (j + 1 < len(t) and _is_id_char(t[j + 1])):
        r2, is_k = j + 1, True
    if not (r2 < len(t) and _is_id_char(t[r2])):
        if len(ds) > 1 and ds[0] == "0" and any(c != "0" for c in ds):
            return LexValue, r2
        v = int(ds)
        return (v * 1024 if is_k else v), r2
    if t[i] == "0" and i + 1 < len(t) and t[i + 1] in "xX":
        j = i + 2
        while j < len(t) and _is_hex(t[j]):
            j += 1
        if j == i + 2 or (j < len(t) and _is_id_char(t[j])):
            return None
        return int(t[i + 2:j], 16), j
    return None


def py_lex(t, sources=()):
    """text of an expression -> tokens (driver notation); raises LexValue where a token rule raises"""
    out, i, n = [], 0, len(t)
    while i < n:
        c = t[i]
        p1 = t[i - 1] if i >= 1 else None
        p2 = t[i - 2] if i >= 2 else None
        if c in " \t\n":
            i += 1
        elif c == "#" or t.startswith("//", i):
            j = t.find("\n", i)
            i = n if j < 0 else j
        elif t.startswith("/*", i) and t.find("*/", i + 2) >= 0:
            i = t.find("*/", i + 2) + 2
        elif c in "whb" and p1 == "." and p2 is not None and _is_hex(p2):
            out.append("z" + c)
            i += 1
        elif _is_id_start(c):
            j = i
            while j < n and _is_id_char(t[j]):
                j += 1
            w = t[i:j]
            if w in ("true", "yes"):
                out.append("n1")
            elif w in ("false", "no"):
                out.append("n0")
            elif w == "defined":
                out.append("D")
            elif w in KEYWORDS:
                out.append("k" + w.upper())
            elif w in sources:
                out.append("S" + w)
            else:
                out.append("i" + w)
            i = j
        elif _is_digit(c):
            if p1 is not None and _is_id_char(p1):
                out.append("xERROR")
                i += 1
                continue
            r = _lex_number(t, i)
            if r is None:
                out.append("xERROR")
                i += 1
            elif r[0] is LexValue:
                raise LexValue()
            else:
                out.append("n%d" % r[0])
                i = r[1]
        elif c == "'":
            eol = t.find("\n", i + 1)
            j = t.find("'", i + 1, n if eol < 0 else eol)
            if j < 0:
                out.append("xERROR")
                i += 1
            elif j == i + 1:
                raise LexValue()
            else:
                out.append("n%d" % int.from_bytes(t[i + 1:j].encode(), "big"))
                i = j + 1
        elif c == "$" and i + 1 < n and (_is_id_char(t[i + 1]) or t[i + 1] in ".*?-^[]"):
            j = i + 1
            while j < n and (_is_id_char(t[j]) or t[j] in ".*?-^[]"):
                j += 1
            out.append("s" + hx(t[i:j]))
            i = j
        elif t.startswith("{{", i) and _blob_end(t, i) is not None:
            j, digits = _blob_end(t, i)
            out.append("b" + digits)
            i = j
        elif c == '"':
            eol = t.find("\n", i + 1)
            j = t.find('"', i + 1, n if eol < 0 else eol)
            if j < 0:
                out.append("xERROR")
                i += 1
            else:
                out.append("q" + hx(t[i + 1:j]))
                i = j + 1
        else:
            for name, lit in SIMPLE_TOKENS:
                if t.startswith(lit, i):
                    if name in ("PLUS", "MINUS", "TIMES", "DIVIDE", "MOD", "LSHIFT", "RSHIFT", "AND", "OR", "XOR"):
                        out.append("o" + lit)
                    elif name in ("LT", "LE", "GT", "GE", "EQ", "NE", "LAND", "LOR"):
                        out.append("c" + lit)
                    elif name == "LNOT":
                        out.append("!")
                    elif name in ("LPAREN", "RPAREN", "PERIOD"):
                        out.append(lit)
                    else:
                        out.append("x" + name)
                    i += len(lit)
                    break
            else:
                out.append("x@" if c == "@" else "xERROR")
                i += 1
    return out


def _blob_end(t, i):
    """BINARY_BLOB `{{` (two hex digits | blank)+ `}}` at i: (end, digits) or None"""
    j, digits, items = i + 2, [], 0
    while True:
        if t.startswith(" ", j):
            j += 1
        elif j + 1 < len(t) and _is_hex(t[j]) and _is_hex(t[j + 1]):
            digits.append(t[j:j + 2])
            j += 2
        else:
            break
        items += 1
    if items and t.startswith("}}", j):
        return j + 2, "".join(digits)
    return None


class _P:
    """precedence climbing over a token list (documented levels); a method returns None where the text is not in the language"""

    def __init__(self, ts):
        self.ts = ts

    def primary(self, i):
        ts = self.ts
        if i >= len(ts):
            return None
        t = ts[i]
        if t[0] == "n":
            return ("L", int(t[1:])), i + 1
        if t[0] == "i":
            return ("V", t[1:]), i + 1
        if t == "(":
            r = self.expr(i + 1, 0)
            if r is None or r[1] >= len(ts) or ts[r[1]] != ")":
                return None
            return r[0], r[1] + 1
        if t in ("o-", "o+"):
            r = self.expr(i + 1, (LEVEL_NEG if t == "o-" else LEVEL_POS) + 1)
            if r is None:
                return None
            return ("N" if t == "o-" else "P", r[0]), r[1]
        return None

    def expr(self, i, m):
        r = self.primary(i)
        if r is None:
            return None
        return self.loop(r[1], m, r[0])

    def loop(self, i, m, l):
        ts = self.ts
        while True:
            if i < len(ts) and ts[i][0] == "o":
                op = ts[i][1:]
                lv = LEVEL_BIN[op]
                if m <= lv:
                    r = self.expr(i + 1, lv + 1)
                    if r is None:
                        return None
                    l, i = ("B", op, l, r[0]), r[1]
                    continue
                return l, i
            if i + 1 < len(ts) and ts[i] == "." and ts[i + 1][0] == "z":
                if m == 0:
                    l, i = ("Z", ts[i + 1][1:], l), i + 2
                    continue
                return l, i
            return l, i

    def primary_b(self, i):
        ts = self.ts
        if i >= len(ts):
            return None
        t = ts[i]
        if t == "!":
            r = self.primary_b(i + 1)
            return None if r is None else (("!", r[0]), r[1])
        if t == "D":
            if i + 3 < len(ts) + 0 and ts[i + 1] == "(" and ts[i + 2][0] == "i" and ts[i + 3] == ")":
                return ("D", ts[i + 2][1:]), i + 4
            return None
        if t == "(":
            r = self.bexpr(i + 1, 0)
            if r is None or r[1] >= len(ts) or ts[r[1]] != ")":
                return None
            b, j = r[0], r[1] + 1
            if b[0] == "A":
                r2 = self.loop(j, 0, b[1])
                return None if r2 is None else (("A", r2[0]), r2[1])
            return b, j
        r = self.expr(i, 0)
        return None if r is None else (("A", r[0]), r[1])

    def bexpr(self, i, m):
        r = self.primary_b(i)
        if r is None:
            return None
        l, i = r
        ts = self.ts
        while i < len(ts) and ts[i][0] == "c":
            op = ts[i][1:]
            lv = LEVEL_CMP[op]
            if m > lv:
                break
            r = self.bexpr(i + 1, lv + 1)
            if r is None:
                return None
            l, i = ("C", op, l, r[0]), r[1]
        return l, i


def py_parse_tokens(ts):
    """token list -> bool_expr syntax tree, or None when it is not one bool_expr"""
    try:
        r = _P(ts).bexpr(0, 0)
    except RecursionError:
        return None
    if r is None or r[1] != len(ts):
        return None
    return r[0]


def py_parse_text(t):
    """text -> bool_expr syntax tree of the documented language, or None (not in the language / a token rule raises)"""
    try:
        return py_parse_tokens(py_lex(t))
    except LexValue:
        return None


# ---------------------------------------------------------------------------------------------- rendering tokens
def render(tokens, rng, plain=False):
    """driver token list -> BD text; None if the int-size suffix cannot be written here (lexer look-behind)."""
    out = []
    prev_kind = None
    for t in tokens:
        k, body = t[0], t[1:]
        if k == "n":
            n = int(body)
            fmts = ["d", "x"] if plain else ["d", "d", "x", "x", "X", "K", "c", "y"]
            txt = None
            for f in rng.sample(fmts, len(fmts)):
                if f == "d":
                    txt = str(n)
                elif f == "x":
                    txt = hex(n)
                elif f == "X":
                    txt = "0X%X" % n
                elif f == "K" and n and n % 1024 == 0:
                    txt = "%dK" % (n // 1024)
                elif f == "c" and 0 < n < (1 << 32):
                    b = n.to_bytes((n.bit_length() + 7) // 8, "big")
                    if all(48 <= c < 127 and c not in (39, 92) for c in b):
                        txt = "'" + b.decode() + "'"
                elif f == "y" and n in (0, 1):
                    txt = rng.choice(["yes", "true"] if n else ["no", "false"])
                if txt:
                    break
            piece, kind = txt, "num:" + txt
        elif k == "i":
            piece, kind = body, "id:" + body
        elif k in ("o", "c"):
            piece, kind = body, "op"
        elif k == "!":
            piece, kind = "!", "op"
        elif k == "D":
            piece, kind = "defined", "kw"
        elif k in "()":
            piece, kind = k, k
        elif k == ".":
            # must directly follow a hexadecimal digit
            if prev_kind is None or not (prev_kind.startswith("num:") or prev_kind.startswith("id:")):
                return None
            last = prev_kind.split(":", 1)[1]
            if last[-1] not in HEXCH or last[0] == "'":
                if prev_kind.startswith("num:"):
                    # re-render the number in decimal / hexadecimal
                    n_txt = out.pop()
                    n = _num_value(n_txt)
                    if n is None:
                        return None
                    out.append(rng.choice([str(n), hex(n)]))
                else:
                    return None
            out.append(".")
            prev_kind = "."
            continue
        elif k == "z":
            out.append(body)
            prev_kind = "z"
            continue
        else:
            piece, kind = body, "other"
        if out and prev_kind != "start":
            sep = " " if plain else rng.choice([" ", " ", "", "  ", " /* c */ ", "\t"])
            # never glue two word tokens, and keep '/' away from '/' and '*'
            if sep == "" and ((out[-1][-1].isalnum() or out[-1][-1] in "_'") and (piece[0].isalnum() or piece[0] in "_'")
                              or (out[-1][-1] == "/" and piece[0] in "/*") or (out[-1][-1] in "<>=!&|" and piece[0] in "<>=&|")
                              or out[-1][-1] == "." or piece[0] == "."):
                sep = " "
            if prev_kind == "z" and sep == "":
                sep = " "
            out.append(sep)
        out.append(piece)
        prev_kind = kind
    return "".join(out)


def render_plain_tokens(a):
    """tokens of a syntax tree as plain texts (decimal / hexadecimal numbers), for the mutation stream"""
    out = []
    for t in py_tokens(a):
        k, body = t[0], t[1:]
        if k == "n":
            out.append(hex(int(body)) if int(body) > 9 else body)
        elif k == "z":
            if not out or out[-1] != ".":
                return None
            out[-1] = "." + body
        elif k == "D":
            out.append("defined")
        elif k in "ioc":
            out.append(body)
        else:
            out.append(k)
    return out


def _num_value(txt):
    try:
        if txt.endswith("K"):
            return int(txt[:-1]) * 1024
        if txt[0] == "'":
            return int.from_bytes(txt[1:-1].encode(), "big")
        if txt in ("yes", "true"):
            return 1
        if txt in ("no", "false"):
            return 0
        return int(txt, 0)
    except ValueError:
        return None


# ---------------------------------------------------------------------------------------------- generators
def gen_expr(rng, depth, names):
    r = rng.random()
    if depth <= 0 or r < 0.22:
        if names and rng.random() < 0.3:
            return ("V", rng.choice(names))
        return ("L", rng.choice([0, 1, 2, 3, 4, 7, 8, 16, 255, 256, 0xFFFF, 0x10000, 1024, 4096, 0x12345678, 0xFFFFFFFF,
                                 0x100000000, rng.getrandbits(rng.choice([4, 8, 16, 32, 40]))]))
    if r < 0.80:
        op = rng.choice(BINOPS)
        l = gen_expr(rng, depth - 1, names)
        r_ = gen_expr(rng, depth - 1, names)
        if op in ("<<", ">>") and rng.random() < 0.85:
            r_ = ("L", rng.choice([0, 1, 2, 3, 4, 7, 8, 16, 31, 32, 33, 64]))
        return ("B", op, l, r_)
    if r < 0.90:
        return (rng.choice("NNNP"), gen_expr(rng, depth - 1, names))
    # int-size suffix: the text must end in a number / hex-ending identifier (checked after printing)
    e = gen_expr(rng, depth - 1, names)
    if rng.random() < 0.6:
        e = rng.choice([e, ("L", rng.getrandbits(rng.choice([8, 16, 33, 40]))), ("B", rng.choice(BINOPS), e, ("L", rng.getrandbits(12)))])
    return ("Z", rng.choice("bhw"), e)


def gen_bexpr(rng, depth, names, edepth=3):
    r = rng.random()
    if depth <= 0 or r < 0.35:
        return ("A", gen_expr(rng, edepth, names))
    if r < 0.80:
        return ("C", rng.choice(CMPOPS), gen_bexpr(rng, depth - 1, names, edepth), gen_bexpr(rng, depth - 1, names, edepth))
    if r < 0.92:
        return ("!", gen_bexpr(rng, depth - 1, names, edepth))
    return ("D", rng.choice((names or ["zz"]) + ["undefined_name", "q9"]))


def depth_of(a):
    subs = [x for x in a[1:] if isinstance(x, tuple)]
    return 1 + max([depth_of(s) for s in subs], default=0)


def ops_of(a):
    subs = [x for x in a[1:] if isinstance(x, tuple)]
    return (1 if a[0] in "BCNPZ!" else 0) + sum(ops_of(s) for s in subs)


# ---------------------------------------------------------------------------------------------- real code access
class Real:
    def __init__(self, ck):
        from spsdk.crypto.signature_provider import get_signature_provider
        from spsdk.exceptions import SPSDKError
        from spsdk.mboot.memories import ExtMemId, MemId
        from spsdk.sbfile.sb2 import commands as C
        from spsdk.sbfile.sb2.images import BootImageV21
        from spsdk.sbfile.sb2.sly_bd_parser import BDParser
        self.BDParser, self.BootImageV21, self.C, self.SPSDKError = BDParser, BootImageV21, C, SPSDKError
        logging.getLogger("spsdk").setLevel(logging.ERROR)
        self.repo = Path(os.environ.get("SPSDK_REPO", "/repo"))
        d = self.repo / TESTDATA
        self.kek = str(d / "keys/SBkek_PUF.txt")
        self.cert = str(d / "keys_and_certs/root_k0_signed_cert0_noca.der.cert")
        self.roots = [str(d / ("keys_and_certs/root_k%d_signed_cert0_noca.der.cert" % i)) for i in range(4)]
        self.sp = pyres(lambda: get_signature_provider(local_file_key=str(d / "keys_and_certs/k0_cert0_2048.pem")))
        self.scratch = Path(os.environ.get("VERIF_SCRATCH", "/tmp")) / "c19"
        self.scratch.mkdir(parents=True, exist_ok=True)
        names = ["qspi", "ifr", "fuse", "sdcard", "mmccard", "semcnor", "flexspinor", "spifinor", "semcnand", "spinand", "spieeprom",
                 "i2ceeprom", "nosuchmem", "ram"]
        self.mem_names = []
        for n in names:
            r = pyres(MemId.get_legacy_str, n)
            if r[0] == "ok" and r[1]:
                self.mem_names.append((n, int(r[1])))
        self.ext_tags = sorted(set(int(t) for t in ExtMemId.tags()))
        self.files = {}

    def add_file(self, name, data):
        (self.scratch / name).write_bytes(data)
        self.files[name] = data

    def parse(self, text, extern=None):
        """canonical configuration string of BDParser().parse or 'E'"""
        try:
            r = self.BDParser().parse(text, extern)
        except Exception:  # noqa: BLE001  (refusal: the class of the error is not part of the property)
            return "E", None
        if r is None:
            return "E", None
        try:
            return config_canon(r), r
        except Exception as exc:  # noqa: BLE001
            return "E:canon:" + type(exc).__name__, r

    def value(self, text, pre=""):
        """value of `x = <text>;` in an options block after the constants `pre`"""
        try:
            r = self.BDParser().parse("constants { %s }\noptions { x = %s ; }" % (pre, text))
        except Exception:  # noqa: BLE001
            return "E"
        if r is None or "x" not in r.get("options", {}):
            return "E"
        return dval_canon(r["options"]["x"])

    def values(self, texts, pre=""):
        """several definitions in one options block (falls back to one by one when the block is refused)"""
        body = " ".join("x%d = %s ;" % (i, t) for i, t in enumerate(texts))
        try:
            r = self.BDParser().parse("constants { %s }\noptions { %s }" % (pre, body))
            if r is not None:
                o = r.get("options", {})
                return [dval_canon(o["x%d" % i]) if ("x%d" % i) in o else "E" for i in range(len(texts))]
        except Exception:  # noqa: BLE001
            pass
        return [self.value(t, pre) for t in texts]

    def load(self, text, extern=None):
        """(commands canonical or 'E', header options) through parse_sb21_config + load_from_config"""
        p = self.scratch / "prog.bd"
        p.write_text(text)
        self.last_uids = None
        try:
            with time_limit(30):
                cfg = self.BootImageV21.parse_sb21_config(str(p), extern)
                sb = self.BootImageV21.load_from_config(
                    cfg, key_file_path=self.kek, signing_certificate_file_paths=[self.cert], root_key_certificate_paths=self.roots,
                    rkth_out_path=str(self.scratch / "hash.bin"), search_paths=[str(self.scratch)],
                    signature_provider=self.sp[1] if self.sp[0] == "ok" else None)
        except Hang:
            if os.environ.get("VERIF_DEBUG"):
                import traceback
                traceback.print_exc()
            return "HANG", None
        except Exception:  # noqa: BLE001
            return "E", None
        try:
            secs = []
            for s in sb.boot_sections:
                secs.append(";".join(self.cmd_canon(c) for c in s._commands))
            hdr = (int(sb.header.flags), str(sb.header.product_version), str(sb.header.component_version), int(sb.header.build_number))
            self.last_uids = [int(x.uid) for x in sb.boot_sections]
            return "|".join(secs), hdr
        except Exception as exc:  # noqa: BLE001
            return "E:canon:" + type(exc).__name__, None

    def cli_export(self, text, extern=None):
        """`nxpimage sb21 export -c file.bd …` through click's CliRunner -> bytes of the SB file, or None when the command fails"""
        from click.testing import CliRunner
        import spsdk.apps.nxpimage as nxpimage
        p = self.scratch / "cli.bd"
        p.write_text(text)
        out = self.scratch / "cli.sb"
        if out.exists():
            out.unlink()
        cmd = ["sb21", "export", "-c", str(p), "-o", str(out), "-k", self.kek, "-s", str(self.repo / TESTDATA / "keys_and_certs/k0_cert0_2048.pem"),
               "-S", self.cert]
        for r in self.roots:
            cmd += ["-R", r]
        cmd += ["-h", str(self.scratch / "cli_hash.bin")] + list(extern or [])
        cwd = os.getcwd()
        os.chdir(self.scratch)
        try:
            with time_limit(60):
                res = CliRunner().invoke(nxpimage.main, cmd)
        except Hang:
            return "HANG"
        finally:
            os.chdir(cwd)
        if res.exit_code != 0 or not out.exists():
            return None
        return out.read_bytes()

    def cmd_canon(self, c):
        C = self.C
        n = type(c).__name__
        if n == "CmdLoad":
            return "load:%d:%d:%s" % (c.address, c.mem_id, hx(c.data))
        if n == "CmdFill":
            return "fill:%d:%s:%d" % (c.address, hx(c.pattern), c.header.count)
        if n == "CmdProg":
            return "prog:%d:%d:%d:%d" % (c.address, c.mem_id, c.data_word1, c.data_word2)
        if n == "CmdErase":
            return "erase:%d:%d:%d:%d" % (c.address, c.length, c.flags, c.mem_id)
        if n == "CmdMemEnable":
            return "enable:%d:%d:%d" % (c.address, c.size, c.mem_id)
        if n == "CmdJump":
            return "jump:%d:%s:%s" % (c.address, dval_canon(c.argument), "-" if c.spreg is None else dval_canon(c.spreg))
        if n == "CmdCall":
            return "call:%d:%s" % (c.address, dval_canon(c.argument))
        if n == "CmdReset":
            return "reset"
        if n == "CmdVersionCheck":
            return "vc:%d:%s" % (c.type.tag, dval_canon(c.version))
        if n == "CmdKeyStoreRestore":
            return "ksto:%d:%d" % (c.address, c.controller_id)
        if n == "CmdKeyStoreBackup":
            return "ksfrom:%d:%d" % (c.address, c.controller_id)
        return "unknown:" + n

    def crypto(self, kind, addr, st, en, key, ctr, inp, swap="0"):
        """expected LOAD of a keywrap / encrypt statement, recomputed with SPSDK's KeyBlob (an interface owned by C13) from the
        RESOLVED operands, the way SB21Helper calls it: flags in the low bits of `end`, counter bound to the load address"""
        from spsdk.utils.crypto.otfad import KeyBlob
        from spsdk.utils.misc import align_block
        if not (0 <= addr <= 0xFFFFFFFF):
            raise ValueError("address")
        if kind == "keywrap":
            kb = KeyBlob(start_addr=st, end_addr=en, key=bytes.fromhex(key), counter_iv=bytes.fromhex(ctr), key_flags=en & KeyBlob._KEY_FLAG_MASK)
            data = kb.export(kek=inp)
            return "load:%d:0:keywrap[%d]" % (addr, len(data))
        kb = KeyBlob(start_addr=st, end_addr=en, key=bytes.fromhex(key), counter_iv=bytes.fromhex(ctr))
        data = bytes.fromhex(inp) if inp != "-" else b""
        if bool(en & kb.KEY_FLAG_ADE) and bool(en & kb.KEY_FLAG_VLD):
            data = kb.encrypt_image(base_address=addr, data=align_block(data, 512), byte_swap=swap == "1", counter_value=addr)
        return "load:%d:0:%s" % (addr, hx(data))


def dval_canon(v):
    if isinstance(v, str):
        return "s" + hx(v)
    if isinstance(v, (int, bool)):
        return int_canon(v)
    raise TypeError(type(v).__name__)


def dict_canon(d):
    return "{" + ",".join("%s=%s" % (k, dval_canon(d[k])) for k in sorted(d)) + "}"


def config_canon(r):
    o = ("O" + dict_canon(r["options"])) if "options" in r else "O-"
    k = "K[" + ";".join(dval_canon(kb["keyblob_id"]) + dict_canon(kb["keyblob_content"][0]) for kb in r.get("keyblobs", [])) + "]"
    s = ("S" + dict_canon(r["sources"])) if "sources" in r else "S-"
    secs = "[" + "|".join(dval_canon(sec["section_id"]) + ":(" + ";".join(
        ";".join(name + dict_canon(d) for name, d in cmd.items()) for cmd in sec["commands"]) + ")" for sec in r.get("sections", [])) + "]"
    return o + " " + k + " " + s + " " + secs


# ---------------------------------------------------------------------------------------------- programs
# The statement generator works on small records: each statement = dict(kind=…, fields…) with expressions given as
# abstract syntax; `stmt_text` renders BD text, `stmt_wire` the driver request, `stmt_ref` the expected command.
def guard2(txt, m):
    """after `@expr` a following expression must not start with a sign (it would continue the memory-option expression)"""
    txt = guard(txt, m)
    if m is not None and m[0] == "@" and txt.lstrip()[0] in "+-":
        return "(" + txt + ")"
    return txt


def guard(txt, m):
    """An expression right after an ABSENT optional memory option must not start with an identifier: the grammar would take
    the identifier for the memory option (`erase flags - 12` = memory `flags`, address -12).  Write it in parentheses."""
    if m is None and (txt[0].isalpha() or txt[0] == "_") and not txt.startswith(("yes", "no", "true", "false")):
        return "(" + txt + ")"
    if m is None and txt.split("/*")[0].strip() in ("yes", "no", "true", "false"):
        return txt
    if m is None and (txt[0].isalpha() or txt[0] == "_"):
        return "(" + txt + ")"
    return txt


def mem_opt_text(m, et):
    if m is None:
        return ""
    if m[0] == "@":
        return "@" + et(m[1]) + " "
    return m[1] + " "


def mem_opt_wire(m, ew):
    if m is None:
        return ["m-"]
    if m[0] == "@":
        return ["m@", ew(m[1])]
    return ["mn", m[1]]


def target_text(t, et, m="x"):
    return guard(et(t[1]), m) if t[0] == "a" else guard(et(t[1]), m) + ".." + et(t[2])


def target_wire(t, ew):
    return ["ta", ew(t[1])] if t[0] == "a" else ["tr", ew(t[1]), ew(t[2])]


def data_text(d, et):
    if d[0] == "file":
        return '"%s"' % d[1]
    if d[0] == "source":
        return d[1]
    if d[0] == "blob":
        return "{{" + d[2] + "}}"
    return et(d[1])


def data_wire(d, ew):
    if d[0] == "file":
        return ["df", hx(d[1])]
    if d[0] == "source":
        return ["ds", d[1]]
    if d[0] == "blob":
        return ["db", hx(d[1])]
    return ["dp", ew(d[1])]


def arg_text(a, et):
    return "" if a is None else " ()" if a == "empty" else " (" + et(a) + ")"


def arg_wire(a, ew):
    return ["a-"] if a is None else ["a0"] if a == "empty" else ["a1", ew(a)]


def stmt_text(s, et):
    k = s["kind"]
    if k == "load":
        dt = data_text(s["data"], et)
        return "load %s%s > %s;" % (mem_opt_text(s["opt"], et), guard2(dt, s["opt"]) if s["data"][0] == "pattern" else dt, target_text(s["target"], et))
    if k == "erase":
        return "erase %s%s;" % (mem_opt_text(s["opt"], et), target_text(s["target"], et, s["opt"]))
    if k == "eraseall":
        return "erase %sall;" % mem_opt_text(s["opt"], et)
    if k == "eraseunsec":
        return "erase unsecure all;"
    if k == "enable":
        return "enable %s%s;" % (mem_opt_text(s["opt"], et), guard(et(s["e"]), s["opt"]))
    if k in ("call", "jump"):
        return "%s %s%s;" % (k, et(s["e"]), arg_text(s["arg"], et))
    if k == "jumpsp":
        return "jump_sp %s %s%s;" % (et(s["sp"]), et(s["e"]), arg_text(s["arg"], et))
    if k == "reset":
        return "reset;"
    if k == "ver":
        return "version_check %s %s;" % ("nsec" if s["nsec"] else "sec", et(s["e"]))
    if k in ("ksto", "ksfrom"):
        return "%s %s%s;" % ("keystore_to_nv" if k == "ksto" else "keystore_from_nv", mem_opt_text(s["opt"], et), target_text(s["target"], et, s["opt"]))
    if k == "keywrap":
        return "keywrap (%s) { load {{%s}} > %s; }" % (et(s["id"]), s["blobtext"], et(s["addr"]))
    if k == "encrypt":
        dt = data_text(s["data"], et)
        return "encrypt (%s) { load %s%s > %s; }" % (et(s["id"]), mem_opt_text(s["opt"], et), guard2(dt, s["opt"]) if s["data"][0] == "pattern" else dt, target_text(s["target"], et))
    if k == "unsup":
        return s["text"]
    raise ValueError(k)


def stmt_wire(s, ew):
    k = s["kind"]
    if k == "load":
        return ["load"] + mem_opt_wire(s["opt"], ew) + data_wire(s["data"], ew) + target_wire(s["target"], ew)
    if k == "erase":
        return ["erase"] + mem_opt_wire(s["opt"], ew) + target_wire(s["target"], ew)
    if k == "eraseall":
        return ["eraseall"] + mem_opt_wire(s["opt"], ew)
    if k == "eraseunsec":
        return ["eraseunsec"]
    if k == "enable":
        return ["enable"] + mem_opt_wire(s["opt"], ew) + [ew(s["e"])]
    if k in ("call", "jump"):
        return [k, ew(s["e"])] + arg_wire(s["arg"], ew)
    if k == "jumpsp":
        return ["jumpsp", ew(s["sp"]), ew(s["e"])] + arg_wire(s["arg"], ew)
    if k == "reset":
        return ["reset"]
    if k == "ver":
        return ["ver", "1" if s["nsec"] else "0", ew(s["e"])]
    if k in ("ksto", "ksfrom"):
        return [k] + mem_opt_wire(s["opt"], ew) + target_wire(s["target"], ew)
    if k == "keywrap":
        return ["keywrap", ew(s["id"]), hx(s["blob"]), ew(s["addr"])]
    if k == "encrypt":
        return ["encrypt", ew(s["id"])] + mem_opt_wire(s["opt"], ew) + data_wire(s["data"], ew) + target_wire(s["target"], ew)
    if k == "unsup":
        return ["unsup", s["what"]]
    raise ValueError(k)


def mem_flags(m):
    return (((m & 0xFF) << 8) & 0xFF00) | ((((m & 0xF00) >> 8) << 4) & 0xF0)


def stmt_ref(s, ev, ctx):
    """Independent reference of `one command per supported statement` (mirror of Spec.cmdOf): the canonical command,
    or None when the statement is outside the supported subset (then SPSDK must refuse it or the Spec is silent)."""
    k = s["kind"]

    def val(a):
        try:
            v = ev(a)
        except (RefErr, Huge):
            return None
        return v if isinstance(v, int) else None

    def is_addr(a):
        return a is not None and 0 <= a <= 0xFFFFFFFF

    is_u32 = is_addr

    def mem(m):
        if m is None:
            return 0
        if m[0] == "@":
            return val(m[1])
        v = dict(ctx["mem_names"]).get(m[1])
        return v if v else None

    def file_of(d):
        if d[0] == "file":
            return ctx["files"].get(d[1]) if d[1] else None
        if d[0] == "source":
            p = ctx["sources"].get(d[1])
            return ctx["files"].get(p) if p else None
        return None

    def fill_word(p):
        if p is None or p < 0 or p > 0xFFFFFFFF:
            return None
        n = 1 if p < 0x100 else 2 if p < 0x10000 else 4
        return p.to_bytes(n, "big") * (4 // n)

    def kb(i):
        for b in ctx["keyblobs"]:
            if b["id"] == i:
                c = b["content"]
                if all(isinstance(c.get(x), int) for x in ("start", "end")) and all(isinstance(c.get(x), str) for x in ("key", "counter")):
                    if all(len(c[x]) % 2 == 0 and all(ch in HEXCH for ch in c[x]) for x in ("key", "counter")):
                        if isinstance(c.get("byteSwap", 0), int):
                            return c
                return None
        return None
    if k == "load":
        m = mem(s["opt"])
        if m is None:
            return None
        d, t = s["data"], s["target"]
        if d[0] == "pattern":
            p = val(d[1])
            if p is None:
                return None
            if s["opt"] is None:
                w = fill_word(p)
                if w is None:
                    return None
                a = val(t[1])
                if t[0] == "a":
                    return "fill:%d:%s:4" % (a, w.hex()) if is_addr(a) else None
                b = val(t[2])
                if is_addr(a) and b is not None and a < b and (b - a) % 4 == 0:
                    return "fill:%d:%s:%d" % (a, w.hex(), b - a)
                return None
            a = val(t[1])
            if t[0] == "a" and m == 4 and 0 < p <= 0xFFFFFFFF and is_addr(a):
                return "prog:%d:%d:%d:0" % (a, m, p)
            return None
        if t[0] != "a":
            return None
        a = val(t[1])
        if not is_addr(a):
            return None
        if d[0] == "blob":
            bs = bytes.fromhex(d[1])
            if not bs:
                return None
            if m == 4:
                if len(bs) == 4:
                    return "prog:%d:%d:%d:0" % (a, m, int.from_bytes(bs, "little"))
                if len(bs) == 8:
                    return "prog:%d:%d:%d:%d" % (a, m, int.from_bytes(bs[:4], "little"), int.from_bytes(bs[4:], "little"))
                return None
            return "load:%d:%d:%s" % (a, m, hx(bs))
        bs = file_of(d)
        return None if bs is None else "load:%d:%d:%s" % (a, m, hx(bs))
    if k == "erase":
        m = mem(s["opt"])
        t = s["target"]
        a = val(t[1])
        if m is None or not is_addr(a):
            return None
        if t[0] == "a":
            return "erase:%d:0:%d:%d" % (a, mem_flags(m), m)
        b = val(t[2])
        return "erase:%d:%d:%d:%d" % (a, b - a, mem_flags(m), m) if b is not None and a <= b else None
    if k == "eraseall":
        m = mem(s["opt"])
        return None if m is None else "erase:0:0:%d:%d" % (1 | mem_flags(m), m)
    if k == "eraseunsec":
        return "erase:0:0:2:0"
    if k == "enable":
        m, a = mem(s["opt"]), val(s["e"])
        return None if m is None or not is_addr(a) else "enable:%d:4:%d" % (a, m)
    if k == "call":
        a = val(s["e"])
        x = 0 if s["arg"] in (None, "empty") else val(s["arg"])
        return "call:%d:i%d" % (a, x) if is_addr(a) and is_u32(x) else None
    if k == "reset":
        return "reset"
    if k in ("jump", "jumpsp"):
        a = val(s["e"])
        x = 0 if s["arg"] in (None, "empty") else val(s["arg"])
        sp = val(s["sp"]) if k == "jumpsp" else None
        if not is_addr(a) or not is_u32(x) or (k == "jumpsp" and not is_u32(sp)):
            return None
        return "jump:%d:i%d:%s" % (a, x, "-" if k == "jump" else "i%d" % sp)
    if k == "ver":
        v = val(s["e"])
        return None if not is_u32(v) else "vc:%d:i%d" % (1 if s["nsec"] else 0, v)
    if k in ("ksto", "ksfrom"):
        o, t = s["opt"], s["target"]
        if o is None or o[0] != "@" or t[0] != "a":
            return None
        m, a = val(o[1]), val(t[1])
        if m is None or m not in ctx["ext_tags"] or not (0 <= m <= 0xFF) or not is_addr(a):
            return None
        return "%s:%d:%d" % (k, a, m)
    if k == "keywrap":
        i, a = val(s["id"]), val(s["addr"])
        c = kb(i) if i is not None else None
        if c is None or not is_addr(a):
            return None
        return "crypto:keywrap:%d:%d:%d:%s:%s:%s:0" % (a, c["start"], c["end"], c["key"].lower(), c["counter"].lower(), s["blob"].lower() or "")
    if k == "encrypt":
        i = val(s["id"])
        t = s["target"]
        if t[0] != "a" or mem(s["opt"]) is None:
            return None
        a = val(t[1])
        bs = file_of(s["data"])
        c = kb(i) if i is not None else None
        if c is None or not is_addr(a) or bs is None:
            return None
        return "crypto:encrypt:%d:%d:%d:%s:%s:%s:%d" % (a, c["start"], c["end"], c["key"].lower(), c["counter"].lower(), bs.hex(),
                                                          1 if c.get("byteSwap", 0) else 0)
    return None  # unsupported constructs


def is_plain_blob_load(s, ref_mem):
    return s["kind"] == "load" and s["data"][0] == "blob" and ref_mem != 4


def is_prog_blob_zeros(s, ref_mem):
    return s["kind"] == "load" and s["data"][0] == "blob" and ref_mem == 4 and len(s["data"][1]) == 16 and s["data"][1][:8] == "00000000"


UNSUPPORTED = [
    ("if", "if 1 { reset; }"), ("ifelse", "if 0 { reset; } else { reset; }"), ("mode", "mode 1;"), ("info", 'info "hello";'),
    ("warning", 'warning "w";'), ("error", 'error "e";'), ("from", "from SRC { load 1 > 2; }"), ("loaddot", "load 1 > .;"),
    ("loadsection", "load $.text > 0x10;"), ("loadsectionfrom", "load $.text from SRC > 0x10;"), ("notarget", "load 1;"),
    ("sizeof", "load sizeof(abc) > 0x10;"), ("symbolref", "jump SRC?:main;"), ("callsource", "call SRC;"),
    ("tilde", "jump ~1;"), ("loadnotsection", "load ~$.bss > 0;"),
]


def run(ck):
    real = Real(ck)
    ck.lean_obligations(generated=["BdGrammar"])
    drv = ck.driver()
    ck.assume("sly 0.5 builds the LALR(1) tables and resolves conflicts as yacc does (tested by the correspondence streams, not proved)",
              "Python int operators // % << >> & | ^ behave as documented (Base/PyInt.lean models them; compared on every case)",
              "shift counts beyond 2^18 are not evaluated (MemoryError territory)",
              "load_binary / MemId.get_legacy_str / ExtMemId tags / KeyBlob are interfaces: their results are inputs of the model",
              "operations on a str operand (undefined identifier or string option inside an expression) are outside the model",
              "every call into the implementation runs under a 30 s alarm: a hang is reported as a failure")
    rng = ck.rng
    # Inputs, expected values and known-finding predicates are computed by the harness from the input alone (reference printer / lexer /
    # parser / evaluator / statement reference above).  The model driver only ever feeds `compare`: when it does not build (None) or
    # answers nonsense, the same inputs are generated, the same oracles run, and the run ends - at worst - with broken correspondences.
    # `rom21` (drv_c04) is the boot-ROM side of Model/Sb2.lean (`namespace Rom`): written from the file format with its own constants,
    # it references neither Generated/ nor the builder-side model, so its answers do not depend on /repo.
    ck.spec_ops = {"rom21"}
    mdl = Model(drv)
    for fn in (expr_streams, token_stream, lexer_stream, duplicate_stream, program_streams):
        try:
            fn(ck, real, mdl, rng)
        except Exception as exc:  # noqa: BLE001
            print("C19: stream group %s stopped: %s: %s (driver rc=%s)" % (fn.__name__, type(exc).__name__, exc,
                                                                          drv.proc.poll() if drv is not None else "no driver"), file=sys.stderr)
            raise


class Model:
    """the native model driver - or nothing when the model does not build; its answers are correspondence material only"""

    def __init__(self, drv):
        self.drv = drv

    def batch(self, lines):
        lines = list(lines)
        if self.drv is None:
            return [None] * len(lines)
        return self.drv.batch(lines)

    def ask(self, line):
        return self.batch([line])[0]


def cmp_model(s, inp, real_v, model_v, what=None):
    """correspondence: implementation vs model answer (skipped when there is no model; any malformed answer is a disagreement)"""
    if model_v is None:
        return
    if what is None:
        s.compare(inp, real_v, model_v)
    else:
        s.compare(inp, real_v, model_v, what)


def fields(ans, sep, n):
    """a driver answer split into exactly n fields, or None (no driver / answer of another shape)"""
    if not isinstance(ans, str):
        return None
    parts = ans.split(sep)
    return parts if len(parts) == n else None


PREC = {"|": 3, "^": 4, "&": 5, "<<": 8, ">>": 8, "+": 9, "-": 9, "*": 10, "/": 10, "%": 10}


def flat_ast(vals, ops):
    """abstract syntax of `v0 op0 v1 op1 …` under C precedence, left associative (shunting yard)"""
    out, st = [("L", vals[0])], []

    def reduce():
        op = st.pop()
        r = out.pop()
        l = out.pop()
        out.append(("B", op, l, r))
    for v, op in zip(vals[1:], ops):
        while st and PREC[st[-1]] >= PREC[op]:
            reduce()
        st.append(op)
        out.append(("L", v))
    while st:
        reduce()
    return out[0]


def flat_ref(vals, ops):
    try:
        return val_canon(ref_eval(flat_ast(vals, ops), {}))
    except RefErr:
        return "E"
    except Huge:
        return None


def expr_streams(ck, real, drv, rng):
    # ------------------------------------------------------------------ exhaustive flat expressions
    nmax = ck.budget(2, 3)
    s = ck.stream("expr_exhaustive", "every unparenthesised expression v0 op v1 [op v2 [op v3]] with <= %d operators over operands %s and the 10 binary "
                  "operators (quick: <=2 operators exhaustive + 20 000 sampled 3-operator ones; thorough: all 3-operator ones); several "
                  "definitions per options block; non-trivial = distinct text" % (nmax, OPERANDS))
    cases = []
    for n in range(1, 3):
        for vals in itertools.product(OPERANDS, repeat=n + 1):
            for ops in itertools.product(BINOPS, repeat=n):
                cases.append((vals, ops))
    if ck.quick:
        for _ in range(20000):
            cases.append((tuple(rng.choice(OPERANDS) for _ in range(4)), tuple(rng.choice(BINOPS) for _ in range(3))))
    else:
        for vals in itertools.product(OPERANDS, repeat=4):
            for ops in itertools.product(BINOPS, repeat=3):
                cases.append((vals, ops))
    s.exhaustive = not ck.quick
    CH = 40
    batch_txt, batch_want = [], []

    def flush():
        if not batch_txt:
            return
        okc = [i for i, w in enumerate(batch_want) if w != "E"]
        got = {}
        if okc:
            for i, g in zip(okc, real.values([batch_txt[i] for i in okc])):
                got[i] = g
        for i, w in enumerate(batch_want):
            if w == "E":
                got[i] = real.value(batch_txt[i])
        model = drv.batch(["X b " + hx(t) for t in batch_txt])
        for i, t in enumerate(batch_txt):
            cmp_model(s, {"text": t}, got[i], model[i])
            s.expect(got[i] == batch_want[i], {"text": t}, "a BD constant expression does not evaluate to its arithmetic value "
                     "(ordinary integer arithmetic, C precedence)", got[i], batch_want[i])
        batch_txt.clear()
        batch_want.clear()
    for vals, ops in cases:
        want = flat_ref(list(vals), list(ops))
        txt = " ".join([str(vals[0])] + ["%s %s" % (o, hex(v) if v > 9 else v) for o, v in zip(ops, vals[1:])])
        if want is None:
            s.note(txt, nontrivial=False, cls="huge-shift-skipped")
            continue
        s.note(txt, cls="error" if want == "E" else "value")
        batch_txt.append(txt)
        batch_want.append(want)
        if len(batch_txt) >= CH:
            flush()
    flush()

    # ------------------------------------------------------------------ random abstract syntax, printed by the Lean printer
    s = ck.stream("expr_random", "random bool_expr / expr syntax trees (depth <= 5: + - * / % << >> & | ^, unary +-, int-size suffixes, "
                  "comparisons, && || !, defined(), constants referring to earlier constants), printed with minimal parentheses by the harness's "
                  "reference printer (compared token by token with the proved Lean printer), rendered with random number formats (dec/hex/K/'c'/yes/no), spacing and comments; non-trivial = value (not error)")
    n = ck.budget(6000, 120000)
    consts = [("a", 10), ("zz", 3), ("c0de", 0x1234), ("big", 0x1_0000_0001), ("ab", 7), ("f", 0)]
    # constants referring to earlier constants: the prelude is itself part of what is evaluated
    pre = "a = 10; zz = a - 7; c0de = 0x1200 + 0x34; big = 1 << 32 | 1; ab = zz * 2 + 1; f = ab - 7;"
    env = dict(consts)
    names = [c[0] for c in consts]
    asts = []
    for _ in range(n):
        if rng.random() < 0.5:
            a = ("A", gen_expr(rng, rng.choice([1, 2, 3, 4, 5]), names))
        else:
            a = gen_bexpr(rng, rng.choice([1, 2, 3]), names, rng.choice([1, 2, 3]))
        try:
            ref_canon(a, env)
        except Huge:
            s.note(repr(a), nontrivial=False, cls="huge-shift-skipped")
            continue
        asts.append(a)
    varspec = " ".join("%s=%d" % c for c in consts)
    answers = drv.batch(["A %s ; %s" % (varspec, " ".join(wire(a))) for a in asts])
    texts, keep, canon_cases = [], [], []
    for a, ans in zip(asts, answers):
        # text and expected value: harness printer + reference evaluator (nothing of the driver's answer is used for them)
        want = ref_canon(a, env)
        toks = py_tokens(a)
        txt = render(toks, rng)
        ctext = py_canonical(toks)
        parts = fields(ans, " | ", 5)
        if ans is not None and parts is None:
            s.compare({"ast": repr(a)}, "5 fields", ans, "driver could not print the syntax tree")
        if parts is not None:
            mtoks, spec, model_tok, rt, canon_hex = parts
            s.compare({"ast": repr(a)}, " ".join(toks), mtoks, "Lean printer prB (levels of the current precedence table) differs from the "
                      "harness's reference printer (documented levels)")
            # the Lean Spec and the executable reference are the same function on every case
            s.compare({"ast": repr(a)}, want, spec, "Lean Spec.evalB differs from the harness's reference evaluator")
            s.compare({"ast": repr(a)}, spec, model_tok, "evalB (refParseB (print b)) differs from Spec.evalB b")
            s.compare({"ast": repr(a)}, "rt", rt, "refParseB (prB b) is not b")
            # `Lexable` (Lean) and the renderer agree on which trees have a concrete syntax
            s.compare({"ast": repr(a)}, "-" if txt is None else "text", "-" if canon_hex == "-" else "text",
                      "Lean `Lexable` and the harness renderer disagree on whether the tree has a concrete syntax")
            # the canonical text: Lean `render` (the text the theorems speak about) = the harness's own rendering
            s.compare({"ast": repr(a)}, "-" if ctext is None else hx(ctext), canon_hex, "canonical text: Lean `render` differs from the harness's")
        if ctext is not None and py_parse_text(ctext) == a:
            canon_cases.append((ctext, a, want))
        if txt is None:
            s.note(repr(a), nontrivial=False, cls="int-size-after-non-literal (no concrete syntax)")
            continue
        texts.append(txt)
        keep.append((a, want))
    models = drv.batch(["X b %s %s" % (hx(t), varspec) for t in texts])
    CH = 25
    for i in range(0, len(texts), CH):
        chunk = texts[i:i + CH]
        if all(w != "E" for _a, w in keep[i:i + CH]):
            gots = real.values(chunk, pre)
        else:
            gots = [real.value(t, pre) for t in chunk]
        for j, t in enumerate(chunk):
            a, want = keep[i + j]
            s.note(t, nontrivial=want != "E", cls="d%d/%s" % (min(depth_of(a), 7), "error" if want == "E" else "value"))
            cmp_model(s, {"text": t, "pre": pre}, gots[j], models[i + j])
            s.expect(gots[j] == want, {"text": t, "pre": pre, "ast": repr(a)},
                     "a BD constant expression does not evaluate to the value the language semantics prescribes", gots[j], want)

    # ------------------------------------------------------------------ the canonical text of the proved round trip
    s = ck.stream("expr_canonical_text", "the same trees in the CANONICAL text (the text of theorems lex_print / parse_print_text / eval_text; "
                  "harness rendering, compared with Lean `render`): the implementation's lexer + parser must give the Spec value on exactly this text; "
                  "non-trivial = value (not error)")
    for i in range(0, len(canon_cases), 25):
        chunk = canon_cases[i:i + 25]
        if all(w != "E" for _t, _a, w in chunk):
            gots = real.values([t for t, _a, _w in chunk], pre)
        else:
            gots = [real.value(t, pre) for t, _a, _w in chunk]
        for (t, a, want), g in zip(chunk, gots):
            s.note(t, nontrivial=want != "E", cls="error" if want == "E" else "value")
            s.expect(g == want, {"text": t, "pre": pre, "ast": repr(a)},
                     "the canonical text of a syntax tree does not evaluate to the value the language semantics prescribes", g, want)

    # ------------------------------------------------------------------ one-token mutations of valid expressions
    s = ck.stream("expr_mutated", "valid printed expressions with ONE token deleted, duplicated, replaced or two swapped: accept/reject "
                  "boundary and value, implementation vs model, and vs the reference value of the tree the harness's reference parser builds "
                  "(compared with the tree of the Lean lexer + reference parser); "
                  "non-trivial = accepted")
    pool = ["+", "-", "*", "/", "%", "<<", ">>", "&", "|", "^", "(", ")", "<", "<=", "==", "!=", "&&", "||", "!", "1", "0x10", "a", "zz",
            ".b", "~", "defined(a)"]
    muts = []
    for a in asts[: ck.budget(3000, 60000)]:
        ans_toks = render_plain_tokens(a)
        if not ans_toks:
            continue
        t = list(ans_toks)
        k = rng.randrange(4)
        i = rng.randrange(len(t))
        if k == 0 and len(t) > 1:
            del t[i]
        elif k == 1:
            t.insert(i, t[i])
        elif k == 2:
            t[i] = rng.choice(pool)
        else:
            j = rng.randrange(len(t))
            t[i], t[j] = t[j], t[i]
        muts.append(" ".join(t).replace(" .b", ".b").replace(" .h", ".h").replace(" .w", ".w"))
    parsed = drv.batch(["T " + hx(t) for t in muts])
    safe = []
    for t, mpw in zip(muts, parsed):
        # the tree the text denotes: harness lexer + reference parser (the Lean lexer + reference parser are compared with it)
        pa = py_parse_text(t)
        pw = "E" if pa is None else " ".join(wire(pa))
        cmp_model(s, {"text": t}, pw, mpw, "Lean lexer + reference parser (current precedence table) read the text differently from the "
                  "harness's lexer + reference parser (documented grammar)")
        if pa is not None:
            try:
                ref_eval(pa, env)
            except Huge:
                s.note(t, nontrivial=False, cls="huge-shift-skipped")
                continue
            except StrOp:
                # an operation on a str (undefined identifier): modelled, but no oracle here (see stream undefined_ident)
                if not str_bound_ok(pa, env):
                    s.note(t, nontrivial=False, cls="huge-str-skipped")
                    continue
                pa = None
            except RefErr:
                pass
        safe.append((t, pa))
    models = drv.batch(["X c %s %s" % (hx(t), varspec) for t, _pa in safe])
    for (t, pa), m in zip(safe, models):
        g = real.value(t, pre)
        s.note(t, nontrivial=g != "E", cls="accepted" if g != "E" else "refused")
        cmp_model(s, {"text": t, "pre": pre}, g, m)
        if pa is not None:
            pw = " ".join(wire(pa))
            w = ref_canon(pa, env)
            s.expect(g == w, {"text": t, "pre": pre, "parsed_as": pw}, "an accepted expression does not evaluate to the arithmetic value of its "
                     "syntax tree (tree as parsed by the reference parser)", g, w)

    # ------------------------------------------------------------------ token soup (mostly malformed)
    s = ck.stream("expr_tokens", "random token sequences (1..10 tokens from operands, operators, parentheses, suffixes, keywords): "
                  "accept/reject and value of the implementation vs the model; non-trivial = accepted")
    toks = ["0", "1", "2", "3", "7", "0xFFFF", "0x10", "a", "zz", "c0de", "+", "-", "*", "/", "%", "<<", ">>", "&", "|", "^", "(", ")",
            "<", "<=", ">", ">=", "==", "!=", "&&", "||", "!", "defined(a)", "defined(q)", "defined", ".b", ".h", ".w", "~", "1K", "yes",
            "no", "08", "0x", "'ab'", "sizeof(a)", "?", ":", "load", "1.5", "12ab", "$x", '"s"']
    n = ck.budget(15000, 300000)
    texts = []
    for _ in range(n):
        out = []
        for _ in range(rng.randint(1, 10)):
            t = rng.choice(toks)
            if t.startswith(".") and out and rng.random() < 0.8:
                out[-1] += t
            else:
                out.append(t)
        texts.append(" ".join(out))
    parsed = drv.batch(["T " + hx(t) for t in texts])
    safe = []
    for t, mpw in zip(texts, parsed):
        # the tree the text denotes: harness lexer + reference parser (the Lean lexer + reference parser are compared with it)
        pa = py_parse_text(t)
        pw = "E" if pa is None else " ".join(wire(pa))
        cmp_model(s, {"text": t}, pw, mpw, "Lean lexer + reference parser (current precedence table) read the text differently from the "
                  "harness's lexer + reference parser (documented grammar)")
        if pa is not None:
            try:
                ref_eval(pa, env)
            except Huge:
                s.note(t, nontrivial=False, cls="huge-shift-skipped")
                continue
            except StrOp:
                # an operation on a str (undefined identifier): modelled, but no oracle here (see stream undefined_ident)
                if not str_bound_ok(pa, env):
                    s.note(t, nontrivial=False, cls="huge-str-skipped")
                    continue
                pa = None
            except RefErr:
                pass
        safe.append((t, pa))
    models = drv.batch(["X c %s %s" % (hx(t), varspec) for t, _pa in safe])
    for (t, pa), m in zip(safe, models):
        g = real.value(t, pre)
        s.note(t, nontrivial=g != "E", cls="accepted" if g != "E" else "refused")
        cmp_model(s, {"text": t, "pre": pre}, g, m)
        if pa is not None:
            pw = " ".join(wire(pa))
            # what the reference parser made of the text, evaluated by the reference semantics
            w = ref_canon(pa, env)
            s.expect(g == w, {"text": t, "pre": pre, "parsed_as": pw}, "an accepted expression does not evaluate to the arithmetic value of its "
                     "syntax tree (tree as parsed by the reference parser)", g, w)


CMP_NAMES = ("LT", "LE", "GT", "GE", "EQ", "NE", "LAND", "LOR")
OP_NAMES = ("PLUS", "MINUS", "TIMES", "DIVIDE", "MOD", "LSHIFT", "RSHIFT", "AND", "OR", "XOR")


def real_tokens(text, sources):
    """`BDLexer().tokenize(text)` in the driver's token notation (type AND value of every token); "E" where a token rule raises"""
    from spsdk.sbfile.sb2.sly_bd_lexer import BDLexer, Variable
    lx = BDLexer()
    for nm in sources:
        lx.add_source(Variable(nm, "source", "x"))
    out = []
    try:
        with time_limit(20):
            toks = list(lx.tokenize(text))
    except Hang:
        return "HANG"
    except Exception:  # noqa: BLE001
        return "E"
    kw_types = set(w.upper() for w in KEYWORDS)
    for tk in toks:
        ty, v = tk.type, tk.value
        if ty == "INT_LITERAL":
            out.append("n%d" % v if isinstance(v, int) and not isinstance(v, bool) else "n?%r" % (v,))
        elif ty == "IDENT":
            out.append("i" + str(v))
        elif ty == "SOURCE_NAME":
            out.append("S" + str(v))
        elif ty == "DEFINED":
            out.append("D")
        elif ty == "ERROR" and v != "error":
            out.append("xERROR")
        elif ty in kw_types and isinstance(v, str) and v.upper() == ty:
            out.append("k" + ty)
        elif ty in OP_NAMES:
            out.append("o" + str(v))
        elif ty in CMP_NAMES:
            out.append("c" + str(v))
        elif ty == "LNOT":
            out.append("!")
        elif ty in ("LPAREN", "RPAREN", "PERIOD"):
            out.append(str(v))
        elif ty == "INT_SIZE":
            out.append("z" + str(v))
        elif ty == "STRING_LITERAL":
            out.append("q" + hx(str(v)[1:-1]))
        elif ty == "SECTION_NAME":
            out.append("s" + hx(str(v)))
        elif ty == "BINARY_BLOB":
            out.append("b" + str(v))
        else:
            out.append("x" + str(ty))
    return "T " + " ".join(out)


def token_stream(ck, real, drv, rng):
    """the lexer itself, token by token (type and value), on texts built from every token class and on mutated texts"""
    s = ck.stream("lexer_tokens", "texts of 1..12 pieces drawn from EVERY token class of sly_bd_lexer.py (identifiers, all keywords, source names, "
                  "true/false/yes/no, decimal / K / 0x / 0X / character-literal numbers incl. leading zeros, string literals, $section globs, "
                  "{{binary blobs}}, every operator and delimiter, @, int-size suffixes, # // /* */ comments, junk), joined by blank / "
                  "nothing / newline / tab, then with one character deleted, doubled or replaced: `BDLexer().tokenize` (type and value of "
                  "every token, or the rule raising) vs the Lean lexer model vs the harness's reference lexer; non-trivial = no ERROR token")
    words = ["a", "zz", "c0de", "_x1", "img", "elf", "b", "h", "w", "K", "x", "X1", "abcdefg", "trueish", "nob"]
    srcs_pool = ["img", "elf", "w"]

    def piece():
        k = rng.randrange(16)
        if k == 0:
            return rng.choice(words)
        if k == 1:
            return rng.choice(KEYWORDS)
        if k == 2:
            return str(rng.choice([0, 1, 7, 10, 255, 4096, rng.getrandbits(32), rng.getrandbits(70)]))
        if k == 3:
            return rng.choice(["1K", "64K", "0K", "%dK" % rng.getrandbits(12), "007", "08", "000", "1KB", "2Kx", "1k", "1M", "0b11"])
        if k == 4:
            return rng.choice(["0x", "0X"]) + "".join(rng.choice("0123456789abcdefABCDEF") for _ in range(rng.randint(0, 9)))
        if k == 5:
            return "'" + rng.choice(["a", "ab", "dude", "", " ", "x;y", "\"", "K9", "\u00e9"]) + "'"
        if k == 6:
            return '"' + rng.choice(["", "abc", "1.00.00", "a b", "x;y", "//no", "#no", "it's", "{{aa}}"]) + '"'
        if k == 7:
            return "$" + rng.choice(["a", ".text", "sec_[ab]", "math*", "a-b^c?", "", "$", "x.b"])
        if k == 8:
            return "{{" + "".join(rng.choice(["aa", "1F", " ", "3c", "  ", "a", "g", "bb"]) for _ in range(rng.randint(0, 5))) + "}}"
        if k in (9, 10, 11):
            return rng.choice(SIMPLE_TOKENS)[1]
        if k == 12:
            return rng.choice([".b", ".h", ".w", ". b", ".x", ".bb"])
        if k == 13:
            return rng.choice(["# c\n", "// c \"q\"\n", "/* x */", "/* a\nb */", "/* open", "#", "//", "/**/"])
        if k == 14:
            return rng.choice(["@", "\\", "`", "'", '"', "12ab", "1.5", "1_0", "9z"])
        return rng.choice(["yes", "no", "true", "false", "defined", "sizeof"])

    def mutate(t):
        if not t:
            return t
        i = rng.randrange(len(t))
        m = rng.randrange(3)
        if m == 0:
            return t[:i] + t[i + 1:]
        if m == 1:
            return t[:i] + t[i] + t[i:]
        return t[:i] + rng.choice(" .'\"$#/*{}Kx0b\n") + t[i + 1:]

    n = ck.budget(4000, 80000)
    cases = []
    for i in range(n):
        ps = [piece() for _ in range(rng.randint(1, 12))]
        seps = [rng.choice([" ", " ", " ", "", "\n", "\t", "  "]) for _ in ps]
        t = "".join(p + sp for p, sp in zip(ps, seps))
        if i % 3 == 2:
            t = mutate(t)
            if not t.isascii():
                # a mutation can strip the quotes around a non-ASCII character literal; outside quotes Python's \w / \b are Unicode-aware
                # ('$\u00e9' is a source name for the real lexer) while the reference lexer and the Lean model are ASCII - outside the
                # modelled language (thorough tier raised a false alarm here), so mutated texts are kept ASCII
                t = "".join(ch if ord(ch) < 128 else "e" for ch in t)
        srcs = [x for x in srcs_pool if rng.random() < 0.5]
        cases.append((t, srcs))
    models = drv.batch(["K %s %s" % (hx(t), " ".join(srcs)) for t, srcs in cases])
    for (t, srcs), m in zip(cases, models):
        g = real_tokens(t, srcs)
        inp = {"text": t, "sources": srcs}
        s.note(t, nontrivial=g != "E" and "xERROR" not in g, cls="raises" if g == "E" else ("error-token" if "xERROR" in g else "clean"))
        cmp_model(s, inp, g, m)
        try:
            w = "T " + " ".join(py_lex(t, srcs))
        except LexValue:
            w = "E"
        s.expect(g == w, inp, "the lexer does not split the text into the tokens (type and value) the BD language defines "
                 "(reference lexer of the harness)", g, w)


def lexer_stream(ck, real, drv, rng):
    s = ck.stream("lexer_lines", "option / constant blocks with several definitions per line, string and character literals, comments of "
                  "all three kinds; every definition must get its own value; non-trivial = distinct text")
    n = ck.budget(300, 5000)
    for _ in range(n):
        k = rng.randint(2, 5)
        defs, want = [], {}
        for i in range(k):
            name = "o%d" % i
            kind = rng.random()
            if kind < 0.45:
                v = rng.choice(["1.00.00", "abc", "a b", "x;y", "p=q", "", "//no", "#no", "it's"])
                defs.append('%s = "%s";' % (name, v))
                want[name] = v
            elif kind < 0.65:
                v = rng.choice(["ab", "dude", "A", "z9"])
                defs.append("%s = '%s';" % (name, v))
                want[name] = int.from_bytes(v.encode(), "big")
            else:
                v = rng.getrandbits(16)
                defs.append("%s = %s;" % (name, rng.choice([str(v), hex(v)])))
                want[name] = v
        sep = [rng.choice([" ", "  ", "\n", " /* x */ ", "\t"]) for _ in defs]
        body = "".join(d + sp for d, sp in zip(defs, sep))
        tail = rng.choice(["", " // trailing \"comment\"", " # 'c'"])
        text = "options { %s }%s\n" % (body, tail)
        got, raw = real.parse(text)
        exp = "O" + dict_canon(want) + " K[] S- []"
        s.note(text)
        s.expect(got == exp, {"text": text}, "definitions sharing a line do not each get their own value (string / character literal "
                 "swallows the rest of the line)", got, exp)
        wirereq = ["P", "PROG", "OPTS", str(k)]
        for i in range(k):
            name = "o%d" % i
            if isinstance(want[name], str):
                wirereq += [name, "S", hx(want[name])]
            else:
                txt = defs[i].split("=", 1)[1].strip()[:-1]
                wirereq += [name, "E", hx(txt)]
        ans = drv.ask(" ".join(wirereq))
        cmp_model(s, {"text": text}, got, None if ans is None else ans.split(" # ")[0])


def duplicate_stream(ck, real, drv, rng):
    """which of several definitions of one name is used is not specified: correspondence only (no oracle)"""
    s = ck.stream("duplicate_defs", "constants / options defined more than once and then used: implementation vs model only "
                  "(the documents do not say which definition counts); non-trivial = distinct text")
    for _ in range(ck.budget(60, 1000)):
        names = ["a", "b1", "c0de"]
        defs, wirereq, n = [], [], 0
        lines = []
        for blk in range(rng.randint(1, 3)):
            kind = rng.choice(["constants", "options"])
            body, w = [], []
            for _ in range(rng.randint(1, 4)):
                nm = rng.choice(names)
                val = rng.choice([str(rng.randrange(100)), rng.choice(names) + " + 1", rng.choice(names)])
                body.append("%s = %s;" % (nm, val))
                w.append((nm, val))
            lines.append("%s { %s }" % (kind, " ".join(body)))
            if kind == "constants":
                wirereq += ["CONSTS", str(len(w))] + [x for nm, val in w for x in (nm, hx(val))]
            else:
                wirereq += ["OPTS", str(len(w))] + [x for nm, val in w for x in (nm, "E", hx(val))]
        lines.append("options { r1 = a; r2 = b1; r3 = c0de; }")
        wirereq += ["OPTS", "3", "r1", "E", hx("a"), "r2", "E", hx("b1"), "r3", "E", hx("c0de")]
        text = "\n".join(lines)
        got, _raw = real.parse(text)
        ans = drv.ask(" ".join(["P", "PROG"] + wirereq))
        s.note(text)
        cmp_model(s, {"text": text}, got, None if ans is None else ans.split(" # ")[0])


def rom_expected(cmds):
    """reference commands (canonical operand form) -> what the boot ROM reads (C04's ROM model notation); None if not representable"""
    out = []
    for c in cmds.split(";") if cmds else []:
        f = c.split(":")
        k = f[0]
        if k == "load":
            out.append(("load", int(f[1]), mem_flags(int(f[2])), f[3]))
        elif k == "fill":
            out.append("fill(%d,%d,%d)" % (int(f[1]), int(f[2], 16), int(f[3])))
        elif k == "prog":
            out.append("prog(%d,%d,%d,%d)" % (int(f[1]), int(f[3]), int(f[4]), ((int(f[2]) << 8) & 0xFF00) | (1 if int(f[4]) else 0)))
        elif k == "erase":
            out.append("erase(%d,%d,%d)" % (int(f[1]), int(f[2]), int(f[3])))
        elif k == "enable":
            out.append("memEnable(%d,%d,%d)" % (int(f[1]), int(f[2]), mem_flags(int(f[3]))))
        elif k == "jump":
            out.append("jump(%d,%d,%s)" % (int(f[1]), int(f[2][1:]), "-" if f[3] == "-" else f[3][1:]))
        elif k == "call":
            out.append("call(%d,%d)" % (int(f[1]), int(f[2][1:])))
        elif k == "reset":
            out.append("reset")
        elif k == "vc":
            out.append("fwVersionCheck(%d,%d)" % (int(f[1]), int(f[2][1:])))
        elif k == "ksto":
            out.append("keystoreToNv(%d,%d)" % (int(f[1]), int(f[2]) << 8))
        elif k == "ksfrom":
            out.append("keystoreFromNv(%d,%d)" % (int(f[1]), int(f[2]) << 8))
        else:
            return None
    return out


def rom_match(got, exp):
    """compare the ROM model's command list of one section with the expected one (load data: prefix + 16-byte padded length;
    keywrap output is random by design: address and length only)"""
    import re as _re
    items = _re.findall(r"[A-Za-z]+\([^)]*\)|reset|nop", got)
    if len(items) != len(exp):
        return False
    for g, e in zip(items, exp):
        if isinstance(e, tuple):
            m = _re.fullmatch(r"load\((\d+),(\d+),([0-9a-f]*|-)\)", g)
            if not m or int(m.group(1)) != e[1] or int(m.group(2)) != e[2]:
                return False
            data = "" if m.group(3) == "-" else m.group(3)
            if e[3].startswith("keywrap["):
                if len(data) // 2 != int(e[3][8:-1]):
                    return False
                continue
            want = "" if e[3] == "-" else e[3]
            n = len(want) // 2
            if not data.startswith(want) or len(data) // 2 != (n + 15) // 16 * 16:
                return False
        elif g != e:
            return False
    return True


def undefined_stream(ck, real, drv, rng, envwire):
    """An undefined identifier denotes nothing: a program whose command operand depends on one must be refused."""
    s = ck.stream("undefined_ident", "programs in which a constant is computed from an UNDEFINED identifier with && || ! == != < <= + * (and "
                  "mixed with numbers) and then used as a command operand: implementation vs model (Python str semantics of the operators), "
                  "and the oracle `refused, never translated`; non-trivial = distinct text")
    forms = ["foo && {v}", "{v} && foo", "foo || {v}", "0 || foo", "{v} || foo", "! foo", "foo == foo", "foo != bar", "foo < bar", "foo >= bar",
             "foo == {v}", "foo != {v}", "foo + bar", "foo * 2", "2 * foo", "foo * 0", "! ( foo && 0 )", "foo && bar && {v}", "( foo == bar ) || {v}",
             "foo < {v}", "foo - 1", "foo.b", "- foo", "foo / 2", "foo & 1", "defined(foo) || {v}", "foo"]
    uses = [("jump", "jump {c};", ["jump", "{c}", "a-"]), ("ver", "version_check sec {c};", ["ver", "0", "{c}"]),
            ("fill", "load 0x55 > {c};", ["load", "m-", "dp", hx("0x55"), "ta", "{c}"]),
            ("erase", "erase ({c});", ["erase", "m-", "ta", "{c}"]), ("arg", "jump 0x10 ({c});", ["jump", hx("0x10"), "a1", "{c}"]),
            ("enable", "enable @{c} 0x100;", ["enable", "m@", "{c}", hx("0x100")])]
    for _ in range(ck.budget(150, 3000)):
        v = rng.choice(["0x1000", "4", "0", "1", "0x20000000"])
        form = rng.choice(forms).format(v=v)
        second = rng.random() < 0.3
        consts = [("c", form)]
        cname = "c"
        if second:
            consts.append(("d", rng.choice(["c", "c && 0x10", "c || 8", "! c", "c == 1"])))
            cname = "d"
        kind, txt, w = rng.choice(uses)
        text = "options { flags = 0x8; }\nconstants { %s }\nsection (0) {\n    %s\n}\n" % (
            " ".join("%s = %s;" % cd for cd in consts), txt.format(c=cname))
        wirereq = ["OPTS", "1", "flags", "E", hx("0x8"), "CONSTS", str(len(consts))] + [x for nm, e in consts for x in (nm, hx(e))]
        wirereq += ["SEC", hx("0"), "1"] + [hx(cname) if x == "{c}" else x for x in w]
        inp = {"text": text, "extern": []}
        gotcfg, _raw = real.parse(text)
        gotc, _hdr = real.load(text)
        ans = drv.ask(" ".join(["P"] + envwire + ["PROG"] + wirereq))
        parts = fields(ans, " # ", 4)
        s.note(text, cls=("accepted" if gotc != "E" else "refused") + "/" + kind)
        if ans is not None and parts is None:
            s.compare(inp, "4 fields", ans, "driver rejected the request")
        if parts is not None:
            s.compare(inp, gotcfg, parts[0], "configuration of BDParser.parse differs from the model")
            s.compare(inp, gotc, parts[1], "commands of load_from_config differ from the model")
        # reference: `foo`, `bar` are undefined -> the constant has no value -> the statement has no meaning
        if form.strip() != "foo" and not form.startswith("defined(foo)"):
            s.expect(gotc == "E", inp, "a command operand computed from an undefined identifier is translated instead of refused", gotc, "E",
                     finding="C19-undefined-ident")


def program_streams(ck, real, drv, rng):
    for nm, data in (("f16.bin", bytes(range(16))), ("f5.bin", b"\x01\x02\x03\x04\x05"), ("f600.bin", bytes((i * 7) & 0xFF for i in range(600))),
                     ("empty.bin", b"")):
        real.add_file(nm, data)
    ctx0 = {"mem_names": real.mem_names, "ext_tags": real.ext_tags}
    envwire = []
    for nm, data in real.files.items():
        envwire += ["FILE", hx(nm), hx(data)]
    for nm, v in real.mem_names:
        envwire += ["MEM", nm, str(v)]
    for t in real.ext_tags:
        envwire += ["EXTMEM", str(t)]
    s = ck.stream("programs", "grammar-generated BD programs: options/constants/sources/keyblob blocks in random order (constants referring to earlier "
                  "constants and options, extern(i), several definitions per line), 1..4 sections x 0..8 supported statements (load file/source/"
                  "blob/pattern to address or range, program fuse, erase, enable, call/jump/jump_sp, reset, version_check, keystore, keywrap, "
                  "encrypt) with nested operand expressions and boundary operands; BDParser.parse configuration and load_from_config commands "
                  "vs model vs reference; non-trivial = accepted by load_from_config")
    su = ck.stream("unsupported", "programs with one unsupported construct (if/else, mode, info/warning/error, from, '> .', section lists, "
                   "sizeof, symbol references, source attributes, '<= source', '~') anywhere: must be refused by BDParser.parse and by "
                   "parse_sb21_config/load_from_config; non-trivial = distinct text")
    undefined_stream(ck, real, drv, rng, envwire)
    e2e = ck.stream("end_to_end_cli", "fully supported generated programs: BD text -> `nxpimage sb21 export -c file.bd` through click's CliRunner -> "
                    "SB2.1 file -> decoded by C04's compiled boot ROM model (drv_c04 rom21) -> section ids, header options and the command list "
                    "must be what the BD program states (reference = Spec.cmdOf mirrored in ROM notation); non-trivial = exported")
    rom = ck.driver("drv_c04")
    e2e_budget = ck.budget(80, 1500)
    real.kek_hex = Path(real.kek).read_text().strip()
    n = ck.budget(1000, 17000)
    for it in range(n):
        unsup = rng.random() < 0.12
        prog = gen_program(rng, real, unsup)
        if prog is None:
            continue
        text, wirereq, ref, extern = prog["text"], prog["wire"], prog["ref"], prog["extern"]
        inp = {"text": text, "extern": extern}
        gotcfg, _raw = real.parse(text, extern)
        ans = drv.ask(" ".join(["P"] + ["EXT %s" % hx(e) for e in extern] + envwire + ["PROG"] + wirereq))
        parts = fields(ans, " # ", 4)
        st = su if unsup else s
        if ans is not None and parts is None:
            st.compare(inp, "4 fields", ans, "driver rejected the request")
        mcfg, mcmds, mspec, muids = parts if parts is not None else (None, None, None, None)
        cmp_model(st, inp, gotcfg, mcfg, "configuration of BDParser.parse differs from the model")
        if unsup:
            gotc, _h = real.load(text, extern)
            st.note(text, cls=prog["unsup_kind"])
            st.expect(gotcfg == "E", inp, "an unsupported construct is not refused by the BD parser", gotcfg, "E")
            st.expect(gotc == "E", inp, "an unsupported construct is not refused by parse_sb21_config/load_from_config", gotc, "E")
            continue
        # configuration oracle: options / keyblobs / sources resolve to their definitions, one dictionary per statement
        if ref["config"] is not None and gotcfg != "E" and not gotcfg.startswith("E:"):
            f = gotcfg.split(" ")
            import re as _re
            head = " ".join(f[:3]) + " sections:" + ",".join(_re.findall(r"(?:(?<=\[)|(?<=\|))([is][^:]*):\(", f[3])) if len(f) == 4 else gotcfg
            st.expect(head == ref["config"], inp, "the configuration is not what the definitions say (options, sources, key blobs and "
                      "section ids resolve to their definitions)", head, ref["config"])
            ncmd = [len([c for c in sec.split(";") if c]) for sec in _re.findall(r":\(([^)]*)\)", f[3])] if len(f) == 4 else []
            st.expect(ncmd == [len(sec) for sec in prog["sections"]], inp, "the parser does not deliver one command dictionary per statement",
                      ncmd, [len(sec) for sec in prog["sections"]])
        gotc, hdr = real.load(text, extern)
        st.expect(gotc != "HANG", inp, "load_from_config does not terminate on this program (an unsupported operand must be refused with an error)",
                  gotc, "a result or an error")
        # model commands: crypto operands -> bytes via SPSDK's KeyBlob (correspondence only; a malformed answer is a disagreement)
        if mcmds is not None:
            try:
                mc = crypto_expand(real, mcmds)
                st.compare(inp, mask_keywrap(gotc, mc), mc, "commands of load_from_config differ from the model")
            except (ValueError, IndexError):
                st.compare(inp, gotc, mcmds, "commands of load_from_config differ from the model (answer not in command notation)")
        # the Lean Spec and the reference agree statement by statement
        refspec = "|".join(";".join(c if c is not None else "?" for c in sec) for sec in ref["cmds"])
        cmp_model(st, inp, refspec, mspec, "Lean Spec.cmdOf differs from the harness's statement reference")
        st.note(text, nontrivial=gotc != "E", cls="accepted" if gotc != "E" else "refused")
        if real.last_uids is not None and gotc != "E":
            got_u = ",".join(str(u) for u in real.last_uids)
            want_u = ",".join(str(x) for x in prog["section_ids"])
            if muids is not None:
                m_u, _sep, s_u = muids.partition(";")
                st.compare(inp, got_u, m_u, "boot section ids of load_from_config differ from the model")
                st.compare(inp, want_u, s_u, "Lean Spec.sectionUids differs from the ids the generator wrote")
            st.expect(got_u == want_u, inp, "a boot section does not carry the id written in `section (id)`", got_u, want_u)
        for k in prog["kinds"]:
            st.hist["stmt:" + k] = st.hist.get("stmt:" + k, 0) + 1
        # oracle: every supported statement -> exactly the stated command
        all_supported = all(c is not None for sec in ref["cmds"] for c in sec) and ref["header"] is not None
        if all_supported:
            # expected commands and the known-finding predicates: reference and input only (never the model's answer)
            want = crypto_expand(real, refspec)
            got_w = mask_keywrap(gotc, want)
            finding = None
            if got_w != want and gotc != "E":
                # known findings: localise the differing statements
                finding = classify_known(prog, got_w, want)
            elif gotc == "E" and want != "E":
                finding = classify_known_refusal(prog)
            st.expect(got_w == want, inp, "a supported statement does not become exactly the one command with the stated "
                      "operands", gotc, want, finding=finding)
            if hdr is not None and gotc != "E":
                st.expect(hdr == ref["header"], inp, "flags / versions / build number of the options block are not the ones in the image header",
                          list(hdr), list(ref["header"]))
            # ---- end to end: BD text -> `nxpimage sb21 export` (CliRunner) -> SB file -> boot ROM model of C04 -> command list
            if rom is not None and e2e.evaluations < e2e_budget and gotc != "E" and finding is None and want != "E" \
                    and mask_keywrap(gotc, want) == want and all(len(sec) > 0 for sec in prog["sections"]):
                exp_secs = [rom_expected(sec) for sec in want.split("|")]
                if all(x is not None for x in exp_secs):
                    blob = real.cli_export(text, extern)
                    e2e.note(text, nontrivial=blob not in (None, "HANG"), cls="exported" if blob not in (None, "HANG") else "cli-failed")
                    e2e.expect(blob not in (None, "HANG"), inp, "`nxpimage sb21 export` fails on a program of supported statements that "
                               "load_from_config accepts", "exit != 0", "an SB file")
                    if blob not in (None, "HANG"):
                        ra = rom.ask("rom21 %s %s" % (real.kek_hex, blob.hex()))
                        ok = ra.startswith("ok:") and "sections=" in ra
                        if not ok and not ra.startswith("E:rom:"):
                            # neither a decoded file nor a rejection by the ROM: the ROM reference gave no usable answer
                            e2e.compare(inp, "ok:… | E:rom:…", ra[:120], "the boot ROM reference (drv_c04 rom21) gave no usable answer")
                            continue
                        e2e.expect(ok, inp, "the boot ROM model does not accept the SB file produced from the BD program", ra[:120], "ok:…")
                        if ok:
                            secs = ra[ra.index("sections=") + 9:].split("|") if ra[ra.index("sections=") + 9:] else []
                            if not all("[" in g and g.split(":")[0].isdigit() for g in secs):
                                e2e.compare(inp, "id:[commands]|…", ra[ra.index("sections="):][:120], "answer of the boot ROM reference is not in "
                                            "section notation")
                                continue
                            good = len(secs) == len(exp_secs) and all(rom_match(g[g.index("["):], e) for g, e in zip(secs, exp_secs))
                            e2e.expect(good, inp, "the command list the boot ROM reads from the produced SB file is not the one the BD program "
                                       "states (one command per statement, stated operands)", ra[ra.index("sections="):][:600], str(exp_secs)[:600])
                            got_ids = [int(g.split(":")[0]) for g in secs]
                            e2e.expect(got_ids == prog["section_ids"], inp, "a section of the SB file does not carry the id written in `section (id)`",
                                       got_ids, prog["section_ids"],
                 )
                            import re as _re
                            hd = dict(_re.findall(r"(flags|pv|cv|bn)=([^;]*);", ra[:ra.index("sections=")]))
                            want_h = {"flags": str(ref["header"][0]), "pv": ".".join(str(int(x, 16)) for x in ref["header"][1].split(".")),
                                      "cv": ".".join(str(int(x, 16)) for x in ref["header"][2].split(".")), "bn": str(ref["header"][3])}
                            e2e.expect(hd == want_h, inp, "header of the SB file: flags / versions / build number are not those of the options block",
                                       hd, want_h)
        else:
            # statements outside the supported subset: whatever is accepted must still be right for the supported ones
            if gotc != "E":
                got_secs = [x.split(";") if x else [] for x in gotc.split("|")]
                ok_shape = len(got_secs) == len(ref["cmds"]) and all(len(g) == len(r) for g, r in zip(got_secs, ref["cmds"]))
                st.expect(ok_shape, inp, "the number of commands is not the number of statements", gotc, refspec)
                if ok_shape:
                    for si, (g, r) in enumerate(zip(got_secs, ref["cmds"])):
                        for ci, (gc, rc) in enumerate(zip(g, r)):
                            if rc is not None:
                                w = crypto_expand(real, rc)
                                fnd = classify_known_stmt(prog["sections"][si][ci], prog)
                                st.expect(mask_keywrap(gc, w) == w, inp, "a supported statement does not become exactly the one command with the "
                                          "stated operands", gc, w, finding=fnd)


def crypto_expand(real, cmds):
    if cmds == "E":
        return "E"
    out_secs = []
    for sec in cmds.split("|"):
        out = []
        for c in sec.split(";") if sec else []:
            if c.startswith("crypto:"):
                _c, kind, addr, st, en, key, ctr, inp, swap = c.split(":")
                r = pyres(real.crypto, kind, int(addr), int(st), int(en), key, ctr, inp, swap)
                if r[0] != "ok":
                    return "E"
                out.append(r[1])
            else:
                out.append(c)
        out_secs.append(";".join(out))
    return "|".join(out_secs)


def mask_keywrap(got, want):
    """keywrap output is randomised by design (KeyBlob.plain_data draws 4 random bytes): compare address and length only"""
    if got in ("E",) or want == "E" or got.startswith("E:"):
        return got
    gs, ws = got.split("|"), want.split("|")
    if len(gs) != len(ws):
        return got
    out = []
    for g, w in zip(gs, ws):
        gc, wc = (g.split(";") if g else []), (w.split(";") if w else [])
        if len(gc) != len(wc):
            return got
        row = []
        for a, b in zip(gc, wc):
            if b.startswith("load:") and ":keywrap[" in b and a.startswith("load:") and ":keywrap[" not in a:
                p = a.split(":")
                row.append("load:%s:%s:keywrap[%d]" % (p[1], p[2], 0 if p[3] == "-" else len(p[3]) // 2))
            else:
                row.append(a)
        out.append(";".join(row))
    return "|".join(out)


def classify_known_stmt(stmt, prog):
    m = stmt.get("ref_mem")
    if is_plain_blob_load(stmt, m):
        return "C19-blob-load"
    if is_prog_blob_zeros(stmt, m):
        return "C19-prog-blob-zeros"
    return None


def classify_known(prog, got, want):
    """the run differs from the reference: if every differing statement is one of the known blob forms, name the finding"""
    gs, ws = got.split("|"), want.split("|")
    if len(gs) != len(ws):
        return None
    found = None
    for si, (g, w) in enumerate(zip(gs, ws)):
        gc, wc = (g.split(";") if g else []), (w.split(";") if w else [])
        if len(gc) != len(wc):
            return None
        for ci, (a, b) in enumerate(zip(gc, wc)):
            if a != b:
                f = classify_known_stmt(prog["sections"][si][ci], prog)
                if f is None:
                    return None
                found = found or f
    return found


def classify_known_refusal(prog):
    """refused although every statement is supported: known when the program contains a plain blob load that the
    implementation refuses (more than 4 bytes) and nothing else can explain it — decided by re-running without them"""
    blobs = [st for sec in prog["sections"] for st in sec if is_plain_blob_load(st, st.get("ref_mem")) and len(st["data"][1]) > 8]
    if blobs and prog.get("only_blob_refusal"):
        return "C19-blob-load"
    return None


# ---------------------------------------------------------------------------------------------- program generator
ADDR_POOL = [0, 4, 0x10, 0x100, 0x1000, 0x8000, 0x20000000, 0x08001000, 0xFFFFFFF0, 0xFFFFFFFC, 0xFFFFFFFF]


def gen_program(rng, real, unsup):
    # `risky` programs may contain statements SPSDK refuses (call, reset, missing files, unknown memories, out-of-range
    # addresses, odd blob sizes …); the others consist of supported statements only, so that most programs are accepted
    risky = rng.random() < 0.3
    long_blob = (not risky) and (not unsup) and rng.random() < 0.06   # dedicated: ONE plain blob load of more than 4 bytes
    call_reset = (not risky) and (not unsup) and (not long_blob) and rng.random() < 0.05   # dedicated: only call / reset statements
    env = {}          # reference environment: name -> int | str
    blocks_text, wirereq = [], []
    sources, keyblobs = {}, []
    extern = [nm for nm in rng.sample(["f16.bin", "f5.bin", "f600.bin"], rng.choice([0, 1, 2, 3]))]
    names_int = []
    asts = []         # (ast) to print in one driver batch: filled lazily through `T`
    texts = {}

    class T:
        """deferred expression text"""
        def __init__(self, ast):
            self.ast = ast
            asts.append(self)
            self.text = None

    def E(ast):
        return T(ast)

    def ev(ast):
        return ref_eval(ast, env)

    def mk_int(v, names):
        """an expression with value v (built around constants / arithmetic), or a random one when v is None"""
        form = rng.random()
        if form < 0.35 or v > 0xFFFFFFFFFF:
            return ("L", v)
        if form < 0.55:
            k = rng.choice([1, 4, 0x10, 0x100, 0x1000])
            return ("B", "+", ("L", v - k), ("L", k)) if v >= k else ("B", "-", ("L", v + k), ("L", k))
        if form < 0.65 and names:
            nm = rng.choice(names)
            c = env[nm]
            if isinstance(c, int):
                return ("B", "+", ("V", nm), ("L", v - c)) if v >= c else ("B", "-", ("V", nm), ("L", c - v))
        if form < 0.75:
            k = rng.choice([2, 3, 16])
            return ("B", "/", ("B", "*", ("L", v), ("L", k)), ("L", k))
        if form < 0.85:
            return ("B", "|", ("L", v & ~0xFF), ("L", v & 0xFF))
        if form < 0.92 and v < (1 << 32):
            return ("Z", "w", ("B", "+", ("L", v), ("L", 1 << 32)))
        return ("B", "<<", ("L", v >> 4), ("L", 4)) if v % 16 == 0 else ("B", "^", ("L", v ^ 0x5A), ("L", 0x5A))

    # ---- pre-section blocks
    nblocks = rng.choice([1, 2, 3, 4, 5])
    kinds = ["options"] + [rng.choice(["options", "constants", "constants", "sources", "keyblob"]) for _ in range(nblocks)]
    rng.shuffle(kinds)
    opt_names_used = set()
    header = {"flags": None, "productVersion": "1.0.0", "componentVersion": "1.0.0", "buildNumber": 1}
    options_ref = {}
    cfg_ok = True
    block_recs = []
    cnt = 0
    for bk in kinds:
        if bk == "options":
            defs = []
            for _ in range(rng.choice([0, 1, 2, 3, 4])):
                which = rng.random()
                if which < 0.2:
                    nm, val = "flags", rng.choice([0x8, 0x8008, 0xC])
                    defs.append((nm, "E", E(mk_int(val, names_int)), val))
                elif which < 0.3:
                    nm, val = "buildNumber", rng.choice([1, 2, 0x10, 0xFFFF])
                    defs.append((nm, "E", E(mk_int(val, names_int)), val))
                elif which < 0.45:
                    nm = rng.choice(["productVersion", "componentVersion"])
                    val = rng.choice(["1.00.00", "2.3.4", "10.20.30"])
                    defs.append((nm, "S", val, val))
                elif which < 0.55:
                    nm, val = "secureBinaryVersion", "2.1"
                    defs.append((nm, "S", val, val))
                else:
                    cnt += 1
                    nm = "opt%d" % cnt
                    if rng.random() < 0.7:
                        b = gen_bexpr(rng, rng.choice([0, 1, 2]), names_int, 2)
                        try:
                            val = ref_eval(b, env)
                        except (RefErr, Huge):
                            continue
                        if not isinstance(val, int):
                            continue
                        defs.append((nm, "E", E(b), val))
                    else:
                        val = rng.choice(["str", "a.b", ""])
                        defs.append((nm, "S", val, val))
                if nm in opt_names_used or nm in env:
                    defs.pop()
                    continue
                opt_names_used.add(nm)
                env[nm] = val
                options_ref[nm] = val
                if isinstance(val, int) and not nm.startswith("opt"):
                    pass
                if isinstance(val, int):
                    names_int.append(nm)
                if nm in header:
                    header[nm] = val
            block_recs.append(("options", defs))
        elif bk == "constants":
            defs = []
            for _ in range(rng.choice([1, 2, 3, 5])):
                cnt += 1
                nm = rng.choice(["c%d", "K%d", "addr_%d", "c0de%d", "face%d"]) % cnt
                b = gen_bexpr(rng, rng.choice([0, 0, 1]), names_int, rng.choice([0, 1, 2, 3]))
                try:
                    val = ref_eval(b, env)
                except (RefErr, Huge):
                    continue
                if not isinstance(val, int) or abs(val) > (1 << 64):
                    continue
                defs.append((nm, E(b), val))
                env[nm] = val
                names_int.append(nm)
            block_recs.append(("constants", defs))
        elif bk == "sources":
            defs = []
            for _ in range(rng.choice([1, 2, 3])):
                cnt += 1
                nm = "src%d" % cnt
                if extern and rng.random() < 0.5:
                    i = rng.randrange(len(extern))
                    defs.append((nm, "X", E(mk_int(i, names_int)), extern[i]))
                    sources[nm] = extern[i]
                else:
                    p = rng.choice(["f16.bin", "f5.bin", "f600.bin", "empty.bin"] + (["missing.bin"] if risky else []))
                    defs.append((nm, "P", p, p))
                    sources[nm] = p
            block_recs.append(("sources", defs))
        else:
            kid = rng.choice([k for k in [0, 1, 2, 3] if risky or k not in [b["id"] for b in keyblobs]] or [7])
            start = rng.choice([0x08000000, 0x08001000, 0x10000000])
            end = start + (rng.choice([0x3FF, 0xFFF, 0x400, 0x7FF]) if risky else rng.choice([0x3FF, 0xFFF, 0x7FF]))
            key = "".join(rng.choice("0123456789abcdefABCDEF") for _ in range(32))
            ctr = "".join(rng.choice("0123456789abcdef") for _ in range(16))
            opts = [("start", "E", E(mk_int(start, names_int)), start), ("end", "E", E(mk_int(end, names_int)), end),
                    ("key", "S", key, key), ("counter", "S", ctr, ctr)]
            if rng.random() < 0.45:
                bsw = rng.choice([0, 0, 1, 1, 2])
                opts.append(("byteSwap", "E", E(("L", bsw)), bsw))
            if risky and rng.random() < 0.2:
                opts.pop(rng.randrange(4))
            rng.shuffle(opts)
            block_recs.append(("keyblob", E(mk_int(kid, names_int)), opts, kid))
            keyblobs.append({"id": kid, "content": {o[0]: o[3] for o in opts}})
    # ---- sections
    ctx = {"mem_names": real.mem_names, "ext_tags": real.ext_tags, "files": real.files, "sources": sources, "keyblobs": keyblobs}
    src_names = list(sources)
    nsec = rng.choice([1, 1, 2, 3, 4])
    sections, sec_recs = [], []
    unsup_at = (rng.randrange(nsec), None) if unsup else None
    unsup_kind = None

    def addr_expr():
        return E(mk_int(rng.choice(ADDR_POOL + [rng.getrandbits(32) & ~3, rng.getrandbits(20)]) if (not risky or rng.random() < 0.9)
                        else rng.choice([0x100000000, 0x1FFFFFFFF]), names_int))

    def mem_opt(allow_name=True, pool=None):
        r = rng.random()
        if r < 0.5:
            return None
        if r < 0.8 or not allow_name:
            v = rng.choice(pool or [0, 1, 4, 8, 9, 0x10, 0x100, 0x101, 0x110, 0x120, 0x121, 288])
            return ("@", E(mk_int(v, names_int)))
        return ("n", rng.choice([n for n, _v in real.mem_names] + (["nosuchmem"] if risky else [])))

    def target(allow_range=True, aligned=False):
        if allow_range and rng.random() < 0.45:
            a = rng.choice(ADDR_POOL[:9] + [rng.getrandbits(24)])
            ln = rng.choice([4, 8, 0x100, 0x1000, 0x10000, 0x7FC] + ([] if aligned else [0, 1, 2, 3, 0x6A5, rng.getrandbits(12)]))
            if risky and rng.random() < 0.1:
                ln = rng.choice([-4, -16, 0])
            return ("r", E(mk_int(a, names_int)), E(mk_int(max(a + ln, 0), names_int)))
        return ("a", addr_expr())

    def gen_stmt():
        k = rng.choices(["load_file", "load_blob", "load_pattern", "load_prog", "erase", "eraseall", "eraseunsec", "enable", "jump", "call",
                         "jumpsp", "reset", "ver", "ks", "keywrap", "encrypt"],
                        [14, 7, 14, 7, 9, 4, 2, 6, 6, 3, 4, 2, 5, 5, 4, 4] if not call_reset else
                        [0, 0, 0, 0, 0, 0, 0, 0, 0, 3, 0, 1, 0, 0, 0, 0])[0]
        if k == "load_file":
            d = ("source", rng.choice(src_names)) if src_names and rng.random() < 0.6 else ("file", rng.choice(["f16.bin", "f5.bin", "f600.bin"] + (["missing.bin"] if risky else [])))
            return {"kind": "load", "opt": mem_opt(), "data": d, "target": target(allow_range=risky and rng.random() < 0.2)}
        if k == "load_blob":
            nb = rng.choice([1, 2, 3, 4, 4, 4])   # longer plain blobs: only in the dedicated `long_blob` programs
            hexs = "".join(rng.choice("0123456789abcdefABCDEF") for _ in range(2 * nb))
            txt = " ".join(hexs[i:i + 2] for i in range(0, len(hexs), 2)) if rng.random() < 0.5 else hexs
            return {"kind": "load", "opt": mem_opt(pool=[0, 1, 8, 9, 288]), "data": ("blob", hexs, txt), "target": ("a", addr_expr())}
        if k == "load_pattern":
            v = rng.choice([0, 0x55, 0xFF, 0x1122, 0xFFFF, 0x112233, 0x12345678, 0xFFFFFFFF, 0x100000000, rng.getrandbits(32)])
            a = mk_int(v, names_int)
            if rng.random() < 0.3 and v < 0x10000:
                a = ("Z", rng.choice("bhw"), ("L", v | rng.choice([0, 0x10000, 0x100000000])))
            if a[0] in ("V",):
                a = ("L", v)
            return {"kind": "load", "opt": None, "data": ("pattern", E(a)), "target": target(aligned=not risky or rng.random() < 0.5)}
        if k == "load_prog":
            opt = rng.choice([("@", E(mk_int(4, names_int))), ("n", "fuse"), ("n", "ifr")])
            if rng.random() < 0.5:
                nb = rng.choice([4, 4, 8, 8, 2, 12]) if risky else rng.choice([4, 8])
                hexs = "".join(rng.choice("0123456789abcdef") for _ in range(2 * nb))
                if nb == 8 and rng.random() < 0.25:
                    hexs = "00000000" + hexs[8:]
                d = ("blob", hexs, " ".join(hexs[i:i + 2] for i in range(0, len(hexs), 2)))
            else:
                v = rng.choice([1, 0xaabb, 0xffffffff, rng.getrandbits(32) | 1] + ([0, 0x100000000, -1, -0x100] if risky else []))
                pa = mk_int(v, names_int) if v >= 0 else ("N", ("L", -v))
                if pa[0] == "V":
                    pa = ("L", v)
                d = ("pattern", E(pa))
            return {"kind": "load", "opt": opt, "data": d, "target": ("a", addr_expr())}
        if k == "erase":
            return {"kind": "erase", "opt": mem_opt(), "target": target()}
        if k == "eraseall":
            return {"kind": "eraseall", "opt": mem_opt()}
        if k == "eraseunsec":
            return {"kind": "eraseunsec"}
        if k == "enable":
            return {"kind": "enable", "opt": mem_opt(), "e": addr_expr()}
        if k in ("jump", "call"):
            arg = rng.choice([None, "empty", "e"])
            return {"kind": k, "e": addr_expr(), "arg": E(mk_int(rng.getrandbits(32), names_int)) if arg == "e" else arg}
        if k == "jumpsp":
            arg = rng.choice([None, "empty", "e"])
            return {"kind": "jumpsp", "sp": E(mk_int(rng.choice([0, 0x20000e00, 0x2000]), names_int)), "e": addr_expr(),
                    "arg": E(mk_int(rng.getrandbits(32), names_int)) if arg == "e" else arg}
        if k == "reset":
            return {"kind": "reset"}
        if k == "ver":
            return {"kind": "ver", "nsec": rng.random() < 0.5, "e": E(mk_int(rng.choice([0, 1, 2, 0xafbc, 0xFFFFFFFF]), names_int))}
        if k == "ks":
            if not risky:
                return {"kind": rng.choice(["ksto", "ksfrom"]), "opt": ("@", E(mk_int(rng.choice([t for t in real.ext_tags if t <= 0xFF]), names_int))),
                        "target": ("a", addr_expr())}
            return {"kind": rng.choice(["ksto", "ksfrom"]), "opt": mem_opt(allow_name=rng.random() < 0.1, pool=[9, 9, 1, 8, 0x10, 0x100, 3]) if rng.random() < 0.95 else None,
                    "target": target(allow_range=rng.random() < 0.1)}
        if k == "keywrap":
            hexs = "".join(rng.choice("0123456789abcdef") for _ in range(32 if (not risky or rng.random() < 0.8) else 8))
            if not keyblobs and not risky:
                return {"kind": "eraseunsec"}
            return {"kind": "keywrap", "id": E(mk_int(rng.choice([0, 1, 2, 3]) if risky else rng.choice(keyblobs)["id"], names_int)), "blob": hexs, "blobtext": hexs, "addr": addr_expr()}
        d = ("source", rng.choice(src_names)) if src_names and rng.random() < 0.6 else ("file", rng.choice(["f16.bin", "f600.bin"]))
        if risky and rng.random() < 0.3:
            d = ("blob", "aabbccdd", "aa bb cc dd")
        if not keyblobs and not risky:
            return {"kind": "eraseunsec"}
        return {"kind": "encrypt", "id": E(mk_int(rng.choice([0, 1, 2, 3]) if risky else rng.choice(keyblobs)["id"], names_int)), "opt": None, "data": d,
                "target": ("a", E(mk_int(rng.choice([0x08000000, 0x08001000, 0x10000000, 0x08000200]), names_int)))}
    if long_blob or call_reset:
        nsec = 1
    for si in range(nsec):
        stmts = [gen_stmt() for _ in range(rng.choice([0, 1, 2, 3, 4, 5, 6, 7, 8]) if not call_reset else rng.choice([1, 2, 3]))]
        if long_blob:
            nb = rng.choice([5, 6, 8, 8, 16, 32])
            hexs = "".join(rng.choice("0123456789abcdefABCDEF") for _ in range(2 * nb))
            stmts = [{"kind": "load", "opt": mem_opt(pool=[0, 1, 8, 9, 288]), "data": ("blob", hexs, " ".join(hexs[i:i + 2] for i in range(0, len(hexs), 2))),
                      "target": ("a", addr_expr())}]
        if unsup and unsup_at[0] == si:
            what, txt = rng.choice(UNSUPPORTED)
            if "SRC" in txt:
                if not src_names:
                    what, txt = "mode", "mode 1;"
                else:
                    txt = txt.replace("SRC", src_names[0])
            unsup_kind = what
            stmts.insert(rng.randint(0, len(stmts)), {"kind": "unsup", "what": what, "text": txt})
        sid = rng.choice([0, 1, 2, 5, 7])
        sections.append(stmts)
        sec_recs.append((E(mk_int(sid, names_int)), sid, stmts))
    # ---- print all expressions with the harness's reference printer (minimal parentheses for the documented levels)
    for t in asts:
        try:
            toks = py_tokens(t.ast)
        except ValueError:
            return None
        t.text = render(toks, rng, plain=rng.random() < 0.5)
        if t.text is None:
            return None

    def et(t):
        return t.text

    def ew(t):
        return hx(t.text)
    # ---- text + wire + reference configuration
    lines = []
    wirereq = []
    cfg_opts, cfg_kbs, have_sources = None, [], False
    for rec in block_recs:
        if rec[0] == "options":
            defs = rec[1]
            body = []
            wirereq += ["OPTS", str(len(defs))]
            for nm, kind, payload, val in defs:
                if kind == "E":
                    body.append("%s = %s;" % (nm, et(payload)))
                    wirereq += [nm, "E", ew(payload)]
                else:
                    body.append('%s = "%s";' % (nm, payload))
                    wirereq += [nm, "S", hx(payload)]
            lines.append("options {" + join_defs(rng, body) + "}")
            cfg_opts = dict(cfg_opts or {})
            for nm, _k, _p, val in defs:
                cfg_opts[nm] = val
        elif rec[0] == "constants":
            defs = rec[1]
            wirereq += ["CONSTS", str(len(defs))]
            body = []
            for nm, t, _val in defs:
                body.append("%s = %s;" % (nm, et(t)))
                wirereq += [nm, ew(t)]
            lines.append("constants {" + join_defs(rng, body) + "}")
        elif rec[0] == "sources":
            body = []
            for nm, kind, payload, _p in rec[1]:
                if kind == "X":
                    body.append("%s = extern(%s);" % (nm, et(payload)))
                    wirereq += ["SRC", nm, "X", ew(payload)]
                else:
                    body.append('%s = "%s";' % (nm, payload))
                    wirereq += ["SRC", nm, "P", hx(payload)]
            lines.append("sources {" + join_defs(rng, body) + "}")
            have_sources = True
        else:
            _k, idt, opts, kid = rec
            body = []
            wirereq += ["KB", ew(idt), str(len(opts))]
            for nm, kind, payload, val in opts:
                if kind == "E":
                    body.append("%s = %s" % (nm, et(payload)))
                    wirereq += [nm, "E", ew(payload)]
                else:
                    body.append('%s = "%s"' % (nm, payload))
                    wirereq += [nm, "S", hx(payload)]
            sep = rng.choice([", ", ",\n   ", " , "])
            lines.append("keyblob (%s) { ( %s ) }" % (et(idt), sep.join(body)))
            cfg_kbs.append((kid, {o[0]: o[3] for o in opts}))
    ref_cmds = []
    kinds_used = []
    sec_cfg = []
    for idt, sid, stmts in sec_recs:
        body = []
        wirereq += ["SEC", ew(idt), str(len(stmts))]
        row = []
        for st in stmts:
            body.append(stmt_text(st, et))
            wirereq += stmt_wire(st, ew)
            kinds_used.append(st["kind"])
            st_ast = ast_view(st)
            # memory id by the reference (for the known-finding predicates)
            try:
                o = st.get("opt")
                st["ref_mem"] = 0 if o is None else (ref_eval(o[1].ast, env) if o[0] == "@" else dict(real.mem_names).get(o[1]))
            except (RefErr, Huge):
                st["ref_mem"] = None
            if st["kind"] == "encrypt":
                try:
                    kid_v = ref_eval(st["id"].ast, env)
                    st["ref_swap"] = any(b["id"] == kid_v and isinstance(b["content"].get("byteSwap", 0), int) and b["content"].get("byteSwap", 0)
                                         for b in keyblobs[:1 + [i for i, b in enumerate(keyblobs) if b["id"] == kid_v][0]]) if any(b["id"] == kid_v for b in keyblobs) else False
                except (RefErr, Huge):
                    st["ref_swap"] = False
            row.append(stmt_ref(st_ast, ev, ctx))
        ref_cmds.append(row)
        lines.append("section (%s) {\n    %s\n}" % (et(idt), join_defs(rng, body, stmt=True)))
        sec_cfg.append(sid)
    text = "\n".join(lines) + "\n"
    # reference header
    flags = header["flags"] if header["flags"] is not None else 0x8 | 0x8000
    hdr = (flags, bcd(header["productVersion"]), bcd(header["componentVersion"]), header["buildNumber"])
    only_blob_refusal = long_blob
    # reference configuration head: options, key blobs and sources resolve to their definitions
    ref_head = (("O" + dict_canon(cfg_opts)) if cfg_opts is not None else "O-") + " K[" + ";".join(
        dval_canon(kid) + dict_canon(c) for kid, c in cfg_kbs) + "] " + (("S" + dict_canon(sources)) if have_sources else "S-")
    ref_head += " sections:" + ",".join(dval_canon(x) for x in sec_cfg)
    return {"text": text, "wire": wirereq, "extern": extern, "sections": sections, "kinds": kinds_used, "unsup_kind": unsup_kind,
            "ref": {"config": ref_head, "cmds": ref_cmds, "header": hdr}, "only_blob_refusal": only_blob_refusal,
            "only_call_reset": call_reset, "section_ids": sec_cfg}


def bcd(v):
    # BcdVersion3 prints each component as its hexadecimal BCD digits without leading zeros
    return ".".join("%X" % int(p, 16) for p in v.split("."))


def ast_view(st):
    """statement record with the deferred texts replaced by their syntax trees (what the reference evaluates)"""
    def conv(x):
        if hasattr(x, "ast"):
            return x.ast
        if isinstance(x, tuple):
            return tuple(conv(y) for y in x)
        return x
    return {k: conv(v) for k, v in st.items()}


def join_defs(rng, items, stmt=False):
    if not items:
        return rng.choice(["", " ", "\n"])
    out = " " if not stmt else ""
    for it in items:
        out += it + rng.choice([" ", "\n    ", "  ", " // c\n    ", " /* c */ ", "\n# c\n    "])
    return out


def replay(ck, data):
    """Re-evaluate the stored inputs of a replay file on the implementation (property oracle), then the quick sweep."""
    real = Real(ck)
    s = ck.stream("replay", "stored failing inputs")
    for case in data.get("cases", []):
        inp = case.get("input") or {}
        if isinstance(inp, dict) and "text" in inp and "extern" not in inp:
            got = real.value(inp["text"], inp.get("pre", ""))
            s.note(inp["text"])
            s.expect(got == case.get("expected"), inp, case.get("what", "replayed expectation"), got, case.get("expected"), finding=case.get("finding"))
        elif isinstance(inp, dict) and "text" in inp:
            for nm, dat in (("f16.bin", bytes(range(16))), ("f5.bin", b"\x01\x02\x03\x04\x05"),
                            ("f600.bin", bytes((i * 7) & 0xFF for i in range(600))), ("empty.bin", b"")):
                real.add_file(nm, dat)
            gotc, _h = real.load(inp["text"], inp.get("extern"))
            s.note(inp["text"])
            exp = case.get("expected")
            if isinstance(exp, str):
                s.expect(mask_keywrap(gotc, exp) == exp, inp, case.get("what", "replayed expectation"), gotc, exp, finding=case.get("finding"))
    run(ck)
