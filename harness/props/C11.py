"""C11 - registers and bit-fields behave as independent bit-vectors (spsdk/utils/registers.py).

Layouts are generated from a grammar, turned into an in-memory spec dict and loaded with
`Registers._load_from_spec`; random op sequences are applied to the real object and to the Lean
model (`drv_c11`), and after *every* op the complete observable state (raw + processed register
values, every bit-field value) is compared.  Independently the property oracle keeps its own
"last written value" map (the abstract spec of the refinement theorem) and checks the real object
against it, plus export/parse, config round trip and purity of read-only queries.

Extension (stream `config_model`): `get_config()` / `load_yml_config()` / alternative widths of the real object are
compared with the model functions `getConfig` / `loadConfig` / `setAlt` / `getAlt` on layouts with hidden bit-fields,
enum names shared by several values, reserved registers, reversed and alt-width groups; the configuration clauses of
the property (round trip, written by enum name, loaded value reads back, loading twice = once) are evaluated on the
real object alone.
"""
from __future__ import annotations

import copy

from vcore import canon, hexs, pyres


def gen_layout(rng, allow_reverse=True):
    """-> list of register descriptors (contiguous offsets)."""
    regs = []
    off = 0
    nregs = rng.choice([1, 2, 3, 4])
    for ri in range(nregs):
        kind = rng.choices(["plain", "group"], [0.8, 0.2])[0]
        if kind == "plain":
            width = rng.choice([8, 16, 32, 32, 32, 64, 128, 256, 512])
            fields = []
            pos = 0
            if rng.random() < 0.85:
                while pos < width and len(fields) < 10:
                    if rng.random() < 0.25:  # gap
                        pos += rng.choice([1, 2, 3, 8])
                        continue
                    w = rng.choice([1, 1, 2, 3, 4, 7, 8, 13, 16, 31, 32, width - pos, width])
                    w = max(1, min(w, width - pos))
                    shift = rng.choice([0, 0, 0, 0, 1, 4]) if w < 30 else 0
                    enums = sorted(rng.sample(range(0, min(1 << w, 64)), k=min(rng.choice([0, 0, 2, 3]), 1 << w)))
                    reset = rng.choice([0, 0, 1, (1 << w) - 1, rng.randrange(1 << w)])
                    fields.append(dict(offset=pos, width=w, shift=shift, enums=enums, reset=reset << shift))
                    pos += w
            reverse = False  # Register.create_from_spec always passes reverse=False; only groups can be reversed
            reset_raw = rng.choice([0, 0, rng.getrandbits(width)])
            regs.append(dict(kind="plain", width=width, offset=off, reverse=reverse, reset=reset_raw, fields=fields))
            off += width // 8
        else:
            sub_w = rng.choice([8, 16, 32])
            n = rng.choice([2, 3, 4, 8])
            regs.append(dict(kind="group", width=sub_w * n, offset=off, sub_w=sub_w, n=n,
                             reverse=allow_reverse and rng.random() < 0.3, rev_subs=rng.random() < 0.4,
                             sub_resets=[rng.choice([0, rng.getrandbits(sub_w)]) for _ in range(n)]))
            off += sub_w * n // 8
    return regs


def to_spec(layout):
    """spec dict + grouped_regs list for Registers._load_from_spec."""
    spec_regs, grouped = [], []
    for ri, r in enumerate(layout):
        if r["kind"] == "plain":
            bfs, pos = [], 0
            for fi, f in enumerate(r["fields"]):
                if f["offset"] != pos:
                    bfs.append({"width": f["offset"] - pos})
                b = {"id": f"r{ri}f{fi}", "name": f"F{ri}_{fi}", "width": f["width"], "access": "RW",
                     "reset_value_int": hex(f["reset"] >> f["shift"]) if False else hex(f["reset"]),
                     "values": [{"name": f"E{k}", "value": hex(v), "description": ""} for k, v in enumerate(f["enums"])]}
                if f["shift"]:
                    b["config_preprocess"] = f"SHIFT_RIGHT:COUNT={f['shift']}"
                bfs.append(b)
                pos = f["offset"] + f["width"]
            spec_regs.append({"id": f"r{ri}", "name": f"REG{ri}", "offset_int": hex(r["offset"]), "reg_width": r["width"],
                              "reset_value_int": hex(r["reset"]), "bitfields": bfs})
        else:
            subs = []
            for k in range(r["n"]):
                subs.append(f"r{ri}s{k}")
                spec_regs.append({"id": f"r{ri}s{k}", "name": f"REG{ri}_S{k}", "offset_int": hex(r["offset"] + k * r["sub_w"] // 8),
                                  "reg_width": r["sub_w"], "reset_value_int": hex(r["sub_resets"][k])})
            grouped.append({"uid": f"r{ri}", "name": f"REG{ri}", "sub_regs": subs, "reversed": r["reverse"],
                            "reverse_subregs_order": r["rev_subs"]})
    return {"groups": [{"group": {"name": "g"}, "registers": spec_regs}]}, grouped


def model_lines(layout, little):
    lines = [f"new {int(little)}"]
    for r in layout:
        if r["kind"] == "plain":
            lines.append(f"reg {r['width']} {int(r['reverse'])} {r['reset']} 0 0 0")
            for f in r["fields"]:
                en = ",".join(map(str, f["enums"])) or "-"
                lines.append(f"field {f['offset']} {f['width']} {f['shift']} {f['reset']} {en}")
        else:
            lines.append(f"reg {r['width']} {int(r['reverse'])} 0 {r['sub_w']} {r['n']} {int(r['rev_subs'])}")
    return lines


def build_real(layout, little):
    from spsdk.utils.misc import Endianness
    from spsdk.utils.registers import Registers
    import logging
    logging.disable(logging.CRITICAL)
    regs = Registers(family="verif_dummy", feature="verif", base_endianness=Endianness.LITTLE if little else Endianness.BIG)
    logging.disable(logging.NOTSET)
    spec, grouped = to_spec(layout)
    regs._load_from_spec(spec, grouped)
    return regs


def dump_real(regs, layout):
    out = []
    for ri, r in enumerate(layout):
        reg = regs.find_reg(f"REG{ri}")

        def g(raw):
            res = pyres(reg.get_value, raw)
            return str(res[1]) if res[0] == "ok" else res[0]
        fs = []
        if r["kind"] == "plain":
            for fi, _f in enumerate(r["fields"]):
                res = pyres(reg.find_bitfield(f"F{ri}_{fi}").get_value)
                fs.append(str(res[1]) if res[0] == "ok" else res[0])
        out.append(f"{g(True)}/{g(False)}[{','.join(fs)}]")
    return " ".join(out)


def init_model_subregs(layout, regs):
    """sub-register reset values are applied at load; mirror them as ops on the model."""
    lines = []
    for ri, r in enumerate(layout):
        if r["kind"] == "group":
            # assemble group raw value from sub resets and set it raw
            val = 0
            for k, sv in enumerate(r["sub_resets"]):
                pos = (r["width"] - (k + 1) * r["sub_w"]) if r["rev_subs"] else k * r["sub_w"]
                val |= sv << pos
            lines.append(f"set_reg {ri} {val} 1")
    return lines


def gen_value(rng, w):
    return rng.choice([0, 1, (1 << w) - 1, 1 << w, (1 << w) + 1, rng.getrandbits(w), rng.getrandbits(w), rng.getrandbits(w + 3)])


# ====================================================================================================
# C11 extension: configuration path (get_config / load_yml_config) and alternative widths vs the model
# ====================================================================================================

def byte_cnt(v):
    return 1 if v == 0 else (v.bit_length() + 7) // 8


def alt_width(alts, width, v):
    """own statement of Register.get_alt_width (smallest alternative width that holds the value, else the width)"""
    ok = [a for a in alts if byte_cnt(v) <= a // 8]
    return min(ok) if ok else width


def alt_unstable(alts, width, v):
    """known finding C11-alt-width-reversed-trailing-zero-bytes: a byte-reversed value of alternative width `aw` whose low
    (aw - a)/8 bytes are zero for a smaller alternative width `a` is read back with width `a`"""
    aw = alt_width(alts, width, v)
    return v != 0 and any(a < aw and v % (1 << (aw - a)) == 0 for a in alts)


ALT_GROUPS = ((32, 12, [256]), (32, 12, [256]), (8, 4, [16]), (16, 6, [32, 64]), (32, 4, [64]))


def gen_layout_cfg(rng):
    """layouts for the configuration stream: bit-fields are contiguous from bit 0 (as `create_from_spec` numbers them), some of
    them hidden (spec entries without a name), enum tables with repeated values and names shared by several values,
    reserved registers, reversed groups, groups with alternative widths (normal sub-register order, explicit width, as the
    database configures ROTKH/RKTH), and -- by flipping `reverse` after loading -- reversed plain registers with bit-fields."""
    regs, off = [], 0
    for ri in range(rng.choice([1, 2, 3, 4])):
        kind = rng.choices(["plain", "group", "altgroup"], [0.6, 0.2, 0.2])[0]
        if kind == "plain":
            width = rng.choice([8, 16, 32, 32, 32, 64, 128])
            fields, pos = [], 0
            if rng.random() < 0.85:
                while pos < width and len(fields) < 8:
                    if rng.random() < 0.08:
                        break  # trailing bits that no bit-field covers
                    w = rng.choice([1, 1, 2, 3, 4, 7, 8, 13, 16, 31, 32, width - pos, width])
                    w = max(1, min(w, width - pos))
                    hidden = rng.random() < 0.25
                    shift = rng.choice([0, 0, 0, 0, 1, 4]) if (w < 30 and not hidden) else 0
                    enums, names = [], []
                    if not hidden and rng.random() < 0.5:
                        pool = [rng.randrange(min(1 << w, 16)) for _ in range(3)]
                        for k in range(rng.choice([1, 2, 3, 4, 5])):
                            ev = rng.choice(pool) << shift
                            if shift and rng.random() < 0.1:
                                ev += 1
                            enums.append(ev)
                            names.append(rng.randrange(3) if rng.random() < 0.5 else 10 + k)
                    reset = rng.choice([0, 0, 1, (1 << w) - 1, rng.randrange(1 << w)])
                    if hidden and rng.random() < 0.6:
                        reset = 0
                    fields.append(dict(offset=pos, width=w, shift=shift, enums=enums, names=names, reset=reset << shift, hidden=hidden))
                    pos += w
            regs.append(dict(kind="plain", width=width, offset=off, reverse=False, reset=rng.choice([0, 0, rng.getrandbits(width)]),
                             fields=fields, reserved=rng.random() < 0.1, flip=bool(fields) and rng.random() < 0.12))
            off += width // 8
        else:
            if kind == "group":
                sub_w, n, alts = rng.choice([8, 16, 32]), rng.choice([2, 3, 4, 8]), []
                rev_subs = rng.random() < 0.4
            else:
                sub_w, n, alts = rng.choice(ALT_GROUPS)
                rev_subs = False
            regs.append(dict(kind="group", width=sub_w * n, offset=off, sub_w=sub_w, n=n, reverse=rng.random() < 0.5, rev_subs=rev_subs,
                             alts=list(alts), hexstr=rng.random() < 0.5, explicit=bool(alts) or rng.random() < 0.3,
                             sub_resets=[rng.choice([0, 0, 0, rng.getrandbits(sub_w)]) for _ in range(n)]))
            off += sub_w * n // 8
    return regs


def fname(ri, fi, f):
    return f"HIDDEN_BITFIELD_{f['offset']:03X}" if f["hidden"] else f"F{ri}_{fi}"


def build_real_cfg(layout, little):
    from spsdk.utils.misc import Endianness
    from spsdk.utils.registers import Registers
    import logging
    spec_regs, grouped = [], []
    for ri, r in enumerate(layout):
        if r["kind"] == "plain":
            bfs = []
            for fi, f in enumerate(r["fields"]):
                b = {"width": f["width"]}
                if f["reset"]:
                    b["reset_value_int"] = hex(f["reset"])
                if not f["hidden"]:
                    b.update({"id": f"r{ri}f{fi}", "name": f"F{ri}_{fi}", "access": "RW",
                              "values": [{"name": f"N{nm}", "value": hex(v), "description": ""} for v, nm in zip(f["enums"], f["names"])]})
                    if f["shift"]:
                        b["config_preprocess"] = f"SHIFT_RIGHT:COUNT={f['shift']}"
                bfs.append(b)
            spec_regs.append({"id": f"r{ri}", "name": f"REG{ri}", "offset_int": hex(r["offset"]), "reg_width": r["width"],
                              "reset_value_int": hex(r["reset"]), "bitfields": bfs, "is_reserved": r["reserved"]})
        else:
            subs = []
            for k in range(r["n"]):
                subs.append(f"r{ri}s{k}")
                spec_regs.append({"id": f"r{ri}s{k}", "name": f"REG{ri}_S{k}", "offset_int": hex(r["offset"] + k * r["sub_w"] // 8),
                                  "reg_width": r["sub_w"], "reset_value_int": hex(r["sub_resets"][k])})
            g = {"uid": f"r{ri}", "name": f"REG{ri}", "sub_regs": subs, "reversed": r["reverse"], "reverse_subregs_order": r["rev_subs"],
                 "config_as_hexstring": r["hexstr"]}
            if r["explicit"]:
                g["width"] = r["width"]
            if r["alts"]:
                g["alternative_widths"] = list(r["alts"])
            grouped.append(g)
    logging.disable(logging.CRITICAL)
    regs = Registers(family="verif_dummy", feature="verif", base_endianness=Endianness.LITTLE if little else Endianness.BIG)
    logging.disable(logging.NOTSET)
    regs._load_from_spec({"groups": [{"group": {"name": "g"}, "registers": spec_regs}]}, grouped)
    for ri, r in enumerate(layout):
        if r["kind"] == "plain" and r["flip"]:
            regs.find_reg(f"REG{ri}").reverse = True   # Register(reverse=True) with bit-fields: only reachable through the API
    return regs


def model_lines_cfg(layout, little):
    lines = [f"new {int(little)}"]
    for r in layout:
        if r["kind"] == "plain":
            lines.append(f"reg {r['width']} 0 {r['reset']} 0 0 0")
            for f in r["fields"]:
                lines.append(f"field {f['offset']} {f['width']} {f['shift']} {f['reset']} {','.join(map(str, f['enums'])) or '-'}")
                lines.append(f"fmeta {int(f['hidden'])} {','.join(map(str, f['names'])) or '-'}")
        else:
            lines.append(f"reg {r['width']} {int(r['reverse'])} 0 {r['sub_w']} {r['n']} {int(r['rev_subs'])}")
            if r["alts"]:
                lines.append("alts " + ",".join(map(str, r["alts"])))
    lines.append("init")
    for ri, r in enumerate(layout):
        if r["kind"] == "group":
            val = 0
            for k, sv in enumerate(r["sub_resets"]):
                val |= sv << ((r["width"] - (k + 1) * r["sub_w"]) if r["rev_subs"] else k * r["sub_w"])
            lines.append(f"set_reg {ri} {val} 1")   # every sub-register gets its reset value (raw, full width)
        elif r["flip"]:
            lines.append(f"flip_reverse {ri}")
    lines += ["mark", "dump"]
    return lines


def dump_real_cfg(regs, layout):
    out = []
    for ri, r in enumerate(layout):
        reg = regs.find_reg(f"REG{ri}")
        vals = []
        for raw in (True, False):
            res = pyres(reg.get_value, raw)
            vals.append(str(res[1]) if res[0] == "ok" else res[0])
        fs = []
        if r["kind"] == "plain":
            for fi, f in enumerate(r["fields"]):
                res = pyres(reg.find_bitfield(fname(ri, fi, f)).get_value)
                fs.append(str(res[1]) if res[0] == "ok" else res[0])
        out.append(f"{vals[0]}/{vals[1]}[{','.join(fs)}]")
    return " ".join(out)


def canon_cfg(cfg, layout):
    """configuration dictionary (as get_config returns it, or hand-made) -> the model's encoding; names -> indices"""
    rnames, fnames = {}, {}
    for ri, r in enumerate(layout):
        rnames[f"REG{ri}"] = (f"t{ri}", ri)
        if r["kind"] == "group":
            for k in range(r["n"]):
                rnames[f"REG{ri}_S{k}"] = (f"s{ri}.{k}", None)
        else:
            fnames[ri] = {fname(ri, fi, f): fi for fi, f in enumerate(r["fields"])}

    def cval(x, enum_names):
        if isinstance(x, int):
            return f"n{x}"
        if x in enum_names or (x.startswith("N") and x[1:].isdigit()):
            return f"e{x[1:]}"
        if x.startswith("RAW:"):
            return f"r{int(x[4:], 0)}"
        return f"n{int(x, 0)}"

    def rval(x, hexstr):
        return f"v{x}" if isinstance(x, int) else f"v{int(x, 16) if hexstr or x.lower().startswith('0x') else int(x, 0)}"

    entries = []
    for name, val in cfg.items():
        ref, ri = rnames.get(name, ("t999", None))
        r = layout[ri] if ri is not None else None
        hexstr = bool(r and r["kind"] == "group" and r["hexstr"])
        if isinstance(val, dict):
            if "value" in val:
                entries.append((ref, rval(val["value"], hexstr)))
                continue
            d = val["bitfields"] if "bitfields" in val else val
            fmap = fnames.get(ri, {}) if ri is not None else {}
            items = []
            for bname, bval in d.items():
                fi = fmap.get(bname, 999)
                enum_names = {f"N{n}" for n in r["fields"][fi]["names"]} if (r and fi != 999) else set()
                items.append((fi, cval(bval, enum_names)))
            entries.append((ref, "f" + ",".join(f"{fi}:{c}" for fi, c in items)))
        else:
            entries.append((ref, rval(val, hexstr)))
    return entries


def enc_cfg(entries, sort=False):
    if sort:   # get_config: the order of the dictionary is not part of the property
        def key(e):
            return (e[0], )
        entries = sorted(((ref, ("f" + ",".join(sorted(c[1:].split(","), key=lambda it: int(it.split(":")[0]))) if c.startswith("f") and len(c) > 1 else c))
                          for ref, c in entries), key=lambda e: int(e[0][1:]) if e[0][1:].isdigit() else 10 ** 6)
    return ";".join(f"{ref}={c}" for ref, c in entries) or "-"


def mutate_cfg(rng, cfg, layout):
    """hand-made configuration derived from a real one: ints, hex / decimal strings, RAW: strings, enum names (known, unknown),
    out-of-range numbers, `value` / `bitfields` forms, sub-register keys, unknown register / bit-field names, empty dicts."""
    out = {}
    for ri, r in enumerate(layout):
        name = f"REG{ri}"
        c = rng.random()
        if c < 0.25:
            continue
        if r["kind"] == "plain" and r["fields"] and c < 0.8:
            d = {}
            for fi, f in enumerate(r["fields"]):
                if rng.random() < 0.4:
                    continue
                k = rng.random()
                v = gen_value(rng, f["width"]) << f["shift"]
                if k < 0.25:
                    d[fname(ri, fi, f)] = v
                elif k < 0.45:
                    d[fname(ri, fi, f)] = rng.choice([hex(v), str(v), hex(v).upper().replace("0X", "0x")])
                elif k < 0.6:
                    d[fname(ri, fi, f)] = "RAW:" + hex(gen_value(rng, f["width"]))
                elif k < 0.9 and f["names"]:
                    d[fname(ri, fi, f)] = f"N{rng.choice(f['names'])}"
                elif k < 0.93:
                    d[fname(ri, fi, f)] = "N99"
                else:
                    d[fname(ri, fi, f)] = v
            if rng.random() < 0.04:
                d["NO_SUCH_FIELD"] = 1
            out[name] = {"bitfields": d} if rng.random() < 0.3 else d
        elif r["kind"] == "group" and c < 0.45:
            k = rng.randrange(r["n"])
            v = gen_value(rng, r["sub_w"])
            out[f"REG{ri}_S{k}"] = rng.choice([v, hex(v), {"value": v}, {}])
        elif c < 0.5:
            out[name] = {}
        else:
            v = gen_cfg_reg_value(rng, r)
            hexstr = r["kind"] == "group" and r["hexstr"]
            form = rng.choice(["int", "str", "value"])
            sv = (f"{v:X}" if hexstr else hex(v)) if v >= 0 else v
            out[name] = v if form == "int" else sv if form == "str" else {"value": rng.choice([v, sv])}
    if rng.random() < 0.04:
        out["NO_SUCH_REG"] = 1
    return out


def gen_cfg_reg_value(rng, r):
    w = r["width"]
    if r["kind"] == "group" and r["alts"]:
        a = rng.choice(r["alts"] + [w])
        k = rng.random()
        if k < 0.5:
            return rng.getrandbits(a) | 1 << (a - 1) | 1    # `a` bits, no zero byte at either end
        if k < 0.7:
            return (rng.getrandbits(a) | 1 << (a - 1)) >> 8 * rng.randrange(a // 8) << 8 * rng.randrange(a // 8)
        return gen_value(rng, a)
    return gen_value(rng, w)


def run(ck):
    from spsdk.utils.registers import Registers  # noqa: F401

    ck.lean_obligations(generated=["RegArith", "RegProc"])   # integer arithmetic of registers.py, re-translated from the AST on every run
    drv = ck.driver()
    rng = ck.rng
    ck.assume("the processor table is generated (RegProc); a processor class the model's Field.shift cannot represent breaks `processors_covered`; YAML comment rendering, HTML export and fuse_registers.py are not modelled",
              "layouts are contiguous (offsets back to back) in the correspondence stream; sparse layouts go through C12/C16",
              "configuration path: register and bit-field names are unique (duplicate names are C12 findings), configuration values are ints or strings "
              "(None / float / bool are not generated), sub-registers of a group carry no bit-fields, registers with bit-fields have no alternative widths "
              "(the model writes bit-fields through the width-agnostic get/set); string rendering of get_config (hex digits, 0x prefix) is canonicalised away",
              "alternative widths are modelled for groups in normal sub-register order (every database configuration); reverse_subregs_order together with "
              "alternative widths is neither generated nor asserted")

    n_layouts = ck.budget(1200, 12000)
    n_ops = ck.budget(25, 40)
    s = ck.stream("op_sequences", f"{n_layouts} random layouts (1-4 registers of 8..512 bits; bit-fields at arbitrary offsets/widths incl. full width, "
                  f"gaps, enums, SHIFT_RIGHT processors; grouped registers with 2-8 sub-registers, normal and reversed order; reversed byte order) x {n_ops} random ops "
                  "(set register raw/processed, set field by int / enum name, reset, reset all, parse, export) with values from "
                  "{0,1,2^w-1,2^w,2^w+1,random,random+3 bits}; the full state is compared after every op; non-trivial = distinct (layout, op-sequence)")
    sq = ck.stream("queries_config", "per layout: read-only queries (get_registers/get_reg_names with include_group_regs, find_reg, get_config, export, image_info) "
                   "must not change the object; export->parse and get_config->load_yml_config restore every value; non-trivial = distinct layout state")
    for li in range(n_layouts):
        layout = gen_layout(rng)
        little = rng.random() < 0.5
        try:
            regs = build_real(layout, little)
        except Exception as exc:  # noqa: BLE001
            s.expect(False, layout, f"generated layout does not load: {type(exc).__name__}: {exc}")
            continue
        lines = model_lines(layout, little) + ["init"] + init_model_subregs(layout, regs) + ["dump"]
        ops_desc = []
        # abstract spec: last written value per (reg, field) -- maintained only through successful writes
        real_states = [dump_real(regs, layout)]
        for _ in range(n_ops):
            ri = rng.randrange(len(layout))
            r = layout[ri]
            reg = regs.find_reg(f"REG{ri}")
            choice = rng.random()
            before = dump_real(regs, layout)
            if choice < 0.30:
                v = gen_value(rng, r["width"])
                raw = rng.random() < 0.5
                res = pyres(reg.set_value, v, raw)
                line = f"set_reg {ri} {v} {int(raw)}"
                ops_desc.append(("set_reg", ri, v, raw))
                if res[0] == "ok":
                    got = pyres(reg.get_value, raw)
                    s.expect(got == ("ok", v), (layout, ops_desc[-1]), "register does not read back the value just written", got, v)
                else:
                    s.expect(res[0] == "E:spsdk" and v >= (1 << r["width"]), (layout, ops_desc[-1]), "register write rejected/accepted wrongly", res)
                s.expect((v < (1 << r["width"])) == (res[0] == "ok"), (layout, ops_desc[-1]), "a value that does not fit the register is not rejected (or a fitting one is)", res)
            elif choice < 0.70 and r["kind"] == "plain" and r["fields"]:
                fi = rng.randrange(len(r["fields"]))
                f = r["fields"][fi]
                bf = reg.find_bitfield(f"F{ri}_{fi}")
                others = [(k, pyres(reg.find_bitfield(f"F{ri}_{k}").get_value)) for k in range(len(r["fields"])) if k != fi]
                if f["enums"] and rng.random() < 0.3:
                    k = rng.randrange(len(f["enums"]))
                    res = pyres(bf.set_enum_value, f"E{k}")
                    line = f"set_enum {ri} {fi} {k}"
                    ops_desc.append(("set_enum", ri, fi, k))
                    written = (f["enums"][k] >> f["shift"])
                    fits = written < (1 << f["width"])
                else:
                    v = gen_value(rng, f["width"]) << f["shift"]
                    raw = rng.random() < 0.5
                    res = pyres(bf.set_value, v, raw)
                    line = f"set_field {ri} {fi} {v} {int(raw)}"
                    ops_desc.append(("set_field", ri, fi, v, raw))
                    written = v >> f["shift"]
                    fits = written < (1 << f["width"])
                    if not r["reverse"] or not raw:
                        pass
                s.expect(fits == (res[0] == "ok"), (layout, ops_desc[-1]),
                         "a bit-field value that does not fit is not rejected (silent truncation) or a fitting one is rejected", res)
                if res[0] == "ok" and fits and not (r["reverse"] and ops_desc[-1][0] == "set_field" and ops_desc[-1][4]):
                    got = pyres(bf.get_value)
                    s.expect(got == ("ok", written << f["shift"]), (layout, ops_desc[-1]), "bit-field does not read the value just written", got, written << f["shift"])
                    for k, old in others:
                        now = pyres(reg.find_bitfield(f"F{ri}_{k}").get_value)
                        s.expect(now == old, (layout, ops_desc[-1], k), "writing a bit-field disturbed a neighbour", now, old)
                if res[0] != "ok":
                    s.expect(dump_real(regs, layout) == before, (layout, ops_desc[-1]), "a rejected write changed the register file")
            elif choice < 0.78:
                res = pyres(reg.reset_value, True)
                line = f"reset {ri}"
                ops_desc.append(("reset", ri))
            elif choice < 0.82:
                res = pyres(regs.reset_values)
                line = "reset_all"
                ops_desc.append(("reset_all",))
            else:
                total = sum(x["width"] // 8 for x in layout)
                ln = rng.choice([total, total, total, max(0, total - 1), total + 3, rng.randrange(total + 1)])
                blob = bytes(rng.getrandbits(8) for _ in range(ln))
                res = pyres(regs.parse, blob)
                line = f"parse {hexs(blob)}"
                ops_desc.append(("parse", blob))
                if res[0] == "ok" and ln >= total:
                    ex = pyres(regs.export)
                    s.expect(ex == ("ok", blob[:total]), (layout, ops_desc[-1]), "export after parse does not reproduce the parsed bytes", ex, blob[:total])
            lines.append(line)
            real_states.append((res[0] if res[0] != "ok" else "ok") + " " + dump_real(regs, layout))
        lines.append("export")
        real_export = canon(pyres(regs.export))
        s.note((layout, ops_desc), cls=f"regs={len(layout)}")
        if drv is not None:
            ans = drv.batch(lines)
            # answers: new/reg/field lines -> "ok"; from "init" on, state dumps
            idx_init = lines.index("init")
            nsub = len(init_model_subregs(layout, regs))
            model_states = ans[idx_init + 1 + nsub:]  # first is "dump" answer
            ok = s.compare((layout, little, "initial"), "ok " + real_states[0], model_states[0], "state after load differs")
            if ok:
                for k, (rs, ms) in enumerate(zip(real_states[1:], model_states[1:-1])):
                    if not s.compare((layout, little, ops_desc[:k + 1]), rs, ms, "state after op differs between implementation and model"):
                        break
                else:
                    s.compare((layout, little, ops_desc, "export"), real_export, model_states[-1], "export differs")

        # ---------------- queries / config / export-parse on the final state
        st0 = dump_real(regs, layout)
        n0 = len(regs._registers)
        cfg = None
        for qname, q in (("get_registers(group)", lambda: regs.get_registers(include_group_regs=True)),
                         ("get_reg_names(group)", lambda: regs.get_reg_names(include_group_regs=True)),
                         ("get_registers", lambda: regs.get_registers()),
                         ("get_reg_names(exclude)", lambda: regs.get_reg_names(exclude=["REG0"])),
                         ("find_reg", lambda: regs.find_reg("REG0", include_group_regs=True)),
                         ("get_config", lambda: regs.get_config()), ("get_config(diff)", lambda: regs.get_config(diff=True)),
                         ("export", lambda: regs.export()), ("image_info", lambda: len(regs.image_info())),
                         ("len", lambda: len(regs)), ("str", lambda: str(regs))):
            res = pyres(q)
            sq.note((li, qname))
            sq.expect(res[0] == "ok", (layout, qname), "read-only query raised", res)
            sq.expect(dump_real(regs, layout) == st0 and len(regs._registers) == n0 and len(regs.get_registers()) <= n0,
                      (layout, qname), "a read-only query changed the register file", (len(regs._registers), n0))
            if qname == "get_config" and res[0] == "ok":
                cfg = res[1]
        # export -> parse into a fresh object restores every value
        ex = pyres(regs.export)
        if ex[0] == "ok":
            fresh = build_real(layout, little)
            pr = pyres(fresh.parse, ex[1])
            sq.expect(pr[0] == "ok" and dump_real(fresh, layout) == st0, (layout, "export/parse"), "parse(export()) does not restore every value", dump_real(fresh, layout), st0)
        # get_config -> load_yml_config into a fresh object restores the state (fields cover which bits? compare field + register values
        # only when every bit of every register with bit-fields is covered by a field; otherwise compare field values)
        if cfg is not None:
            fresh = build_real(layout, little)
            # registers without bit-fields / groups are in the config as hex values; registers with fields as field dicts
            lr = pyres(fresh.load_yml_config, copy.deepcopy(cfg))
            sq.note((li, "config_roundtrip"))
            if lr[0] == "ok":
                for ri, r in enumerate(layout):
                    a, b = regs.find_reg(f"REG{ri}"), fresh.find_reg(f"REG{ri}")
                    if r["kind"] == "plain" and r["fields"]:
                        for fi, f in enumerate(r["fields"]):
                            va, vb = pyres(a.find_bitfield(f"F{ri}_{fi}").get_value), pyres(b.find_bitfield(f"F{ri}_{fi}").get_value)
                            sq.expect(va == vb, (layout, "config", ri, fi, cfg), "a configuration obtained from the object does not load back to the same bit-field value", vb, va)
                    else:
                        va, vb = pyres(a.get_value, True), pyres(b.get_value, True)
                        sq.expect(va == vb, (layout, "config", ri, cfg), "a configuration obtained from the object does not load back to the same register value", vb, va)
            else:
                sq.expect(False, (layout, "config", cfg), "a configuration obtained from the object does not load", lr)

    # ---------------- alternative widths (oracle only)
    sa = ck.stream("alt_widths", "group registers with alternative widths (12x32/[256] as ROTKH/RKTH, 6x16/[32,64], 4x8/[16]; reversed and not; raw and processed view): "
                   "set/get round trip for values of every byte length incl. values with trailing zero bytes, and a full-width value followed by a shorter one "
                   "(the two open findings are matched by narrow predicates); non-trivial = distinct (layout,value)")
    from spsdk.utils.registers import Register
    for sub_w, n, alts in ((32, 12, [256]), (32, 4, [64]), (8, 4, [16])):
        for rev_subs in (False,):
            grp = Register(name="G", offset=0, width=0, uid="g", alt_widths=list(alts), reverse_subregs_order=rev_subs)
            for k in range(n):
                grp._add_group_reg(Register(name=f"S{k}", offset=k * sub_w // 8, width=sub_w, uid=f"s{k}"))
            for alt in alts + [sub_w * n]:
                for v in (0, 1, (1 << alt) - 1, rng.getrandbits(alt) | 1 << (alt - 1)):
                    res = pyres(grp.set_value, v, True)
                    got = pyres(grp.get_value, True)
                    sa.note((sub_w, n, alts, rev_subs, v))
                    if rev_subs and alt != grp.width:
                        continue  # documented limitation: reversed sub-register order positions depend on the (alt) width on set but on the full width on get
                    sa.expect(res[0] == "ok" and got == ("ok", v), (sub_w, n, alts, rev_subs, v), "alt-width group register does not read back the written value", got, v)

    # reversed alt-width groups as the database configures them (ROTKH / RKTH: 12 x 32 bits, alternative width 256, reversed),
    # incl. the two open findings (deterministic cases, so that they are reported by every run)
    for sub_w, n, alts in ((32, 12, [256]), (16, 6, [32, 64]), (8, 4, [16])):
        width = sub_w * n
        for rev in (True, False):
            def mk():
                g = Register(name="G", offset=0, width=width, uid="g", alt_widths=list(alts), reverse=rev)
                for k in range(n):
                    g._add_group_reg(Register(name=f"S{k}", offset=k * sub_w // 8, width=sub_w, uid=f"s{k}"))
                return g
            vals = []
            for alt in alts + [width]:
                vals += [0, 1, (1 << alt) - 1, rng.getrandbits(alt) | 1 << (alt - 1) | 1, (rng.getrandbits(alt) | 1 << (alt - 1)) >> 16 << 16,
                         1 << (alt - 1), rng.getrandbits(alt) >> 8 * rng.randrange(alt // 8)]
            for v in vals:
                for raw in (False, True):
                    grp = mk()
                    res = pyres(grp.set_value, v, raw)
                    got = pyres(grp.get_value, raw)
                    sa.note((sub_w, n, alts, rev, v, raw), cls=f"rev={int(rev)}")
                    finding = "C11-alt-width-reversed-trailing-zero-bytes" if (rev and not raw and alt_unstable(alts, width, v)) else None
                    sa.expect(res[0] == "ok" and got == ("ok", v), (sub_w, n, alts, rev, v, raw),
                              "alt-width group register does not read back the written value", got, v, finding=finding)
                    # a value of the full width, then a shorter one: the register must read the last value written
                    grp = mk()
                    big = (1 << (width - 1)) | 0x55
                    r1 = pyres(grp.set_value, big, raw)
                    r2 = pyres(grp.set_value, v, raw)
                    got = pyres(grp.get_value, raw)
                    aw = alt_width(alts, width, v)
                    finding = ("C11-alt-width-stale-sub-registers" if aw < width else
                               "C11-alt-width-reversed-trailing-zero-bytes" if (rev and not raw and alt_unstable(alts, width, v)) else None)
                    sa.expect(r1[0] == "ok" and r2[0] == "ok" and got == ("ok", v), (sub_w, n, alts, rev, ("then", big, v), raw),
                              "alt-width group register does not read the last value written (full-width value, then a shorter one)", got, v, finding=finding)

    # negative values must be refused everywhere (fixed by aacb22c: a register that accepted one looped forever in export());
    # the model works over naturals, so "refused" is the only behaviour it can be compared with
    sn = ck.stream("negative_values", "negative integers written to registers, bit-fields and through load_yml_config must be refused; non-trivial = distinct (target, value)")
    for w in (8, 32, 64):
        for v in (-1, -(1 << w), -(1 << (w - 1)), -rng.getrandbits(w) - 1):
            layout = [dict(kind="plain", width=w, offset=0, reverse=False, reset=0, reserved=False, flip=False,
                           fields=[dict(offset=0, width=w // 2, shift=0, enums=[], names=[], reset=0, hidden=False)])]
            for target in ("register", "bitfield", "config-register", "config-value", "config-bitfield"):
                regs = build_real_cfg(layout, True)
                reg = regs.find_reg("REG0")
                st0 = dump_real_cfg(regs, layout)
                if target == "register":
                    res = pyres(reg.set_value, v)
                elif target == "bitfield":
                    res = pyres(reg.find_bitfield("F0_0").set_value, v)
                elif target == "config-register":
                    res = pyres(quiet, regs.load_yml_config, {"REG0": v})
                elif target == "config-value":
                    res = pyres(quiet, regs.load_yml_config, {"REG0": {"value": v}})
                else:
                    res = pyres(quiet, regs.load_yml_config, {"REG0": {"F0_0": v}})
                sn.note((w, v, target), cls=target)
                sn.expect(res[0] == "E:spsdk" and dump_real_cfg(regs, layout) == st0, (w, v, target),
                          "a negative value is not refused (or the refused write changed the register)", (res, dump_real_cfg(regs, layout)), "E:spsdk")

    run_config_model(ck, drv)
    run_reset_hidden(ck, drv)
    run_phase3(ck, drv)


def quiet(fn, *a, **kw):
    """run real code with logging silenced (load_yml_config logs every refused entry)"""
    import logging
    logging.disable(logging.CRITICAL)
    try:
        return fn(*a, **kw)
    finally:
        logging.disable(logging.NOTSET)


def check_loaded(sc, layout, hc, regs, upper_before):
    """abstract statement of a successful load_yml_config on the real object: every bit-field named in the configuration reads
    the value given (number: processed value; RAW: the stored bits; enum name: the first value of that name), every register
    given as one value reads it in the processed view."""
    for name, val in hc.items():
        if not (name.startswith("REG") and name[3:].isdigit()):
            continue
        ri = int(name[3:])
        r = layout[ri]
        reg = regs.find_reg(name)
        if isinstance(val, dict) and "value" not in val:
            d = val["bitfields"] if "bitfields" in val else val
            if r["kind"] != "plain" or r["flip"]:
                continue
            for bname, bval in d.items():
                fi = [k for k, f in enumerate(r["fields"]) if fname(ri, k, f) == bname][0]
                f = r["fields"][fi]
                if isinstance(bval, int):
                    exp = bval >> f["shift"] << f["shift"]
                elif bval.startswith("RAW:"):
                    exp = int(bval[4:], 0) << f["shift"]
                elif bval.startswith("N"):
                    exp = f["enums"][f["names"].index(int(bval[1:]))] >> f["shift"] << f["shift"]
                else:
                    exp = int(bval, 0) >> f["shift"] << f["shift"]
                got = pyres(reg.find_bitfield(bname).get_value)
                sc.expect(got == ("ok", exp), (layout, hc, name, bname), "a bit-field loaded from a configuration does not read the configured value", got, exp)
        else:
            x = val["value"] if isinstance(val, dict) else val
            hexstr = r["kind"] == "group" and r["hexstr"]
            v = x if isinstance(x, int) else int(x, 16) if (hexstr or x.lower().startswith("0x")) else int(x, 0)
            finding = None
            if r["kind"] == "group" and r["alts"]:
                aw = alt_width(r["alts"], r["width"], v)
                if any(u != 0 for u in upper_before[ri][aw // r["sub_w"]:]):
                    finding = "C11-alt-width-stale-sub-registers"
                elif r["reverse"] and alt_unstable(r["alts"], r["width"], v):
                    finding = "C11-alt-width-reversed-trailing-zero-bytes"
            got = pyres(reg.get_value, False)
            sc.expect(got == ("ok", v), (layout, hc, name), "a register loaded from a configuration as one value does not read that value", got, v, finding=finding)


def run_config_model(ck, drv):
    """stream `config_model`: get_config / load_yml_config / alternative widths of the real object vs the Lean model, plus the
    property oracle of the configuration clauses on the real object alone."""
    rng = ck.rng
    n_layouts = ck.budget(1500, 20000)
    sc = ck.stream("config_model", f"{n_layouts} random layouts (plain registers with contiguous bit-fields, ~25% hidden, enum tables with repeated values and "
                   "names shared by several values, SHIFT_RIGHT, reserved registers, trailing uncovered bits, reversed plain registers with bit-fields; "
                   "groups incl. reversed, config_as_hexstring, alternative widths [256] in 384 bits as in the database and smaller variants) x "
                   "random state (register / sub-register / bit-field / enum writes, state compared after each) -> get_config() compared with the model "
                   "(names -> indices), load_yml_config(get_config()) into a fresh object (result + complete state compared), loaded a second time, and two "
                   "hand-made configurations (ints, hex strings, RAW: strings, enum names, unknown names, out-of-range values, value/bitfields forms, "
                   "sub-register keys, {}) loaded into fresh objects; non-trivial = distinct (layout, state, configuration)")
    for li in range(n_layouts):
        layout = gen_layout_cfg(rng)
        little = rng.random() < 0.5
        try:
            regs = build_real_cfg(layout, little)
        except Exception as exc:  # noqa: BLE001
            sc.expect(False, layout, f"generated layout does not load: {type(exc).__name__}: {exc}")
            continue
        lines = model_lines_cfg(layout, little)
        n_setup = len(lines)
        real = ["ok " + dump_real_cfg(regs, layout)]          # answers expected from `dump` on
        what = ["state after load"]
        fresh_hidden_ok = all(pyres(regs.find_reg(f"REG{ri}").find_bitfield(fname(ri, fi, f)).get_value) ==
                              ("ok", regs.find_reg(f"REG{ri}").find_bitfield(fname(ri, fi, f)).get_reset_value())
                              for ri, r in enumerate(layout) if r["kind"] == "plain" and not r["flip"] for fi, f in enumerate(r["fields"]) if f["hidden"])
        sc.expect(fresh_hidden_ok, layout, "a hidden bit-field of a freshly loaded object is not at its reset value")
        ops = []
        # ---- random state
        for _ in range(rng.choice([0, 2, 4, 6, 8])):
            ri = rng.randrange(len(layout))
            r = layout[ri]
            reg = regs.find_reg(f"REG{ri}")
            c = rng.random()
            if r["kind"] == "plain" and r["fields"] and c < 0.6:
                fi = rng.randrange(len(r["fields"]))
                f = r["fields"][fi]
                bf = reg.find_bitfield(fname(ri, fi, f))
                if f["names"] and rng.random() < 0.4:
                    nm = rng.choice(f["names"])
                    k = f["names"].index(nm)
                    res = pyres(bf.set_enum_value, f"N{nm}")
                    lines.append(f"set_enum {ri} {fi} {k}")
                    ops.append(("set_enum", ri, fi, nm))
                    written = f["enums"][k] >> f["shift"]
                    if written < (1 << f["width"]) and not r["flip"]:
                        got = pyres(bf.get_value)
                        sc.expect(res[0] == "ok" and got == ("ok", written << f["shift"]), (layout, ops[-1]),
                                  "a bit-field written by enum name does not read the value of that name", got, written << f["shift"])
                else:
                    v = gen_value(rng, f["width"]) << f["shift"]
                    raw = rng.random() < 0.5
                    res = pyres(bf.set_value, v, raw)
                    lines.append(f"set_field {ri} {fi} {v} {int(raw)}")
                    ops.append(("set_field", ri, fi, v, raw))
            elif r["kind"] == "group" and c < 0.3:
                k = rng.randrange(r["n"])
                v = gen_value(rng, r["sub_w"])
                res = pyres(regs.find_reg(f"REG{ri}_S{k}", include_group_regs=True).set_value, v)
                lines.append(f"set_sub {ri} {k} {v}")
                ops.append(("set_sub", ri, k, v))
            else:
                v = gen_cfg_reg_value(rng, r)
                raw = rng.random() < 0.5
                stale = False
                if r["kind"] == "group" and r["alts"] and 0 <= v < (1 << r["width"]):
                    aw = alt_width(r["alts"], r["width"], v)
                    stale = any(pyres(regs.find_reg(f"REG{ri}_S{k}", include_group_regs=True).get_value)[1] != 0 for k in range(aw // r["sub_w"], r["n"]))
                res = pyres(reg.set_value, v, raw)
                lines.append(f"set_alt {ri} {v} {int(raw)}")
                ops.append(("set_reg", ri, v, raw))
                sc.expect((v < (1 << r["width"])) == (res[0] == "ok"), (layout, ops[-1]), "a value that does not fit the register is not rejected (or a fitting one is)", res)
                if res[0] == "ok":
                    got = pyres(reg.get_value, raw)
                    finding = None
                    if r["kind"] == "group" and r["alts"]:
                        if stale:
                            finding = "C11-alt-width-stale-sub-registers"
                        elif r["reverse"] and not raw and alt_unstable(r["alts"], r["width"], v):
                            finding = "C11-alt-width-reversed-trailing-zero-bytes"
                    sc.expect(got == ("ok", v), (layout, ops[-1]), "register does not read back the value just written", got, v, finding=finding)
            real.append(res[0] + " " + dump_real_cfg(regs, layout))
            what.append(f"state after op {ops[-1]}")
        # ---- get_config
        st_x = dump_real_cfg(regs, layout)
        raw_x = [pyres(regs.find_reg(f"REG{ri}").get_value, True) for ri in range(len(layout))]
        gc = pyres(regs.get_config)
        sc.note((layout, ops), cls=f"regs={len(layout)}")
        sc.expect(gc[0] == "ok", (layout, ops), "get_config raised", gc)
        if gc[0] != "ok":
            continue
        cfg = gc[1]
        sc.expect(dump_real_cfg(regs, layout) == st_x, (layout, ops), "get_config changed the object")
        lines.append("get_config")
        real.append("ok:" + enc_cfg(canon_cfg(cfg, layout), sort=True))
        what.append("get_config")
        # ---- load into a fresh object, twice
        fresh = build_real_cfg(layout, little)
        fresh_upper = {ri: [pyres(fresh.find_reg(f"REG{ri}_S{k}", include_group_regs=True).get_value)[1] for k in range(r["n"])]
                       for ri, r in enumerate(layout) if r["kind"] == "group"}
        enc = enc_cfg(canon_cfg(cfg, layout))
        st_fresh = dump_real_cfg(fresh, layout)
        lr = pyres(quiet, fresh.load_yml_config, copy.deepcopy(cfg))
        lines += ["restore", f"load_config {enc}"]
        real += ["ok " + st_fresh, (lr[0] + " " + dump_real_cfg(fresh, layout)) if lr[0] == "ok" else lr[0]]
        what += ["fresh object", "load_yml_config(get_config()) into a fresh object"]
        sc.expect(lr[0] == "ok", (layout, ops, cfg), "a configuration obtained from the object does not load", lr)
        if lr[0] == "ok":
            for ri, r in enumerate(layout):
                a, b = regs.find_reg(f"REG{ri}"), fresh.find_reg(f"REG{ri}")
                if r["kind"] == "plain" and r["fields"]:
                    for fi, f in enumerate(r["fields"]):
                        va, vb = pyres(a.find_bitfield(fname(ri, fi, f)).get_value), pyres(b.find_bitfield(fname(ri, fi, f)).get_value)
                        sc.expect(va == vb, (layout, ops, "config", ri, fi, cfg), "a configuration obtained from the object does not load back to the same bit-field value", vb, va)
                else:
                    va, vb = pyres(a.get_value, True), pyres(b.get_value, True)
                    finding = None
                    if r["kind"] == "group" and r["alts"] and raw_x[ri][0] == "ok":
                        aw = alt_width(r["alts"], r["width"], raw_x[ri][1])
                        if any(x != 0 for x in fresh_upper[ri][aw // r["sub_w"]:]):
                            finding = "C11-alt-width-stale-sub-registers"
                        elif r["reverse"] and alt_unstable(r["alts"], r["width"], raw_x[ri][1]):
                            finding = "C11-alt-width-reversed-trailing-zero-bytes"
                    sc.expect(va == vb, (layout, ops, "config", ri, cfg), "a configuration obtained from the object does not load back to the same register value", vb, va, finding=finding)
            st1 = dump_real_cfg(fresh, layout)
            lr2 = pyres(quiet, fresh.load_yml_config, copy.deepcopy(cfg))
            lines.append(f"load_config {enc}")
            real.append((lr2[0] + " " + dump_real_cfg(fresh, layout)) if lr2[0] == "ok" else lr2[0])
            what.append("the same configuration loaded a second time")
            # idempotence holds unless a reversed register is given as bit-field dictionary (its raw value is byte-swapped by every load)
            if not any(r["kind"] == "plain" and r["flip"] for r in layout):
                sc.expect(lr2[0] == "ok" and dump_real_cfg(fresh, layout) == st1, (layout, ops, cfg), "loading the same configuration twice differs from loading it once",
                          dump_real_cfg(fresh, layout), st1)
        # ---- hand-made configurations into fresh objects
        for _ in range(2):
            hc = mutate_cfg(rng, cfg, layout)
            fresh = build_real_cfg(layout, little)
            hr = pyres(quiet, fresh.load_yml_config, copy.deepcopy(hc))
            try:
                enc_h = enc_cfg(canon_cfg(hc, layout))
            except Exception as exc:  # noqa: BLE001 - generator bug, not a property violation
                sc.expect(False, (layout, hc), f"harness cannot encode a generated configuration: {exc}")
                continue
            sc.note((layout, "hand-made", hc), cls="hand-made:" + hr[0])
            sc.expect(hr[0] in ("ok", "E:spsdk"), (layout, hc), "load_yml_config raised a non-SPSDK exception", hr)
            if hr[0] == "ok":
                check_loaded(sc, layout, hc, fresh, fresh_upper)
            lines += ["restore", f"load_config {enc_h}"]
            real += [None, (hr[0] + " " + dump_real_cfg(fresh, layout)) if hr[0] == "ok" else hr[0]]
            what += [None, f"hand-made configuration {hc}"]
        # ---- model
        if drv is not None:
            ans = drv.batch(lines)
            model = ans[n_setup - 1:]
            for k, (rs, ms, wh) in enumerate(zip(real, model, what)):
                if rs is None:
                    continue
                if not rs.startswith("ok") and not rs.startswith("E:"):
                    continue
                if rs.startswith("E:") and " " not in rs:
                    ms = ms.split(" ")[0]      # a failed load leaves the real object half-written; only the error class is compared
                if not sc.compare((layout, little, ops, wh), rs, ms, "configuration path / alternative widths: implementation and model differ"):
                    break


# ------------------------------------------------------------------------------------------------ reset incl. hidden bit-fields (seeded change C11f)
def gen_layout_hidden(rng, ctor):
    """plain registers whose bit-fields are hidden (unnamed spec entries / `hidden=True`) about half of the time and carry non-zero reset values;
    the register-level reset value is 0, lies in the bits no bit-field covers, or (rarely, spec path only) is arbitrary"""
    regs, off = [], 0
    for ri in range(rng.choice([1, 2, 3])):
        width = rng.choice([8, 16, 32, 32, 64])
        fields, pos = [], 0
        while pos < width and len(fields) < 6:
            if fields and rng.random() < 0.15:
                break
            w = max(1, min(rng.choice([1, 2, 3, 4, 8, 13, 16]), width - pos))
            fields.append(dict(offset=pos, width=w, shift=0, enums=[], names=[], reset=rng.choice([0, 1, (1 << w) - 1, rng.randrange(1 << w), rng.randrange(1 << w)]),
                               hidden=rng.random() < 0.5))
            pos += w
        k = rng.random()
        tail = ((1 << width) - 1) & ~((1 << pos) - 1)
        reset = 0 if (ctor or k < 0.5) else (rng.getrandbits(width) & tail) if k < 0.85 else rng.getrandbits(width)
        regs.append(dict(kind="plain", width=width, offset=off, reverse=False, reset=reset, fields=fields, reserved=False, flip=False))
        off += width // 8
    return regs


def build_real_ctor(layout, little):
    """the same layout through the constructors (`Register(...)`, `RegsBitField(..., hidden=True)`, `add_bitfield`, `add_register`)"""
    from spsdk.utils.misc import Endianness
    from spsdk.utils.registers import Register, Registers, RegsBitField
    import logging
    logging.disable(logging.CRITICAL)
    try:
        regs = Registers(family="verif_dummy", feature="verif", base_endianness=Endianness.LITTLE if little else Endianness.BIG)
    finally:
        logging.disable(logging.NOTSET)
    for ri, r in enumerate(layout):
        reg = Register(name=f"REG{ri}", offset=r["offset"], width=r["width"], uid=f"r{ri}")
        for fi, f in enumerate(r["fields"]):
            reg.add_bitfield(RegsBitField(reg, fname(ri, fi, f), f["offset"], f["width"], uid=f"r{ri}f{fi}", reset_val=f["reset"] or None, hidden=f["hidden"]))
        regs.add_register(reg)
    return regs


def run_reset_hidden(ck, drv):
    rng = ck.rng
    n_layouts = ck.budget(400, 6000)
    sh = ck.stream("reset_hidden", f"{n_layouts} layouts of plain registers whose bit-fields are hidden about half of the time (unnamed entries of a specification / hidden=True "
                   "through the constructors) and carry non-zero reset values, built through _load_from_spec or through Register / RegsBitField / add_register; rounds of "
                   "(whole-register write | parse of random bytes | bit-field write) then (Register.reset_value | Registers.reset_values); state compared with the model after "
                   "every op; oracle from the layout alone: after a reset EVERY bit-field, hidden or not, reads its reset value and the register reads the register-level reset "
                   "bits outside the bit-fields or-ed with every bit-field's reset value; get_config(diff=True) of a freshly reset object names no bit-field; "
                   "non-trivial = distinct (layout, construction, op sequence)")
    for li in range(n_layouts):
        ctor = rng.random() < 0.5
        layout = gen_layout_hidden(rng, ctor)
        little = rng.random() < 0.5
        try:
            regs = build_real_ctor(layout, little) if ctor else build_real_cfg(layout, little)
        except Exception as exc:  # noqa: BLE001
            sh.expect(False, (layout, ctor), f"generated layout does not load: {type(exc).__name__}: {exc}")
            continue
        lines = model_lines_cfg(layout, little)
        n_setup = len(lines)
        real, what, ops = ["ok " + dump_real_cfg(regs, layout)], ["state after load"], []
        total = sum(r["width"] // 8 for r in layout)
        # what the specification says, register by register (input only)
        spec_reset = []
        for r in layout:
            ini, api = _initial_and_api_reset(r)
            cur, per_field = r["reset"], []
            for f in r["fields"]:
                m = (1 << f["width"]) - 1
                if f["reset"]:
                    cur = (cur & ~(m << f["offset"])) | (f["reset"] << f["offset"])
                    per_field.append(f["reset"])
                else:
                    per_field.append((cur >> f["offset"]) & m)
            spec_reset.append((ini, api, per_field))
        for rnd in range(rng.choice([1, 2, 3])):
            for _ in range(rng.choice([1, 1, 2, 3])):
                ri = rng.randrange(len(layout))
                r = layout[ri]
                reg = regs.find_reg(f"REG{ri}")
                c = rng.random()
                if c < 0.5:
                    v = rng.choice([0, (1 << r["width"]) - 1, rng.getrandbits(r["width"])])
                    res = pyres(reg.set_value, v, True)
                    lines.append(f"set_reg {ri} {v} 1")
                    ops.append(("set_reg", ri, v))
                elif c < 0.75:
                    data = bytes(rng.getrandbits(8) for _ in range(total))
                    res = pyres(regs.parse, data)
                    lines.append(f"parse {data.hex()}")
                    ops.append(("parse", data.hex()))
                elif r["fields"]:
                    fi = rng.randrange(len(r["fields"]))
                    f = r["fields"][fi]
                    v = gen_value(rng, f["width"])
                    res = pyres(reg.find_bitfield(fname(ri, fi, f)).set_value, v)
                    lines.append(f"set_field {ri} {fi} {v} 0")
                    ops.append(("set_field", ri, fi, v))
                else:
                    continue
                real.append(res[0] + " " + dump_real_cfg(regs, layout))
                what.append(f"state after op {ops[-1]}")
            if rng.random() < 0.5:
                ri = rng.randrange(len(layout))
                raw = rng.random() < 0.5
                res = pyres(regs.find_reg(f"REG{ri}").reset_value, raw)
                lines.append(f"reset {ri}")
                ops.append(("reset", ri, raw))
                which = [ri]
            else:
                res = pyres(regs.reset_values)
                lines.append("reset_all")
                ops.append(("reset_all",))
                which = list(range(len(layout)))
            real.append(res[0] + " " + dump_real_cfg(regs, layout))
            what.append(f"state after op {ops[-1]}")
            sh.note((layout, ctor, ops), cls=("ctor" if ctor else "spec") + "," + ops[-1][0])
            sh.expect(res[0] == "ok", (layout, ctor, ops), "reset raised", res)
            for ri in which:
                r = layout[ri]
                reg = regs.find_reg(f"REG{ri}")
                ini, api, per_field = spec_reset[ri]
                finding = "C11-reset-value-differs-from-initial-value" if ini != api else None
                for fi, f in enumerate(r["fields"]):
                    got = pyres(reg.find_bitfield(fname(ri, fi, f)).get_value)
                    sh.expect(got == ("ok", per_field[fi]), (layout, ctor, ops, ri, fi), "after a reset a bit-field (hidden or not) does not read its reset value",
                              got, per_field[fi], finding=finding)
                got = pyres(reg.get_value, True)
                sh.expect(got == ("ok", ini), (layout, ctor, ops, ri), "after a reset the register does not read the value a freshly loaded register holds "
                          "(register-level reset bits outside the bit-fields | every bit-field's reset value)", got, ini, finding=finding)
            if len(which) == len(layout):
                gd = pyres(regs.get_config, True)
                named = {k: v for k, v in gd[1].items() if v} if gd[0] == "ok" else None
                sh.expect(gd[0] == "ok" and not named, (layout, ctor, ops), "get_config(diff=True) of a freshly reset object names a bit-field / register value", gd,
                          finding=("C11-reset-value-differs-from-initial-value" if any(a != b for a, b, _ in spec_reset) else None))
        if drv is not None:
            ans = drv.batch(lines)
            for rs, ms, wh in zip(real, ans[n_setup - 1:], what):
                if not sh.compare((layout, ctor, little, ops, wh), rs, ms, "reset with hidden bit-fields: implementation and model differ"):
                    break


# ------------------------------------------------------------------------------------------------ phase 3
def _initial_and_api_reset(r):
    """(value a freshly created register holds, what get_reset_value() reports) computed from the layout alone"""
    if r["kind"] == "group":
        val = 0
        for k, sv in enumerate(r["sub_resets"]):
            val |= sv << ((r["width"] - (k + 1) * r["sub_w"]) if r["rev_subs"] else k * r["sub_w"])
        return val, 0
    cur, api = r["reset"], r["reset"]
    for f in r["fields"]:
        m = (1 << f["width"]) - 1
        if f["reset"]:
            st = f["reset"] >> f["shift"]
            if st <= m:
                cur = (cur & ~(m << f["offset"])) | (st << f["offset"])
            api_f = f["reset"]
        else:
            api_f = ((cur >> f["offset"]) & m) << f["shift"]
        api |= (api_f & m) << f["offset"]
    return cur, api


def run_phase3(ck, drv):
    """streams `diff_config`, `processor_spec`, `lookup`, `sparse_export` (Model/RegistersP3.lean)"""
    import copy as _copy
    rng = ck.rng
    # ------------------------------------------------------------------ get_config(diff=True)
    n_layouts = ck.budget(500, 8000)
    sd = ck.stream("diff_config", f"{n_layouts} layouts of the configuration stream x random state (bit-field / sub-register / register writes, writes of the reset value, "
                   "reset of a register; state compared after each) -> get_config(diff=True) compared with the model; oracle on the real object: a register is named iff its raw "
                   "value differs from get_reset_value(), a bit-field iff it does not read its reset value; load_yml_config(diff config) into a fresh object reproduces every "
                   "bit-field / register value (result + complete state also compared with the model); non-trivial = distinct (layout, state)")
    for li in range(n_layouts):
        layout = gen_layout_cfg(rng)
        little = rng.random() < 0.5
        try:
            regs = build_real_cfg(layout, little)
        except Exception as exc:  # noqa: BLE001
            sd.expect(False, layout, f"generated layout does not load: {type(exc).__name__}: {exc}")
            continue
        lines = model_lines_cfg(layout, little)
        n_setup = len(lines)
        real, what, ops = ["ok " + dump_real_cfg(regs, layout)], ["state after load"], []
        for _ in range(rng.choice([0, 1, 2, 3, 5, 7])):
            ri = rng.randrange(len(layout))
            r = layout[ri]
            reg = regs.find_reg(f"REG{ri}")
            c = rng.random()
            if r["kind"] == "plain" and r["fields"] and c < 0.6:
                fi = rng.randrange(len(r["fields"]))
                f = r["fields"][fi]
                bf = reg.find_bitfield(fname(ri, fi, f))
                v = pyres(bf.get_reset_value)[1] if rng.random() < 0.3 else gen_value(rng, f["width"]) << f["shift"]
                raw = rng.random() < 0.5
                res = pyres(bf.set_value, v, raw)
                lines.append(f"set_field {ri} {fi} {v} {int(raw)}")
                ops.append(("set_field", ri, fi, v, raw))
            elif r["kind"] == "group" and c < 0.3:
                k = rng.randrange(r["n"])
                v = rng.choice([0, gen_value(rng, r["sub_w"])])
                res = pyres(regs.find_reg(f"REG{ri}_S{k}", include_group_regs=True).set_value, v)
                lines.append(f"set_sub {ri} {k} {v}")
                ops.append(("set_sub", ri, k, v))
            elif c < 0.45 and not (r["kind"] == "group" and r["alts"]):
                res = pyres(reg.reset_value, True)
                lines.append(f"reset {ri}")
                ops.append(("reset", ri))
            else:
                v = rng.choice([0, gen_cfg_reg_value(rng, r)])
                raw = rng.random() < 0.5
                res = pyres(reg.set_value, v, raw)
                lines.append(f"set_alt {ri} {v} {int(raw)}")
                ops.append(("set_reg", ri, v, raw))
            real.append(res[0] + " " + dump_real_cfg(regs, layout))
            what.append(f"state after op {ops[-1]}")
        st_x = dump_real_cfg(regs, layout)
        gd = pyres(regs.get_config, True)
        sd.note((layout, ops), cls=f"regs={len(layout)}")
        sd.expect(gd[0] == "ok", (layout, ops), "get_config(diff=True) raised", gd)
        if gd[0] != "ok":
            continue
        cfg = gd[1]
        sd.expect(dump_real_cfg(regs, layout) == st_x, (layout, ops), "get_config(diff=True) changed the object")
        lines.append("get_config_diff")
        real.append("ok:" + enc_cfg(canon_cfg(cfg, layout), sort=True))
        what.append("get_config(diff=True)")
        # exactly what differs from reset
        for ri, r in enumerate(layout):
            reg, name = regs.find_reg(f"REG{ri}"), f"REG{ri}"
            at_reset = pyres(reg.get_value, True) == ("ok", reg.get_reset_value())
            sd.expect((name in cfg) == (not at_reset), (layout, ops, name), "diff configuration: a register is named although it holds its reset value (or left out although it does not)",
                      name in cfg, not at_reset)
            if name in cfg and r["kind"] == "plain" and r["fields"]:
                exp_keys = {fname(ri, fi, f) for fi, f in enumerate(r["fields"])
                            if pyres(reg.find_bitfield(fname(ri, fi, f)).get_value) != ("ok", reg.find_bitfield(fname(ri, fi, f)).get_reset_value())}
                got_keys = set(cfg[name].keys()) if isinstance(cfg[name], dict) else None
                sd.expect(got_keys == exp_keys, (layout, ops, name), "diff configuration: the bit-fields named are not exactly those that differ from their reset value",
                          sorted(got_keys or []), sorted(exp_keys))
        # load into a fresh object
        fresh = build_real_cfg(layout, little)
        fresh_upper = {ri: [pyres(fresh.find_reg(f"REG{ri}_S{k}", include_group_regs=True).get_value)[1] for k in range(r["n"])]
                       for ri, r in enumerate(layout) if r["kind"] == "group"}
        raw_x = [pyres(regs.find_reg(f"REG{ri}").get_value, True) for ri in range(len(layout))]
        enc = enc_cfg(canon_cfg(cfg, layout))
        st_fresh = dump_real_cfg(fresh, layout)
        lr = pyres(quiet, fresh.load_yml_config, _copy.deepcopy(cfg))
        lines += ["restore", f"load_config {enc}"]
        real += ["ok " + st_fresh, (lr[0] + " " + dump_real_cfg(fresh, layout)) if lr[0] == "ok" else lr[0]]
        what += ["fresh object", "load_yml_config(get_config(diff=True)) into a fresh object"]
        sd.expect(lr[0] == "ok", (layout, ops, cfg), "a diff configuration obtained from the object does not load", lr)
        if lr[0] == "ok":
            for ri, r in enumerate(layout):
                a, b = regs.find_reg(f"REG{ri}"), fresh.find_reg(f"REG{ri}")
                ini, api = _initial_and_api_reset(r)
                finding = "C11-reset-value-differs-from-initial-value" if ini != api else None
                if r["kind"] == "plain" and r["fields"]:
                    if r["flip"]:
                        continue
                    for fi, f in enumerate(r["fields"]):
                        va, vb = pyres(a.find_bitfield(fname(ri, fi, f)).get_value), pyres(b.find_bitfield(fname(ri, fi, f)).get_value)
                        sd.expect(va == vb, (layout, ops, "diff", ri, fi, cfg), "a diff configuration loaded into a fresh object does not reproduce a bit-field value", vb, va, finding=finding)
                else:
                    va, vb = pyres(a.get_value, True), pyres(b.get_value, True)
                    if r["kind"] == "group" and r["alts"] and raw_x[ri][0] == "ok" and finding is None:
                        aw = alt_width(r["alts"], r["width"], raw_x[ri][1])
                        if any(x != 0 for x in fresh_upper[ri][aw // r["sub_w"]:]):
                            finding = "C11-alt-width-stale-sub-registers"
                        elif r["reverse"] and alt_unstable(r["alts"], r["width"], raw_x[ri][1]):
                            finding = "C11-alt-width-reversed-trailing-zero-bytes"
                    sd.expect(va == vb, (layout, ops, "diff", ri, cfg), "a diff configuration loaded into a fresh object does not reproduce a register value", vb, va, finding=finding)
        if drv is not None:
            ans = drv.batch(lines)
            model = ans[n_setup - 1:]
            for rs, ms, wh in zip(real, model, what):
                if rs.startswith("E:") and " " not in rs:
                    ms = ms.split(" ")[0]
                if not sd.compare((layout, little, ops, wh), rs, ms, "get_config(diff=True) / loading it: implementation and model differ"):
                    break

    # ------------------------------------------------------------------ ConfigProcessor.from_spec
    from spsdk.utils.registers import ConfigProcessor
    sp = ck.stream("processor_spec", "configuration strings `<NAME>:<KEY>=<int>,...;DESC=<text>` (valid SHIFT_RIGHT strings with decimal / hex / padded counts, lower-case and "
                   "repeated keys, extra keys, missing COUNT, malformed pairs, unknown and empty names) -> ConfigProcessor.from_spec compared with the model's procFromSpec over the "
                   "GENERATED processor table; oracle: a valid SHIFT_RIGHT string yields pre = >> count, post = << count, width + count, pre(post(v)) = v, and post(pre(v)) = v on "
                   "multiples of 2^count; an unknown NAME yields no processor; non-trivial = distinct string")

    def rnd_int_text(n):
        return rng.choice([str(n), hex(n), f" {n} ", f"0x{n:04X}", f"{n}u", f"0b{n:b}"])

    for _ in range(ck.budget(600, 6000)):
        n = rng.choice([0, 1, 4, 8, 31, rng.randrange(64)])
        k = rng.random()
        valid = False
        if k < 0.35:
            spec = f"SHIFT_RIGHT:COUNT={n}" + rng.choice(["", ";DESC=text", ";DESC=a:b,c=d;e", ";"])
            valid = True
        elif k < 0.5:
            spec = f"SHIFT_RIGHT:{rng.choice(['count', 'Count', 'COUNT'])}={rnd_int_text(n)}" + rng.choice(["", ";DESC=x"])
        elif k < 0.62:
            m = rng.randrange(64)
            spec = "SHIFT_RIGHT:" + ",".join(rng.sample([f"COUNT={n}", f"count={m}", f"FOO={m}", f"COUNT={m}", f"Count={n}"], rng.choice([2, 3])))
        elif k < 0.8:
            spec = rng.choice(["SHIFT_RIGHT", "SHIFT_RIGHT:", "SHIFT_RIGHT:COUNT", "SHIFT_RIGHT:COUNT=", f"SHIFT_RIGHT:COUNT={n}=1", "SHIFT_RIGHT:COUNT=x", f"SHIFT_RIGHT:FOO={n}",
                               f"SHIFT_RIGHT:COUNT={n},", f"SHIFT_RIGHT:COUNT={n}:X=1", f"SHIFT_RIGHT;COUNT={n}", f"SHIFT_RIGHT:COUNT=-{n}", f"SHIFT_RIGHT:COUNT={n};COUNT=1",
                               f"SHIFT_RIGHT:,COUNT={n}", f"SHIFT_RIGHT:COUNT = {n}"])
        else:
            spec = rng.choice(["", "NOP", f"NOP:COUNT={n}", f"SHIFT_LEFT:COUNT={n}", f"shift_right:COUNT={n}", f" SHIFT_RIGHT:COUNT={n}", f"SHIFT_RIGHT :COUNT={n}", ":", ";", "=",
                               f"X:COUNT={n}=2"])
        res = pyres(ConfigProcessor.from_spec, spec)
        if res[0] == "ok":
            p = res[1]
            canon_r = "ok:none" if p is None else f"ok:{p.NAME}:{getattr(p, 'count', '')}"
        else:
            canon_r = res[0]
        sp.note(spec, cls="valid" if valid else canon_r.split(":")[0] + (":none" if canon_r == "ok:none" else ""))
        if valid:
            ok = res[0] == "ok" and res[1] is not None and type(res[1]).NAME == "SHIFT_RIGHT"
            sp.expect(ok, spec, "a valid SHIFT_RIGHT configuration string does not yield the SHIFT_RIGHT processor", canon_r)
            if ok:
                p = res[1]
                for v in (0, 1, rng.getrandbits(40), (rng.getrandbits(20) << n)):
                    sp.expect(p.pre_process(v) == v >> n and p.post_process(v) == v << n and p.width_update(v) == v + n and p.pre_process(p.post_process(v)) == v,
                              (spec, v), "SHIFT_RIGHT processor: pre / post / width arithmetic is not >> count / << count / + count", (p.pre_process(v), p.post_process(v), p.width_update(v)))
                    if v % (1 << n) == 0:
                        sp.expect(p.post_process(p.pre_process(v)) == v, (spec, v), "post(pre(v)) != v on the accepted domain", p.post_process(p.pre_process(v)), v)
        if spec.split(":")[0] not in ("SHIFT_RIGHT",):
            sp.expect(canon_r == "ok:none", spec, "an unknown processor name does not yield 'no processor'", canon_r, "ok:none")
        if drv is not None:
            sp.compare(spec, canon_r, drv.batch(["proc_spec " + (spec.encode().hex() or "-")])[0], "ConfigProcessor.from_spec: implementation and model differ")

    # ------------------------------------------------------------------ look-up by name / alias / uid
    sl = ck.stream("lookup", "layouts of the configuration stream with alias names and uids that collide with other names -> find_reg(x, include_group_regs) / get_reg(uid) / "
                   "find_bitfield(x) for every name, alias, uid, member name, member uid and unknown strings, compared with the model (identity of the object found); oracle: the "
                   "object found carries the string as name, alias or uid, a top-level name is always found, members only with include_group_regs, unknown -> SPSDK error, the "
                   "look-up leaves the object unchanged; non-trivial = distinct (layout, query)")
    for li in range(ck.budget(250, 3000)):
        layout = gen_layout_cfg(rng)
        try:
            regs = build_real_cfg(layout, False)
        except Exception as exc:  # noqa: BLE001
            sl.expect(False, layout, f"generated layout does not load: {type(exc).__name__}: {exc}")
            continue
        ids = {"": 0}

        def nid(x):
            return ids.setdefault(x, len(ids))
        top = [regs.find_reg(f"REG{ri}") for ri in range(len(layout))]
        for ri, reg in enumerate(top):
            for _ in range(rng.choice([0, 0, 1, 2])):
                reg.add_alias(rng.choice([f"AL{rng.randrange(4)}", f"REG{rng.randrange(len(layout))}", f"r{rng.randrange(len(layout))}"]))
            if layout[ri]["kind"] == "plain" and rng.random() < 0.2:
                reg.uid = rng.choice([f"REG{rng.randrange(len(layout))}", f"AL{rng.randrange(4)}", reg.uid])
        objs, table = {}, []
        for ri, reg in enumerate(top):
            objs[id(reg)] = f"t{ri}"
            subs = []
            for k, sr in enumerate(reg.sub_regs):
                objs[id(sr)] = f"s{ri}.{k}"
                subs.append(f"{nid(sr.name)}.{nid(sr.uid)}")
            table.append(f"{nid(reg.name)}/{nid(reg.uid)}/{','.join(str(nid(a)) for a in reg._alias_names) or '-'}/{'+'.join(subs) or '-'}")
        queries = set(ids) - {""} | {"NOPE", "REG9", "r0s9"}
        lines, real, qs = ["names " + ";".join(table)], [None], [None]
        def dump_top():
            return [(pyres(t.get_value, True), [pyres(b.get_value) for b in t._bitfields], [pyres(x.get_value, True) for x in t.sub_regs], list(t._alias_names)) for t in top]
        st0 = dump_top()
        n0 = len(regs.get_registers())
        for q in sorted(queries):
            for incl in (False, True):
                res = pyres(regs.find_reg, q, incl)
                sl.note((li, q, incl), cls="found" if res[0] == "ok" else res[0])
                if res[0] == "ok":
                    o = res[1]
                    sl.expect(q == o.name or q in o._alias_names or q == o.uid, (layout, q, incl), "find_reg returned a register that does not carry the string", o.name)
                    sl.expect(incl or id(o) in {id(t) for t in top}, (layout, q, incl), "find_reg returned a group member without include_group_regs", o.name)
                else:
                    sl.expect(res[0] == "E:spsdk", (layout, q, incl), "find_reg raised a non-SPSDK exception", res)
                    sl.expect(not any(q == t.name or q in t._alias_names or q == t.uid for t in top), (layout, q, incl), "find_reg does not find an existing top-level register", res)
                lines.append(f"find {nid(q)} {int(incl)}")
                real.append("ok:" + (objs.get(id(res[1]), "?") if res[0] == "ok" else "none"))
                qs.append((q, incl))
            res = pyres(regs.get_reg, q)
            lines.append(f"get_uid {nid(q)}")
            real.append("ok:" + (objs.get(id(res[1]), "?") if res[0] == "ok" else "none"))
            qs.append((q, "uid"))
            if res[0] == "ok":
                sl.expect(res[1].uid == q, (layout, q), "get_reg returned a register with another uid", res[1].uid)
        sl.expect(dump_top() == st0 and len(regs.get_registers()) == n0 and [id(x) for x in regs._registers] == [id(t) for t in top], layout, "a look-up changed the object")
        for ri, r in enumerate(layout):
            if r["kind"] != "plain" or not r["fields"]:
                continue
            reg = top[ri]
            bfs = reg._bitfields
            if rng.random() < 0.3 and len(bfs) > 1:
                bfs[-1].uid = bfs[0].name          # a uid that collides with an earlier name
            enc = ",".join(f"{nid(b.name)}.{nid(b.uid)}" for b in bfs)
            for q in sorted({b.name for b in bfs} | {b.uid for b in bfs if b.uid} | {"NO_FIELD"}):
                res = pyres(reg.find_bitfield, q)
                sl.note((li, ri, q), cls="bitfield:" + ("found" if res[0] == "ok" else res[0]))
                if res[0] == "ok":
                    sl.expect(res[1].name == q or res[1].uid == q, (layout, ri, q), "find_bitfield returned a bit-field that does not carry the string", res[1].name)
                else:
                    sl.expect(res[0] == "E:spsdk" and not any(b.name == q or b.uid == q for b in bfs), (layout, ri, q), "find_bitfield does not find an existing bit-field", res)
                lines.append(f"find_bf {enc} {nid(q)}")
                real.append("ok:" + (str([id(b) for b in bfs].index(id(res[1]))) if res[0] == "ok" else "none"))
                qs.append((ri, q))
        if drv is not None:
            ans = drv.batch(lines)
            for rs, ms, q in zip(real, ans, qs):
                if rs is None:
                    continue
                if not sl.compare((layout, table, q), rs, ms, "look-up by name / alias / uid: implementation and model differ"):
                    break

    # ------------------------------------------------------------------ export / parse with gaps
    from spsdk.utils.misc import BinaryPattern, Endianness
    from spsdk.utils.registers import Registers
    import logging
    sx = ck.stream("sparse_export", "1-6 registers of 8..128 bits at random non-overlapping byte offsets (gaps, unsorted order, first offset not 0), both base endiannesses, zeros / ones "
                   "fill pattern -> len(image_info()), export() and parse() of binaries that are longer / exact / shorter, compared with the model; oracle: the image is as long as the "
                   "furthest register end, every register's bytes sit at its offset in base endianness, every other byte is the pattern byte, parse(export()) into a fresh object "
                   "restores every value; non-trivial = distinct (layout, values)")
    for li in range(ck.budget(300, 4000)):
        little = rng.random() < 0.5
        n = rng.choice([1, 2, 3, 4, 6])
        pos, placed = rng.choice([0, 0, 1, 4, 16]), []
        for ri in range(n):
            w = rng.choice([8, 16, 32, 32, 64, 128])
            placed.append((pos, w))
            pos += w // 8 + rng.choice([0, 0, 1, 3, 4, 12])
        order = list(range(n))
        if rng.random() < 0.5:
            rng.shuffle(order)
        spec_regs = [{"id": f"x{ri}", "name": f"X{ri}", "offset_int": hex(placed[ri][0]), "reg_width": placed[ri][1]} for ri in order]

        def build():
            logging.disable(logging.CRITICAL)
            try:
                o = Registers(family="verif_dummy", feature="verif", base_endianness=Endianness.LITTLE if little else Endianness.BIG)
                o._load_from_spec({"groups": [{"group": {"name": "g"}, "registers": spec_regs}]}, [])
            finally:
                logging.disable(logging.NOTSET)
            return o
        try:
            regs = build()
        except Exception as exc:  # noqa: BLE001
            sx.expect(False, spec_regs, f"generated layout does not load: {type(exc).__name__}: {exc}")
            continue
        vals = {}
        lines = [f"new {int(little)}"]
        for ri in order:
            lines.append(f"reg {placed[ri][1]} 0 0 0 0 0")
        lines.append("offs " + ",".join(str(placed[ri][0]) for ri in order))
        for k, ri in enumerate(order):
            v = rng.choice([0, (1 << placed[ri][1]) - 1, rng.getrandbits(placed[ri][1])])
            vals[ri] = v
            regs.find_reg(f"X{ri}").set_value(v, raw=True)
            lines.append(f"set_reg {k} {v} 1")
        n_setup = len(lines)
        ones = rng.random() < 0.3
        end = max(o + w // 8 for o, w in placed)
        ln = pyres(lambda: len(regs.image_info()))
        ex = pyres(regs.export, 0, BinaryPattern("ones")) if ones else pyres(regs.export)
        sx.note((little, spec_regs, sorted(vals.items())), cls=f"regs={n}" + (",ones" if ones else ""))
        sx.expect(ln == ("ok", end), (little, spec_regs), "image length is not the furthest register end", ln, end)
        okx = ex[0] == "ok" and len(ex[1]) == end
        sx.expect(okx, (little, spec_regs), "export() failed or has the wrong length", ex if ex[0] != "ok" else len(ex[1]), end)
        real = [f"ok:{ln[1]}" if ln[0] == "ok" else ln[0], ("ok:" + ex[1].hex()) if ex[0] == "ok" else ex[0]]
        lines += ["image_len", f"export_at {255 if ones else 0}"]
        if okx:
            exp = bytearray([0xFF if ones else 0]) * end
            for ri, (o, w) in enumerate(placed):
                exp[o:o + w // 8] = vals[ri].to_bytes(w // 8, "little" if little else "big")
            sx.expect(bytes(ex[1]) == bytes(exp), (little, spec_regs, sorted(vals.items())), "export(): a register's bytes are not at its offset / a gap byte is not the pattern", ex[1].hex(), bytes(exp).hex())
            fresh = build()
            pr = pyres(fresh.parse, bytes(ex[1]))
            back = {ri: pyres(fresh.find_reg(f"X{ri}").get_value, True) for ri in range(n)}
            sx.expect(pr[0] == "ok" and all(back[ri] == ("ok", vals[ri]) for ri in range(n)), (little, spec_regs, sorted(vals.items())), "parse(export()) into a fresh object does not restore every value", back)
        for _ in range(2):
            blen = rng.choice([end, end + rng.randrange(1, 9), rng.randrange(0, end + 1)])
            data = bytes(rng.getrandbits(8) for _ in range(blen))
            tgt = build()
            pr = pyres(tgt.parse, data)
            state = " ".join(f"{tgt.find_reg(f'X{ri}').get_value(True)}/{tgt.find_reg(f'X{ri}').get_value(False)}[]" for ri in order)
            lines += ["reset_all", f"parse_at {data.hex() or '-'}"]
            real += [None, (pr[0] + " " + state) if pr[0] == "ok" else pr[0]]
        if drv is not None:
            ans = drv.batch(lines)[n_setup:]
            for rs, ms in zip(real, ans):
                if rs is None:
                    continue
                if rs.startswith("E:") and " " not in rs:
                    ms = ms.split(" ")[0]
                if not sx.compare((little, spec_regs, sorted(vals.items())), rs, ms, "export / parse with gaps: implementation and model differ"):
                    break


def replay(ck, data):
    run(ck)
