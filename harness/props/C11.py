"""C11 - registers and bit-fields behave as independent bit-vectors (spsdk/utils/registers.py).

Layouts are generated from a grammar, turned into an in-memory spec dict and loaded with
`Registers._load_from_spec`; random op sequences are applied to the real object and to the Lean
model (`drv_c11`), and after *every* op the complete observable state (raw + processed register
values, every bit-field value) is compared.  Independently the property oracle keeps its own
"last written value" map (the abstract spec of the refinement theorem) and checks the real object
against it, plus export/parse, config round trip and purity of read-only queries.
"""
from __future__ import annotations

import copy

from vcore import canon, hexs, pyres


def gen_layout(rng, allow_reverse=True):
    """-> list of register descriptors (contiguous offsets)."""
    regs = []
    off = 0
    nregs = rng.choice([1, 2, 3, 4])
    for ri in range(nregs):
        kind = rng.choices(["plain", "group"], [0.8, 0.2])[0]
        if kind == "plain":
            width = rng.choice([8, 16, 32, 32, 32, 64, 128, 256, 512])
            fields = []
            pos = 0
            if rng.random() < 0.85:
                while pos < width and len(fields) < 10:
                    if rng.random() < 0.25:  # gap
                        pos += rng.choice([1, 2, 3, 8])
                        continue
                    w = rng.choice([1, 1, 2, 3, 4, 7, 8, 13, 16, 31, 32, width - pos, width])
                    w = max(1, min(w, width - pos))
                    shift = rng.choice([0, 0, 0, 0, 1, 4]) if w < 30 else 0
                    enums = sorted(rng.sample(range(0, min(1 << w, 64)), k=min(rng.choice([0, 0, 2, 3]), 1 << w)))
                    reset = rng.choice([0, 0, 1, (1 << w) - 1, rng.randrange(1 << w)])
                    fields.append(dict(offset=pos, width=w, shift=shift, enums=enums, reset=reset << shift))
                    pos += w
            reverse = False  # Register.create_from_spec always passes reverse=False; only groups can be reversed
            reset_raw = rng.choice([0, 0, rng.getrandbits(width)])
            regs.append(dict(kind="plain", width=width, offset=off, reverse=reverse, reset=reset_raw, fields=fields))
            off += width // 8
        else:
            sub_w = rng.choice([8, 16, 32])
            n = rng.choice([2, 3, 4, 8])
            regs.append(dict(kind="group", width=sub_w * n, offset=off, sub_w=sub_w, n=n,
                             reverse=allow_reverse and rng.random() < 0.3, rev_subs=rng.random() < 0.4,
                             sub_resets=[rng.choice([0, rng.getrandbits(sub_w)]) for _ in range(n)]))
            off += sub_w * n // 8
    return regs


def to_spec(layout):
    """spec dict + grouped_regs list for Registers._load_from_spec."""
    spec_regs, grouped = [], []
    for ri, r in enumerate(layout):
        if r["kind"] == "plain":
            bfs, pos = [], 0
            for fi, f in enumerate(r["fields"]):
                if f["offset"] != pos:
                    bfs.append({"width": f["offset"] - pos})
                b = {"id": f"r{ri}f{fi}", "name": f"F{ri}_{fi}", "width": f["width"], "access": "RW",
                     "reset_value_int": hex(f["reset"] >> f["shift"]) if False else hex(f["reset"]),
                     "values": [{"name": f"E{k}", "value": hex(v), "description": ""} for k, v in enumerate(f["enums"])]}
                if f["shift"]:
                    b["config_preprocess"] = f"SHIFT_RIGHT:COUNT={f['shift']}"
                bfs.append(b)
                pos = f["offset"] + f["width"]
            spec_regs.append({"id": f"r{ri}", "name": f"REG{ri}", "offset_int": hex(r["offset"]), "reg_width": r["width"],
                              "reset_value_int": hex(r["reset"]), "bitfields": bfs})
        else:
            subs = []
            for k in range(r["n"]):
                subs.append(f"r{ri}s{k}")
                spec_regs.append({"id": f"r{ri}s{k}", "name": f"REG{ri}_S{k}", "offset_int": hex(r["offset"] + k * r["sub_w"] // 8),
                                  "reg_width": r["sub_w"], "reset_value_int": hex(r["sub_resets"][k])})
            grouped.append({"uid": f"r{ri}", "name": f"REG{ri}", "sub_regs": subs, "reversed": r["reverse"],
                            "reverse_subregs_order": r["rev_subs"]})
    return {"groups": [{"group": {"name": "g"}, "registers": spec_regs}]}, grouped


def model_lines(layout, little):
    lines = [f"new {int(little)}"]
    for r in layout:
        if r["kind"] == "plain":
            lines.append(f"reg {r['width']} {int(r['reverse'])} {r['reset']} 0 0 0")
            for f in r["fields"]:
                en = ",".join(map(str, f["enums"])) or "-"
                lines.append(f"field {f['offset']} {f['width']} {f['shift']} {f['reset']} {en}")
        else:
            lines.append(f"reg {r['width']} {int(r['reverse'])} 0 {r['sub_w']} {r['n']} {int(r['rev_subs'])}")
    return lines


def build_real(layout, little):
    from spsdk.utils.misc import Endianness
    from spsdk.utils.registers import Registers
    import logging
    logging.disable(logging.CRITICAL)
    regs = Registers(family="verif_dummy", feature="verif", base_endianness=Endianness.LITTLE if little else Endianness.BIG)
    logging.disable(logging.NOTSET)
    spec, grouped = to_spec(layout)
    regs._load_from_spec(spec, grouped)
    return regs


def dump_real(regs, layout):
    out = []
    for ri, r in enumerate(layout):
        reg = regs.find_reg(f"REG{ri}")

        def g(raw):
            res = pyres(reg.get_value, raw)
            return str(res[1]) if res[0] == "ok" else res[0]
        fs = []
        if r["kind"] == "plain":
            for fi, _f in enumerate(r["fields"]):
                res = pyres(reg.find_bitfield(f"F{ri}_{fi}").get_value)
                fs.append(str(res[1]) if res[0] == "ok" else res[0])
        out.append(f"{g(True)}/{g(False)}[{','.join(fs)}]")
    return " ".join(out)


def init_model_subregs(layout, regs):
    """sub-register reset values are applied at load; mirror them as ops on the model."""
    lines = []
    for ri, r in enumerate(layout):
        if r["kind"] == "group":
            # assemble group raw value from sub resets and set it raw
            val = 0
            for k, sv in enumerate(r["sub_resets"]):
                pos = (r["width"] - (k + 1) * r["sub_w"]) if r["rev_subs"] else k * r["sub_w"]
                val |= sv << pos
            lines.append(f"set_reg {ri} {val} 1")
    return lines


def gen_value(rng, w):
    return rng.choice([0, 1, (1 << w) - 1, 1 << w, (1 << w) + 1, rng.getrandbits(w), rng.getrandbits(w), rng.getrandbits(w + 3)])


def run(ck):
    from spsdk.utils.registers import Registers  # noqa: F401

    ck.lean_obligations()
    drv = ck.driver()
    rng = ck.rng
    ck.assume("config processors other than SHIFT_RIGHT, YAML comment rendering and HTML export are not modelled",
              "layouts are contiguous (offsets back to back) in the correspondence stream; sparse layouts go through C12/C16",
              "alternative widths (alt_widths) are exercised by the oracle stream only, not by the model")

    n_layouts = ck.budget(1200, 12000)
    n_ops = ck.budget(25, 40)
    s = ck.stream("op_sequences", f"{n_layouts} random layouts (1-4 registers of 8..512 bits; bit-fields at arbitrary offsets/widths incl. full width, "
                  f"gaps, enums, SHIFT_RIGHT processors; grouped registers with 2-8 sub-registers, normal and reversed order; reversed byte order) x {n_ops} random ops "
                  "(set register raw/processed, set field by int / enum name, reset, reset all, parse, export) with values from "
                  "{0,1,2^w-1,2^w,2^w+1,random,random+3 bits}; the full state is compared after every op; non-trivial = distinct (layout, op-sequence)")
    sq = ck.stream("queries_config", "per layout: read-only queries (get_registers/get_reg_names with include_group_regs, find_reg, get_config, export, image_info) "
                   "must not change the object; export->parse and get_config->load_yml_config restore every value; non-trivial = distinct layout state")
    for li in range(n_layouts):
        layout = gen_layout(rng)
        little = rng.random() < 0.5
        try:
            regs = build_real(layout, little)
        except Exception as exc:  # noqa: BLE001
            s.expect(False, layout, f"generated layout does not load: {type(exc).__name__}: {exc}")
            continue
        lines = model_lines(layout, little) + ["init"] + init_model_subregs(layout, regs) + ["dump"]
        ops_desc = []
        # abstract spec: last written value per (reg, field) -- maintained only through successful writes
        real_states = [dump_real(regs, layout)]
        for _ in range(n_ops):
            ri = rng.randrange(len(layout))
            r = layout[ri]
            reg = regs.find_reg(f"REG{ri}")
            choice = rng.random()
            before = dump_real(regs, layout)
            if choice < 0.30:
                v = gen_value(rng, r["width"])
                raw = rng.random() < 0.5
                res = pyres(reg.set_value, v, raw)
                line = f"set_reg {ri} {v} {int(raw)}"
                ops_desc.append(("set_reg", ri, v, raw))
                if res[0] == "ok":
                    got = pyres(reg.get_value, raw)
                    s.expect(got == ("ok", v), (layout, ops_desc[-1]), "register does not read back the value just written", got, v)
                else:
                    s.expect(res[0] == "E:spsdk" and v >= (1 << r["width"]), (layout, ops_desc[-1]), "register write rejected/accepted wrongly", res)
                s.expect((v < (1 << r["width"])) == (res[0] == "ok"), (layout, ops_desc[-1]), "a value that does not fit the register is not rejected (or a fitting one is)", res)
            elif choice < 0.70 and r["kind"] == "plain" and r["fields"]:
                fi = rng.randrange(len(r["fields"]))
                f = r["fields"][fi]
                bf = reg.find_bitfield(f"F{ri}_{fi}")
                others = [(k, pyres(reg.find_bitfield(f"F{ri}_{k}").get_value)) for k in range(len(r["fields"])) if k != fi]
                if f["enums"] and rng.random() < 0.3:
                    k = rng.randrange(len(f["enums"]))
                    res = pyres(bf.set_enum_value, f"E{k}")
                    line = f"set_enum {ri} {fi} {k}"
                    ops_desc.append(("set_enum", ri, fi, k))
                    written = (f["enums"][k] >> f["shift"])
                    fits = written < (1 << f["width"])
                else:
                    v = gen_value(rng, f["width"]) << f["shift"]
                    raw = rng.random() < 0.5
                    res = pyres(bf.set_value, v, raw)
                    line = f"set_field {ri} {fi} {v} {int(raw)}"
                    ops_desc.append(("set_field", ri, fi, v, raw))
                    written = v >> f["shift"]
                    fits = written < (1 << f["width"])
                    if not r["reverse"] or not raw:
                        pass
                s.expect(fits == (res[0] == "ok"), (layout, ops_desc[-1]),
                         "a bit-field value that does not fit is not rejected (silent truncation) or a fitting one is rejected", res)
                if res[0] == "ok" and fits and not (r["reverse"] and ops_desc[-1][0] == "set_field" and ops_desc[-1][4]):
                    got = pyres(bf.get_value)
                    s.expect(got == ("ok", written << f["shift"]), (layout, ops_desc[-1]), "bit-field does not read the value just written", got, written << f["shift"])
                    for k, old in others:
                        now = pyres(reg.find_bitfield(f"F{ri}_{k}").get_value)
                        s.expect(now == old, (layout, ops_desc[-1], k), "writing a bit-field disturbed a neighbour", now, old)
                if res[0] != "ok":
                    s.expect(dump_real(regs, layout) == before, (layout, ops_desc[-1]), "a rejected write changed the register file")
            elif choice < 0.78:
                res = pyres(reg.reset_value, True)
                line = f"reset {ri}"
                ops_desc.append(("reset", ri))
            elif choice < 0.82:
                res = pyres(regs.reset_values)
                line = "reset_all"
                ops_desc.append(("reset_all",))
            else:
                total = sum(x["width"] // 8 for x in layout)
                ln = rng.choice([total, total, total, max(0, total - 1), total + 3, rng.randrange(total + 1)])
                blob = bytes(rng.getrandbits(8) for _ in range(ln))
                res = pyres(regs.parse, blob)
                line = f"parse {hexs(blob)}"
                ops_desc.append(("parse", blob))
                if res[0] == "ok" and ln >= total:
                    ex = pyres(regs.export)
                    s.expect(ex == ("ok", blob[:total]), (layout, ops_desc[-1]), "export after parse does not reproduce the parsed bytes", ex, blob[:total])
            lines.append(line)
            real_states.append((res[0] if res[0] != "ok" else "ok") + " " + dump_real(regs, layout))
        lines.append("export")
        real_export = canon(pyres(regs.export))
        s.note((layout, ops_desc), cls=f"regs={len(layout)}")
        if drv is not None:
            ans = drv.batch(lines)
            # answers: new/reg/field lines -> "ok"; from "init" on, state dumps
            idx_init = lines.index("init")
            nsub = len(init_model_subregs(layout, regs))
            model_states = ans[idx_init + 1 + nsub:]  # first is "dump" answer
            ok = s.compare((layout, little, "initial"), "ok " + real_states[0], model_states[0], "state after load differs")
            if ok:
                for k, (rs, ms) in enumerate(zip(real_states[1:], model_states[1:-1])):
                    if not s.compare((layout, little, ops_desc[:k + 1]), rs, ms, "state after op differs between implementation and model"):
                        break
                else:
                    s.compare((layout, little, ops_desc, "export"), real_export, model_states[-1], "export differs")

        # ---------------- queries / config / export-parse on the final state
        st0 = dump_real(regs, layout)
        n0 = len(regs._registers)
        cfg = None
        for qname, q in (("get_registers(group)", lambda: regs.get_registers(include_group_regs=True)),
                         ("get_reg_names(group)", lambda: regs.get_reg_names(include_group_regs=True)),
                         ("get_registers", lambda: regs.get_registers()),
                         ("get_reg_names(exclude)", lambda: regs.get_reg_names(exclude=["REG0"])),
                         ("find_reg", lambda: regs.find_reg("REG0", include_group_regs=True)),
                         ("get_config", lambda: regs.get_config()), ("get_config(diff)", lambda: regs.get_config(diff=True)),
                         ("export", lambda: regs.export()), ("image_info", lambda: len(regs.image_info())),
                         ("len", lambda: len(regs)), ("str", lambda: str(regs))):
            res = pyres(q)
            sq.note((li, qname))
            sq.expect(res[0] == "ok", (layout, qname), "read-only query raised", res)
            sq.expect(dump_real(regs, layout) == st0 and len(regs._registers) == n0 and len(regs.get_registers()) <= n0,
                      (layout, qname), "a read-only query changed the register file", (len(regs._registers), n0))
            if qname == "get_config" and res[0] == "ok":
                cfg = res[1]
        # export -> parse into a fresh object restores every value
        ex = pyres(regs.export)
        if ex[0] == "ok":
            fresh = build_real(layout, little)
            pr = pyres(fresh.parse, ex[1])
            sq.expect(pr[0] == "ok" and dump_real(fresh, layout) == st0, (layout, "export/parse"), "parse(export()) does not restore every value", dump_real(fresh, layout), st0)
        # get_config -> load_yml_config into a fresh object restores the state (fields cover which bits? compare field + register values
        # only when every bit of every register with bit-fields is covered by a field; otherwise compare field values)
        if cfg is not None:
            fresh = build_real(layout, little)
            # registers without bit-fields / groups are in the config as hex values; registers with fields as field dicts
            lr = pyres(fresh.load_yml_config, copy.deepcopy(cfg))
            sq.note((li, "config_roundtrip"))
            if lr[0] == "ok":
                for ri, r in enumerate(layout):
                    a, b = regs.find_reg(f"REG{ri}"), fresh.find_reg(f"REG{ri}")
                    if r["kind"] == "plain" and r["fields"]:
                        for fi, f in enumerate(r["fields"]):
                            va, vb = pyres(a.find_bitfield(f"F{ri}_{fi}").get_value), pyres(b.find_bitfield(f"F{ri}_{fi}").get_value)
                            sq.expect(va == vb, (layout, "config", ri, fi, cfg), "a configuration obtained from the object does not load back to the same bit-field value", vb, va)
                    else:
                        va, vb = pyres(a.get_value, True), pyres(b.get_value, True)
                        sq.expect(va == vb, (layout, "config", ri, cfg), "a configuration obtained from the object does not load back to the same register value", vb, va)
            else:
                sq.expect(False, (layout, "config", cfg), "a configuration obtained from the object does not load", lr)

    # ---------------- alternative widths (oracle only)
    sa = ck.stream("alt_widths", "group registers with alternative widths: set/get round trip for values of every byte length; non-trivial = distinct (layout,value)")
    from spsdk.utils.registers import Register
    for sub_w, n, alts in ((32, 12, [256]), (32, 4, [64]), (8, 4, [16])):
        for rev_subs in (False,):
            grp = Register(name="G", offset=0, width=0, uid="g", alt_widths=list(alts), reverse_subregs_order=rev_subs)
            for k in range(n):
                grp._add_group_reg(Register(name=f"S{k}", offset=k * sub_w // 8, width=sub_w, uid=f"s{k}"))
            for alt in alts + [sub_w * n]:
                for v in (0, 1, (1 << alt) - 1, rng.getrandbits(alt) | 1 << (alt - 1)):
                    res = pyres(grp.set_value, v, True)
                    got = pyres(grp.get_value, True)
                    sa.note((sub_w, n, alts, rev_subs, v))
                    if rev_subs and alt != grp.width:
                        continue  # documented limitation: reversed sub-register order positions depend on the (alt) width on set but on the full width on get
                    sa.expect(res[0] == "ok" and got == ("ok", v), (sub_w, n, alts, rev_subs, v), "alt-width group register does not read back the written value", got, v)


def replay(ck, data):
    run(ck)
