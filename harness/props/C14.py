"""C14 - bootable image: segments land at the device offsets and come back on parse.

Obligations   : Properties/C14.lean over Model/Bimg.lean + Generated/BimgTables.lean (every (family, revision,
                memory type) row of the bootable_image feature, resolved statically from the database YAML files,
                and the class constants of the 16 Segment* classes).
Cross-check   : the generated rows / class constants are compared with the live `get_db`/`BootableImage`/segment
                classes first; a mismatch is an infrastructure error (the extractor no longer mirrors the loader).
Correspondence: real `BootableImage` (load_from_config / get_segment_offset / len / export / parse) vs the native
                model driver on every row.
Oracle        : the property's statement evaluated on the real objects, independent of the model: offsets =
                table offset - init (static) or aligned end of the predecessor (dynamic), segment bytes at their
                offsets, gaps = device pattern, no overlap, export(init) = export(0)[init:], parse recovers the bytes
                (also for images that start at a later initial offset).
"""
from __future__ import annotations

import hashlib
import logging
import os
import re
import struct
import zlib

from vcore import Infra, pyres

TESTDATA = "/repo/tests/nxpimage/data"
FINDING_MISDETECT = "C14-later-start-misdetected"
FINDING_UNTYPED = "C14-untyped-parse-mbi-lenient"
APP_PARSERS = ("SegmentMbi", "SegmentHab", "SegmentAhab", "SegmentSB21", "SegmentSB31")


# ====================================================================================== payload factory
def prbytes(tag: str, n: int) -> bytes:
    """deterministic pseudo-random bytes in 1..254 (never looks like zeros/ones padding)"""
    raw = hashlib.shake_128(tag.encode()).digest(n)
    return bytes(1 + b % 254 for b in raw)


class Factory:
    """Builds segment payloads from a textual spec (so that a replay file fully determines the bytes)."""

    def __init__(self, scratch):
        self.scratch = scratch
        os.makedirs(scratch, exist_ok=True)
        self.cache = {}
        self.files = {}
        self.replaced = []
        self.mbi_cfg, self.hab_cfg, self.ahab_cfg = {}, {}, {}

    def path(self, data: bytes) -> str:
        h = hashlib.blake2b(data, digest_size=10).hexdigest()
        p = self.files.get(h)
        if p is None:
            p = os.path.join(self.scratch, h + ".bin")
            with open(p, "wb") as fh:
                fh.write(data)
            self.files[h] = p
        return p

    def build(self, family: str, revision: str, spec: str, check=None) -> bytes:
        """`check` = (segment class name, memory type label) for application containers: the container must be accepted by
        the segment's own parser when it stands alone (the `Delimit` assumption, validated where the payload is made);
        a variant that is not (e.g. a degenerate application the exporter did not refuse) is replaced by the canonical one."""
        key = (spec,) if spec.split(":")[0] in ("raw", "fcb", "sb21", "sb31", "xmcd") else (family, revision, spec)
        if key not in self.cache:
            try:
                data = self._build(family, revision, spec)
                if check is not None and not self.standalone_ok(family, revision, check, data):
                    raise ValueError("the segment parser does not take the container back")
            except Exception:  # noqa: BLE001
                fb = CANONICAL.get(spec.split(":")[0])
                if check is None or fb is None or fb == spec:
                    raise
                data = self.build(family, revision, fb, check)
                self.replaced.append(f"{family}/{revision}: {spec} -> {fb}")
            self.cache[key] = data
        return self.cache[key]

    def standalone_ok(self, family, revision, check, data) -> bool:
        from spsdk.image.bootable_image import segments as S
        from spsdk.image.mem_type import MemoryType
        seg = getattr(S, check[0])(0, family, MemoryType.from_label(check[1]), revision)
        try:
            seg.parse_binary(data)
            if seg.export() != data or len(seg) != len(data) or seg.find_segment_offset(data) != 0:
                return False
            seg.image_info().export()
            return not seg.verify().has_errors
        except Exception:  # noqa: BLE001
            return False

    def _build(self, family, revision, spec):
        p = spec.split(":")
        kind = p[0]
        if kind == "raw":  # raw:<label>:<size>:<salt>
            return prbytes(spec, int(p[2]))
        if kind == "mix":  # mix:<label>:<size>:<variant>:<salt> - only 0x00 / 0xFF bytes (a partially programmed flash area)
            n, v, salt = int(p[2]), int(p[3]), int(p[4])
            k = 1 + salt % max(1, n - 1) if n > 1 else 1
            z, f = b"\x00", b"\xff"
            return {0: z * k + f * (n - k), 1: f * k + z * (n - k), 2: (z + f) * (n // 2) + z * (n % 2), 3: f * (k - 1) + z + f * (n - k),
                    4: z * (k - 1) + f + z * (n - k), 5: z * n, 6: f * n}[v][:n]
        if kind == "fcb":  # fcb:<size>:<salt>:<0|1 swapped tag>
            from spsdk.image.fcb.fcb import FCB
            tag = FCB.TAG_SWAPPED if p[3] == "1" else FCB.TAG
            return tag + prbytes(spec, int(p[1]) - len(tag))
        if kind == "fcbdef":  # fcbdef:<memory type>: the FCB class's own default block for the family
            from spsdk.image.fcb.fcb import FCB
            from spsdk.image.mem_type import MemoryType
            return FCB(family, MemoryType.from_label(p[1]), revision).export()
        if kind == "xmcd":  # xmcd:<relative path under tests/nxpimage/data/xmcd>
            with open(os.path.join(TESTDATA, "xmcd", p[1]), "rb") as fh:
                return fh.read()
        if kind == "mbi":  # mbi:<plain|crc>:<app length>
            return self._mbi(family, p[1], int(p[2]))
        if kind == "hab":  # hab:<ivt offset>:<initial load size>:<app length>
            return self._hab(int(p[1]), int(p[2]), int(p[3]))
        if kind == "ahab":  # ahab:<target memory>:<image length>
            return self._ahab(family, revision, p[1], int(p[2]))
        if kind == "sb21":  # sb21:<trailing length>
            from spsdk.sbfile.sb2.headers import ImageHeaderV2
            import datetime
            h = ImageHeaderV2(version="2.1", build_number=1, flags=0x08, nonce=bytes(range(16)),
                              timestamp=datetime.datetime(2024, 1, 1, tzinfo=datetime.timezone.utc))
            h.image_blocks, h.first_boot_tag_block, h.key_blob_block, h.header_blocks = 10, 8, 6, 6
            h.max_section_mac_count, h.offset_to_certificate_block = 1, 0x100
            return h.export() + prbytes(spec, int(p[1]))
        if kind == "sb31":  # sb31:<trailing length>
            from spsdk.crypto.hash import EnumHashAlgorithm
            from spsdk.sbfile.sb31.images import SecureBinary31Header
            h = SecureBinary31Header(firmware_version=1, hash_type=EnumHashAlgorithm.SHA256, description="verif", timestamp=0x1234)
            return h.export() + prbytes(spec, int(p[1]))
        raise ValueError("unknown payload spec " + spec)

    def _mbi(self, family, auth, n):
        from spsdk.image.mbi.mbi import get_mbi_class
        last = None
        for src in ("synthetic", "mc56"):
            if src == "synthetic":
                app = bytearray(prbytes(f"app/{n}", n))
                app[0:12] = struct.pack("<III", 0x20002000, 0x00000141, 0x00000151)
            else:
                with open(os.path.join(TESTDATA, "workspace/input_images/mc56xx_flash_image_short.bin"), "rb") as fh:
                    app = bytearray(fh.read())
                app += prbytes(f"app/{n}", n % 64 * 4)
            cfg = {"family": family, "outputImageExecutionTarget": "xip", "outputImageAuthenticationType": auth,
                   "inputImageFile": self.path(bytes(app)), "outputImageExecutionAddress": 0, "masterBootOutputFile": "x.bin",
                   "enableHwUserModeKeys": False, "lifeCycle": "OEM_CLOSED_ROP1"}
            try:
                m = get_mbi_class(cfg)()
                m.load_from_config(cfg)
                data = m.export()
                m.parse(family, data).export()   # an application the family's image format cannot hold does not re-export
                self.mbi_cfg[(family, auth, n)] = cfg
                return data
            except Exception as exc:  # noqa: BLE001 - try the next application source
                last = exc
        raise last

    def _hab(self, ivt, ils, n):
        from spsdk.image.hab.hab_container import HabContainer
        start = 0x30000000
        app = bytearray(prbytes(f"habapp/{n}", n))
        app[0:8] = struct.pack("<II", 0x20002000, start + ils + 0x41)
        cfg = {"options": {"flags": 0, "startAddress": start, "ivtOffset": ivt, "initialLoadSize": ils},
               "inputImageFile": self.path(bytes(app)), "sections": []}
        import copy
        self.hab_cfg[(ivt, ils, n)] = copy.deepcopy(cfg)
        return HabContainer.load_from_config(HabContainer.transform_bd_configuration(cfg)).export()

    def _ahab(self, family, revision, target, n):
        from spsdk.image.ahab.ahab_image import AHABImage
        core = self.cache.get(("core", family, revision))
        if core is None:
            core = _first_enum(AHABImage.get_validation_schemas(family, revision), "core_id")[0]
            self.cache[("core", family, revision)] = core
        img = self.path(prbytes(f"ahabimg/{n}", n))
        cfg = {"family": family, "revision": revision, "target_memory": target, "output": "x.bin",
               "containers": [{"container": {"srk_set": "none", "fuse_version": 0, "sw_version": 0, "images": [
                   {"image_path": img, "load_address": 0x1FFE0000, "entry_point": 0x1FFE0000, "image_type": "executable",
                    "core_id": core, "is_encrypted": False, "hash_type": "sha256"}]}}]}
        import copy
        self.ahab_cfg[(family, revision, target, n)] = copy.deepcopy(cfg)
        a = AHABImage.load_from_config(cfg)
        a.update_fields()
        return a.export()


def _first_enum(sch, key):
    out = []

    def rec(x):
        if isinstance(x, dict):
            if key in x and isinstance(x[key], dict) and "enum" in x[key]:
                out.append(x[key]["enum"])
            for v in x.values():
                rec(v)
        elif isinstance(x, list):
            for v in x:
                rec(v)
    rec(sch)
    return out[0]


# canonical application containers (used when a size variant is not a valid container of the family)
CANONICAL = {"mbi": "mbi:crc:320", "hab": "hab:4096:8192:300", "ahab": "ahab:nor:300", "sb21": "sb21:100", "sb31": "sb31:77"}

XMCD_FILES = {
    "rt118x": ["mimxrt1166/flexspi_ram_simplified_0.bin", "mimxrt1166/flexspi_ram_simplified_1.bin", "mimxrt1166/semc_sdram_simplified.bin",
               "mimxrt1166/flexspi_ram_full.bin", "mimxrt1166/semc_sdram_full.bin"],
    "rt7xx": ["mimxrt798s/xspi_ram_simplified.bin", "mimxrt1166/flexspi_ram_simplified_0.bin", "mimxrt1166/flexspi_ram_simplified_1.bin"],
}


def adler(b: bytes) -> int:
    return zlib.adler32(bytes(b)) & 0xFFFFFFFF


def blob_id(b: bytes) -> str:
    return "b" + hashlib.blake2b(bytes(b), digest_size=9).hexdigest()


# ====================================================================================== table helpers
class Tables:
    def __init__(self, meta, lay_map=None, kind_map=None):
        self.kinds = meta["kinds"]
        self.layouts = meta["layouts"]
        self.rows = meta["rows"]
        self.meta = meta
        self.lay_map = lay_map or {}     # live layout index -> index in the generated (Lean) table, None = not there
        self.kind_map = kind_map or {}   # segment label -> index in the generated kinds table

    def glay(self, idx):
        return self.lay_map.get(idx)

    def gkind(self, label):
        return self.kind_map.get(label)

    def segs(self, row):
        """[(kind dict, full_image_offset or None for dynamic)] of a row"""
        out = []
        for k, off in self.layouts[row["layout"]]["segs"]:
            kd = self.kinds[k]
            out.append((kd, None if off < 0 else (off + kd["align"] - 1) // kd["align"] * kd["align"]))
        return out

    def memtypes(self, family, revision):
        """rows of all memory types of (family, revision) in database order (= order in which parse tries them)"""
        if not hasattr(self, "_mt"):
            self._mt = {}
            for r in self.rows:
                self._mt.setdefault((r["family"], r["revision"]), []).append(r)
        return self._mt[(family, revision)]

    def pattern_byte(self, row):
        return {"zeros": 0x00, "ones": 0xFF}.get(self.layouts[row["layout"]]["pattern"])


def live_meta():
    """The tables the harness works with, read from the LIVE database / classes only (same shape as the generator's meta): the oracle's
    expectations and the finding predicates must not depend on generated parts."""
    from spsdk.image.bootable_image import segments as S
    from spsdk.image.bootable_image.bimg import BootableImage
    from spsdk.image.fcb.fcb import FCB
    from spsdk.image.mem_type import MemoryType
    from spsdk.utils.database import DatabaseManager, get_db
    kinds = []
    for c in sorted(S.get_segments().values(), key=lambda c: c.NAME.tag):
        kinds.append({"cls": c.__name__, "label": c.NAME.label, "tag": c.NAME.tag, "cfg_key": c.cfg_key(), "size": c.SIZE,
                      "align": c.OFFSET_ALIGNMENT, "init_segment": bool(c.INIT_SEGMENT), "boot_header": bool(c.BOOT_HEADER),
                      "patterns": list(c.IMAGE_PATTERNS), "parser": c.parse_binary.__qualname__.split(".")[0],
                      "finder": c.find_segment_offset.__qualname__.split(".")[0], "lener": c.__len__.__qualname__.split(".")[0]})
    kidx = {k["label"]: i for i, k in enumerate(kinds)}
    devs = FCB.get_supported_families()
    fcb_fams = set(devs) | set(DatabaseManager().quick_info.devices.get_predecessors(devs).keys())
    layouts, lidx, rows = [], {}, []
    for fam in BootableImage.get_supported_families():
        latest_mts = {m.label for m in BootableImage.get_supported_memory_types(fam)}
        for rev in BootableImage.get_supported_revisions(fam):
            mts = get_db(fam, rev).get_dict(DatabaseManager.BOOTABLE_IMAGE, "mem_types")
            for mt, cfg in mts.items():
                key = (tuple((kidx[n], o) for n, o in cfg["segments"].items()), str(cfg.get("image_pattern", "zeros")))
                if key not in lidx:
                    lidx[key] = len(layouts)
                    layouts.append(key)
                rows.append({"family": fam, "revision": rev, "mem_type": mt, "layout": lidx[key], "fcb_supported": fam in fcb_fams,
                             "usable": mt in latest_mts})
    return {"kinds": kinds, "layouts": [{"segs": [[k, o] for k, o in segs], "pattern": pat} for segs, pat in layouts], "rows": rows,
            "fcb_tag": FCB.TAG.hex(), "fcb_tag_swapped": FCB.TAG_SWAPPED.hex(), "mem_types": [m.label for m in MemoryType],
            "fcb_families": sorted(fcb_fams)}


def crosscheck(ck, gen, live):
    """generated tables vs live database / classes.  A difference means the extractor no longer mirrors the loader (or the generated
    part became unreadable): recorded as a broken obligation (-> no-failing-input-found), never an exception.  Returns the maps
    live layout index -> generated layout index and kind label -> generated kind index used to address the model driver."""
    try:
        return _crosscheck(ck, gen, live)
    except Exception as exc:  # noqa: BLE001 - an unreadable generated part is a broken obligation, not a crash
        ck.broken.append(f"generated BimgTables cannot be compared with the live database / segment classes: {type(exc).__name__}: {str(exc)[:200]}")
        return {}, {}


def _crosscheck(ck, gen, live):
    problems = list((gen or {}).get("problems") or [])
    gen = gen or {"kinds": [], "layouts": [], "rows": []}
    gk = {k.get("label"): i for i, k in enumerate(gen.get("kinds", []))}
    keys = ("cls", "label", "cfg_key", "size", "align", "init_segment", "boot_header", "patterns", "parser", "finder", "lener")
    for k in live["kinds"]:
        g = gen["kinds"][gk[k["label"]]] if k["label"] in gk else None
        if g is None or any(g.get(x) != k[x] for x in keys):
            problems.append(f"class constants of {k['cls']}: live {[k[x] for x in keys]} generated {None if g is None else [g.get(x) for x in keys]}")
    if len(gen.get("kinds", [])) != len(live["kinds"]):
        problems.append("number of segment classes differs")

    def norm(meta, lay):
        try:
            return (tuple((meta["kinds"][k]["label"], off) for k, off in lay["segs"]), lay["pattern"])
        except (IndexError, KeyError, TypeError, ValueError):
            return None
    gl = {}
    for i, lay in enumerate(gen.get("layouts", [])):
        gl.setdefault(norm(gen, lay), i)
    lay_map = {i: gl.get(norm(live, lay)) for i, lay in enumerate(live["layouts"])}
    grows = {(r.get("family"), r.get("revision"), r.get("mem_type")): (norm(gen, gen["layouts"][r["layout"]]) if isinstance(r.get("layout"), int)
             and r["layout"] < len(gen["layouts"]) else None, r.get("fcb_supported"), r.get("usable")) for r in gen.get("rows", [])}
    lrows = {(r["family"], r["revision"], r["mem_type"]): (norm(live, live["layouts"][r["layout"]]), r["fcb_supported"], r["usable"]) for r in live["rows"]}
    if grows != lrows:
        diff = sorted((k for k in set(grows) | set(lrows) if grows.get(k) != lrows.get(k)), key=str)
        problems.append(f"{len(diff)} (family, revision, memory type) rows differ, e.g. {diff[:2]}: generated {grows.get(diff[0])} live {lrows.get(diff[0])}")
    for key in ("fcb_tag", "fcb_tag_swapped", "mem_types", "fcb_families"):
        if gen.get(key) != live[key]:
            problems.append(f"{key} differs")
    if problems:
        ck.broken.append("generated BimgTables no longer mirrors the live database / segment classes (tools/extract/gen_C14.py vs spsdk): "
                         + "; ".join(p[:300] for p in problems[:4]))
        ck.extra["table_crosscheck"] = problems[:20]
    return lay_map, gk


# ====================================================================================== case generation
def gap_after(segs, i):
    """bytes available to the i-th (static) segment before the next static table offset (None = unbounded)"""
    for kd, off in segs[i + 1:]:
        if off is not None:
            return off - segs[i][1]
    return None


def app_specs(T, row, kd, rng, variant):
    """payload spec for an application-container kind"""
    p = kd["parser"]
    if p == "SegmentMbi":
        return f"mbi:{['crc', 'plain'][variant % 2]}:{[0x140, 0x40, 0x1000, 0x239][variant % 4] if variant < 4 else 0x40 + rng.randrange(0x800) * 4}"
    if p == "SegmentHab":
        ivt, ils = [(0x1000, 0x2000), (0x400, 0x1000), (0, 0x400)][variant % 3]
        return f"hab:{ivt}:{ils}:{[0x40, 300, 5000][variant % 3] if variant < 3 else 0x40 + rng.randrange(3000)}"
    if p == "SegmentAhab":
        tm = ["nor", "serial_downloader", "nand_2k", "standard"][variant % 4]
        return f"ahab:{tm}:{[300, 1, 1024, 4000][variant % 4] if variant < 4 else 1 + rng.randrange(5000)}"
    if p == "SegmentSB21":
        return f"sb21:{[100, 0, 1, 4096][variant % 4]}"
    if p == "SegmentSB31":
        return f"sb31:{[77, 0, 1, 4096][variant % 4]}"
    raise ValueError(p)


def header_spec(T, row, segs, i, rng, sizes):
    """payload spec for a header segment; `sizes` selects the size class"""
    kd, off = segs[i]
    gap = gap_after(segs, i)
    size = kd["size"]
    salt = rng.randrange(1000)
    if kd["parser"] == "SegmentFcb":
        if row["fcb_supported"] and salt % 3 == 0:
            return f"fcbdef:{row['mem_type']}"
        return f"fcb:{size}:{salt}:{rng.randrange(2)}"   # a valid FCB block has exactly SIZE bytes
    if kd["parser"] == "SegmentXmcd":
        fam = "rt7xx" if row["family"].startswith("mimxrt7") else "rt118x"
        return "xmcd:" + rng.choice(XMCD_FILES[fam])
    if kd["parser"] in ("SegmentImageVersion", "SegmentImageVersionAntiPole"):
        return f"iv:{rng.choice([0, 1, 0xFFFF, 0x1234, rng.randrange(1 << 16)])}"
    n = {"size": size, "1": 1, "gap": gap or size, "gap-1": (gap or size + 1) - 1, "size-1": size - 1}.get(sizes, size)
    if salt % 3 == 1 and kd["parser"] == "Segment" and size > 0:
        # payloads of 0x00 / 0xFF bytes only: prefix/suffix mixes, alternating, a single 00 among FFs and vice versa, uniform blocks
        return f"mix:{kd['label']}:{min(n, size) if sizes in ('gap', 'gap-1') else n}:{(salt // 3) % 7}:{salt}"
    return f"raw:{kd['label']}:{n}:{salt}"


def gen_cases(T, row, rng, quick):
    """-> list of case descriptors {row, init, segs: {label: spec}} for one table row"""
    segs = T.segs(row)
    app_i = next(i for i, (kd, _) in enumerate(segs) if not kd["boot_header"])
    optional = [i for i in range(len(segs)) if i != app_i]
    n = len(optional)
    if quick:
        masks = {(1 << n) - 1, 0}
        while len(masks) < min(3, 1 << n):
            masks.add(rng.randrange(1 << n))
        masks = sorted(masks, reverse=True)
    else:
        masks = list(range((1 << n) - 1, -1, -1))
        masks = masks * 4   # every subset four times (later passes with other size classes / container variants)
    statics = [off for _, off in segs if off is not None]
    out = []
    for mi, mask in enumerate(masks):
        chosen = {optional[j] for j in range(n) if mask >> j & 1} | {app_i}
        inits = [0] + [o for o in statics if o > 0]
        if quick and len(inits) > 1:
            inits = ([0] + rng.sample(inits[1:], 1)) if mi == 0 else rng.sample(inits, 1)
        size_class = rng.choice(["size", "size", "1", "gap", "gap-1", "size-1"]) if mi else "size"
        variant = mi if mi < 4 else 4 + rng.randrange(100)
        spec = {}
        for i in sorted(chosen):
            kd = segs[i][0]
            if kd["parser"] in APP_PARSERS:
                spec[kd["label"]] = app_specs(T, row, kd, rng, variant + (1 if i != app_i else 0))
            else:
                spec[kd["label"]] = header_spec(T, row, segs, i, rng, size_class)
        for init in inits:
            out.append({"row": [row["family"], row["revision"], row["mem_type"]], "init": init, "segs": spec, "sizes": size_class})
            if (mi == 0 and (not quick or (row["revision"] == "latest" and (init == 0 or rng.randrange(2) == 0)))) or (not quick and mi % 4 == 1):
                out[-1]["extra"] = 1   # also pre_parse_verify and parse without memory type
                # flash dump: trailing bytes behind the image (one short run, one that reaches beyond the next 1 KiB boundary)
                out[-1]["trail"] = [rng.randrange(1, 64), 0x400 + rng.randrange(0, 0x800)]
        # flash dump of an image whose floating last entry (secondary container set) is NOT supplied: trailing bytes inside the
        # alignment gap and beyond it (where `_parse` starts looking for the floating entry in the trailing bytes)
        if segs[-1][1] is None and (len(segs) - 1) not in chosen and (not quick or row["revision"] == "latest"):
            for c in out[-len(inits):]:
                if c["init"] == 0 and "trail" not in c:
                    # -1: exactly up to the aligned offset where the floating entry would start, -2: one byte more
                    c["trail"] = [-1, -2, rng.randrange(1, 64), 0x400 + rng.randrange(0, 0x800)]
        # one request that is not exactly a segment offset (the setter rounds up); requests by segment name are covered by the
        # init_offset stream through the constructor (the configuration schema only admits numbers)
        if mi == 0 and len(statics) > 1:
            out.append({"row": out[-1]["row"], "init": statics[1] - 1, "segs": spec, "sizes": size_class})
    return out


# ====================================================================================== evaluation of one case on the real code
def _found(segs, pb):
    out = []
    for (kd, off), sg in zip(segs, pb._segments):
        pres = pyres(lambda sg=sg: (not sg.excluded) and sg.is_present)
        if pres[0] == "ok" and pres[1]:
            raw = sg.export()
            o = pyres(pb.get_segment_offset, sg)
            out.append(f"{o[1] if o[0] == 'ok' else 'x'}:{len(raw)}:{adler(raw)}")
        else:
            out.append("-")
    return out


def run_case(T, F, case, rowinfo, full_cache):
    """Evaluate one case on the real code. -> dict(toks, blobs, merge, parse, fails, cls)"""
    from spsdk.image.bootable_image.bimg import BootableImage
    from spsdk.image.mem_type import MemoryType
    fam, rev, mt = case["row"]
    segs = T.segs(rowinfo)
    pat = T.pattern_byte(rowinfo)
    fails = []
    res = {"toks": None, "blobs": {}, "merge": None, "parse": None, "fails": fails, "cls": None, "nontrivial": True}

    def fail(what, observed=None, expected=None, finding=None):
        fails.append((what, observed, expected, finding))

    # ---- configuration
    cfg = {"family": fam, "revision": rev, "memory_type": mt}
    init_req = case["init"]
    cfg["init_offset"] = init_req[5:] if isinstance(init_req, str) else init_req
    payload = {}
    for kd, _ in segs:
        spec = case["segs"].get(kd["label"])
        if spec is None:
            continue
        if spec.startswith("iv:"):
            cfg[kd["cfg_key"]] = int(spec[3:])
            continue
        is_app = kd["parser"] in APP_PARSERS
        try:
            data = F.build(fam, rev, spec, (kd["cls"], mt) if is_app else None)
        except Exception as exc:  # noqa: BLE001
            res["cls"] = "payload-unavailable"
            if is_app:
                # neither the requested nor the canonical container of the family's kind survives its own parser
                fail(f"no {kd['label']} container of the family can be produced and taken back by the segment's own parser",
                     f"{spec}: {type(exc).__name__}: {str(exc)[:160]}")
            else:
                res["nontrivial"] = False
                res["skip"] = f"{spec}: {type(exc).__name__}: {str(exc)[:120]}"
            return res
        payload[kd["label"]] = data
        cfg[kd["cfg_key"]] = F.path(data)
    ld = pyres(BootableImage.load_from_config, cfg, [F.scratch])
    if ld[0] != "ok":
        fail("load_from_config raised for valid segment files", ld)
        res["cls"] = "load-failed"
        return res
    bimg = ld[1]
    # ---- state of the real object -> model request
    toks, raws = [], []
    for s in bimg._segments:
        raw = s.export()
        raws.append(raw)
        if raw:
            bid = blob_id(raw)
            res["blobs"][bid] = raw
            toks.append(bid)
        else:
            toks.append("-")
    res["toks"] = toks
    for (kd, _), s, raw in zip(segs, bimg._segments, raws):
        want = payload.get(kd["label"])
        if want is not None and raw != want:
            fail(f"segment {kd['label']} does not hold the bytes of the supplied file after load_from_config", len(raw), len(want))
        if len(s) != len(raw):
            fail(f"len(segment {kd['label']}) differs from the length of its bytes", len(s), len(raw))
    # ---- expected init offset (independent statement)
    statics = [off for _, off in segs if off is not None]
    if isinstance(init_req, str):
        req = next((off for kd, off in segs if kd["label"] == init_req[5:]), None)
    else:
        req = init_req
    exp_init = 0 if req == 0 else min([o for o in statics if o >= req], default=None)
    init = bimg.init_offset
    if init != exp_init:
        fail("init offset is not the closest segment offset at or above the request", init, exp_init)
    # ---- offsets
    offs, off_str = [], []
    exp_full, prev = [], None
    for (kd, off), raw in zip(segs, raws):
        if off is None:
            e = None if prev is None or prev[0] is None else (prev[0] + prev[1] + kd["align"] - 1) // kd["align"] * kd["align"]
        else:
            e = off
        exp_full.append(e)
        prev = (e, len(raw))
    for (kd, off), s, raw, e in zip(segs, bimg._segments, raws, exp_full):
        o = pyres(bimg.get_segment_offset, s)
        offs.append(o[1] if o[0] == "ok" else None)
        off_str.append(str(o[1]) if o[0] == "ok" else "x")
        excluded_exp = off is not None and off < init
        if excluded_exp:
            if o[0] == "ok":
                fail(f"segment {kd['label']} lies before the init offset but is not excluded", o[1])
        elif o[0] != "ok" or e is None or o[1] != e - init:
            fail(f"offset of segment {kd['label']} is not " + ("table offset - init offset" if off is not None else "the aligned end of its predecessor"),
                 o, None if e is None else e - init)
    ln = pyres(len, bimg)
    ex = pyres(bimg.export)
    ln_s = str(ln[1]) if ln[0] == "ok" else ln[0]
    ex_s = f"{len(ex[1])}:{adler(ex[1])}" if ex[0] == "ok" else ex[0]
    res["merge"] = f"M:{init};{','.join(off_str)};{ln_s};{ex_s}"
    present = [(kd, o, raw) for (kd, off), s, raw, o in zip(segs, bimg._segments, raws, offs) if raw and o is not None and not s.excluded]
    res["cls"] = f"{len(present)}seg/init{'0' if init == 0 else '>0'}/{case.get('sizes', 'size')}"
    if any(isinstance(v, str) and v.startswith("mix:") for v in case["segs"].values()):
        res["cls"] += "/00FF-mix"
    if ex[0] != "ok" or ln[0] != "ok":
        fail("export()/len() raised for supplied segments that fit", (ln_s, ex_s))
        return res
    data = ex[1]
    # ---- placement, gaps, no overwrite
    end = max(o + len(raw) for _, o, raw in present)
    if len(data) != end or ln[1] != end:
        fail("image length is not the end of the last segment", (len(data), ln[1]), end)
    cover = bytearray(len(data))
    for kd, o, raw in present:
        if data[o:o + len(raw)] != raw:
            fail(f"bytes of segment {kd['label']} do not appear unchanged at its offset", o)
        if any(cover[o:o + len(raw)]):
            fail(f"segment {kd['label']} overlaps another segment", o)
        cover[o:o + len(raw)] = b"\x01" * len(raw)
    if pat is not None:
        expected = bytearray(bytes([pat]) * len(data))
        for kd, o, raw in present:
            expected[o:o + len(raw)] = raw
        if bytes(expected[:len(data)]) != data:
            bad = next((k for k in range(len(data)) if not cover[k] and data[k] != pat), None)
            if bad is not None:
                fail("a gap byte does not hold the device's fill pattern", (bad, data[bad]), pat)
    # ---- the image that starts later is the tail of the full image
    key = (tuple(case["row"]), tuple(sorted(case["segs"].items())))
    if init == 0:
        full_cache[key] = data
    elif key in full_cache:
        if full_cache[key][init:] != data:
            fail("the image exported with an init offset is not the full image without its first init-offset bytes", len(data), len(full_cache[key]) - init)
    # ---- parse: the image may start at 0 or at a segment that BootableImage.parse tries as a start (INIT_SEGMENT)
    admissible = init == 0 or any(off == init and kd["init_segment"] for kd, off in segs)
    if not admissible:
        res["cls"] += "/no-parse"
        return res
    pr = pyres(BootableImage.parse, data, fam, MemoryType.from_label(mt), rev)
    if pr[0] != "ok":
        res["parse"] = "P:" + pr[0]
        fail("BootableImage.parse does not accept the image that export() produced", pr)
        return res
    pb = pr[1]
    found = []
    for (kd, off), s in zip(segs, pb._segments):
        pres = pyres(lambda s=s: (not s.excluded) and s.is_present)
        if pres[0] == "ok" and pres[1]:
            raw = s.export()
            o = pyres(pb.get_segment_offset, s)
            found.append(f"{o[1] if o[0] == 'ok' else 'x'}:{len(raw)}:{adler(raw)}")
        else:
            found.append("-")
    res["parse"] = f"P:{pb.init_offset};{','.join(found)}"
    # known finding: an image that starts later, read with an EARLIER init offset, can be acceptable to the unvalidated raw
    # segments and the lenient MBI parser; the earlier trial then wins (only for MBI rows, only when an earlier offset is reported)
    finding = None
    if 0 < init and pb.init_offset < init and any(kd["parser"] == "SegmentMbi" for kd, _ in segs):
        finding = FINDING_MISDETECT
        res["finding"] = finding
    if pb.init_offset != init:
        fail("parse detects a different init offset than the image was exported with", pb.init_offset, init, finding)
    for kd, o, raw in present:
        ps = pb._segments[[k["label"] for k, _ in segs].index(kd["label"])]
        got = ps.export() if not ps.excluded else b""
        size = kd["size"]
        if size > 0 and kd["parser"] != "SegmentXmcd":
            window = data[o:o + size]
            blocks = [{"zeros": b"\x00", "ones": b"\xff"}.get(pn, b"") * size for pn in kd["patterns"]]
            if kd["parser"] == "Segment" and window in blocks:
                # EXACTLY one uniform fill block: indistinguishable from "not supplied" by design (the only payload that may vanish)
                ok = got == b""
            else:
                ok = got == window and got[:len(raw)] == raw[:size]
        else:
            ok = got == raw
        if not ok:
            fail(f"parse does not recover the bytes of segment {kd['label']}", (len(got), got[:16].hex()), (len(raw), raw[:16].hex()), finding)
    # ---- pre_parse_verify (the walk of `nxpimage bootable-image verify`) must not object to an exported image
    if case.get("extra"):
        pv = pyres(lambda: BootableImage.pre_parse_verify(data, fam, MemoryType.from_label(mt), rev).has_errors)
        if pv != ("ok", False):
            fail("pre_parse_verify reports errors for an image that export() produced", pv, None, finding)
    # ---- flash dump: the image followed by trailing bytes (0x5A, neither fill pattern nor a container head)
    if case.get("trail") and finding is None and not fails:
        last_kd = segs[-1][0]
        last_present = any(kd["label"] == last_kd["label"] for kd, _, _ in present)
        res["trail"] = []
        for n in case["trail"]:
            if n < 0:
                gap = (-len(data)) % last_kd["align"] or last_kd["align"]
                n = gap if n == -1 else gap + 1
            tail = b"\x5a" * n
            pt = pyres(BootableImage.parse, data + tail, fam, MemoryType.from_label(mt), rev)
            if pt[0] == "ok":
                line = f"P:{pt[1].init_offset};{','.join(_found(segs, pt[1]))}"
            else:
                line = "P:" + pt[0]
            al = last_kd["align"]
            in_gap = len(data) + n <= (len(data) + al - 1) // al * al
            if last_kd["parser"] == "SegmentAhab":
                res["trail"].append((n, line))
                res["image"] = data
                if last_present or in_gap:
                    # statement (parse_export_trailing / parseAll_*_trailing): the same segments at the same offsets
                    if line != res["parse"]:
                        fail(f"{n} trailing bytes behind the exported image change what parse recovers", line, res["parse"])
                res["cls"] += "/trail-" + ("same" if (last_present or in_gap) else "beyond-gap")
            elif last_kd["parser"] in APP_PARSERS:
                # whole-rest parsers (greedy_takes_tail): when the container parser accepts, the last segment is container + tail,
                # everything else is found as without the trailing bytes; no claim when it refuses
                if pt[0] == "ok":
                    a, b0 = line.split(";")[-1].split(","), res["parse"].split(";")[-1].split(",")
                    lastseg = pt[1]._segments[-1]
                    want = next((raw for kd, _, raw in present if kd["label"] == last_kd["label"]), None)
                    got = lastseg.export()
                    if pt[1].init_offset != init or a[:-1] != b0[:-1] or want is None or got != want + tail:
                        fail(f"{n} trailing bytes behind a whole-rest application segment: parse accepts but does not report the "
                             "other segments unchanged and the application segment as container + trailing bytes",
                             (line, len(got)), (res["parse"], None if want is None else len(want) + n))
                res["cls"] += "/trail-rest-" + ("taken" if pt[0] == "ok" else "refused")
    # ---- parse without memory type: every memory type of the family is tried in database order
    if case.get("extra") and finding is None:
        mts = T.memtypes(fam, rev)
        own = next(i for i, r in enumerate(mts) if r["mem_type"] == mt)
        pa = pyres(BootableImage.parse, data, fam, None, rev)
        if pa[0] != "ok":
            res["any"] = "A:" + pa[0]
            fail("BootableImage.parse without memory type does not accept the image that export() produced", pa)
            return res
        pa = pa[1]
        w = next((i for i, r in enumerate(mts) if r["mem_type"] == pa.mem_type.label), -1)
        wsegs = T.segs(mts[w])
        fnd = []
        for (kd, off), s in zip(wsegs, pa._segments):
            pres = pyres(lambda s=s: (not s.excluded) and s.is_present)
            if pres[0] == "ok" and pres[1]:
                raw = s.export()
                o = pyres(pa.get_segment_offset, s)
                fnd.append(f"{o[1] if o[0] == 'ok' else 'x'}:{len(raw)}:{adler(raw)}")
            else:
                fnd.append("-")
        res["any"] = f"A:{w};{pa.init_offset};{','.join(fnd)}"
        res["any_req"] = (own, [r["layout"] for r in mts])
        # whatever memory type is reported (an image may legitimately fit several: a HAB-only image is also a serial-downloader
        # image), the same segments must be found at the same places as with the memory type given
        def by_label(sg, line):
            return {kd["label"]: f for (kd, _), f in zip(sg, line.split(";")[-1].split(",")) if f != "-"}
        a, b = by_label(wsegs, res["any"]), by_label(segs, res["parse"])
        if a != b or (mts[w]["layout"] == rowinfo["layout"] and pa.init_offset != init):
            # known finding: a memory type whose application is an MBI takes foreign bytes (MasterBootImage.parse accepts nearly
            # anything as a plain image); matched only when the reported memory type's application parser is the MBI one and
            # it is another segment table or an earlier init offset than the image was made with
            fnd2 = FINDING_UNTYPED if ((pa.init_offset < init or mts[w]["layout"] != rowinfo["layout"])
                                       and any(kd["parser"] == "SegmentMbi" for kd, _ in wsegs)) else None
            fail("parse without memory type does not find the segments that parse with the memory type finds",
                 (pa.mem_type.label, res["any"]), (mt, res["parse"]), fnd2)
            if fnd2:
                res["any_req"] = None   # the model's container recogniser is not lenient: no comparison for the known finding
    return res


# ====================================================================================== worker (one family per task)
_W = {}


def _worker_init(meta, scratch):
    logging.disable(logging.CRITICAL)
    _W["T"] = Tables(meta)
    _W["scratch"] = scratch


def _worker(task):
    fam, cases_by_row = task
    T = _W["T"]
    F = Factory(os.path.join(_W["scratch"], "w%d" % os.getpid()))
    out = []
    full_cache = {}
    for rowinfo, cases in cases_by_row:
        for case in cases:
            try:
                r = run_case(T, F, case, rowinfo, full_cache)
            except Exception as exc:  # noqa: BLE001 - never let the real code's surprises kill the harness
                import traceback
                r = {"toks": None, "blobs": {}, "merge": None, "parse": None, "cls": "harness-exception", "nontrivial": True,
                     "fails": [("unexpected exception while evaluating the case on the implementation",
                                f"{type(exc).__name__}: {exc}", traceback.format_exc()[-600:], None)]}
            r["case"] = case
            r["layout"] = rowinfo["layout"]
            r["fcb"] = rowinfo["fcb_supported"]
            out.append(r)
        full_cache.clear()
    if out and F.replaced:
        out[0]["replaced"] = F.replaced
    return out


def evaluate(ck, T, tasks):
    """run the tasks (16 processes), in task order"""
    import multiprocessing as mp
    scratch = os.environ["VERIF_SCRATCH"]
    nproc = int(os.environ.get("VERIF_JOBS", "16"))
    if nproc <= 1 or len(tasks) <= 1:
        _worker_init(T.meta, scratch)
        return [_worker(t) for t in tasks]
    with mp.get_context("fork").Pool(nproc, initializer=_worker_init, initargs=(T.meta, scratch)) as pool:
        return pool.map(_worker, tasks, chunksize=1)


def feed(ck, s, drv, T, results):
    """publish worker results into the stream: note, oracle failures, model comparison"""
    defined = set()
    reqs = []
    for fam_res in results:
        for r in fam_res:
            case = r["case"]
            s.note(case, nontrivial=r.get("nontrivial", True), cls=r["cls"])
            if r.get("replaced"):
                rep = ck.extra.setdefault("container_variants_replaced_by_canonical", {"count": 0, "examples": []})
                rep["count"] += len(r["replaced"])
                rep["examples"] = (rep["examples"] + r["replaced"])[:12]
            if r.get("skip"):
                ck.extra.setdefault("payload_unavailable", []).append(r["skip"])
                continue
            for what, obs, exp, finding in r["fails"]:
                s.expect(False, case, what, obs, exp, finding=finding)
            if drv is None or r["toks"] is None or r["merge"] is None:
                continue
            glay = T.glay(r["layout"])
            if glay is None:   # the row's segment table is not in the generated (Lean) table: nothing to ask the model (crosscheck reported it)
                s.compare(case, r["merge"], "no-such-layout-in-the-generated-table")
                continue
            for bid, data in r["blobs"].items():
                if bid not in defined:
                    defined.add(bid)
                    reqs.append((("blob", bid), f"blob {bid} {data.hex()}", "ok", False))
            init = case["init"]
            if isinstance(init, str):
                seg_off = next((off for kd, off in T.segs({"layout": r["layout"]}) if kd["label"] == init[5:]), None)
                init = seg_off if seg_off is not None else 0
            real = r["merge"] + ("|" + r["parse"] if r["parse"] is not None else "")
            reqs.append((case, f"rt {glay} {int(r['fcb'])} {init} {' '.join(r['toks'])}", real, bool(r.get("finding"))))
            if r.get("trail") and r.get("image") is not None:
                for n, line in r["trail"]:
                    full = r["image"] + b"\x5a" * n
                    bid = blob_id(full)
                    if bid not in defined:
                        defined.add(bid)
                        reqs.append((("blob", bid), f"blob {bid} {full.hex()}", "ok", False))
                    reqs.append((case, f"parse {glay} {int(r['fcb'])} {bid} {' '.join(r['toks'])}", line, False))
            if r.get("any") is not None and r.get("any_req") is not None:
                own, lays = r["any_req"]
                lays = [T.glay(x) for x in lays]
                if None not in lays:
                    reqs.append((case, f"rtany {int(r['fcb'])} {init} {own} {len(lays)} {' '.join(map(str, lays))} {' '.join(r['toks'])}", r["any"], False))
    if drv is not None and reqs:
        for (case, line, real, merge_only), ans in zip(reqs, drv.batch([q[1] for q in reqs])):
            ans = ans if isinstance(ans, str) else repr(ans)
            if isinstance(case, tuple) and case and case[0] == "blob":
                if ans != "ok":   # an unexpected answer is a disagreement, never an exception
                    s.compare(case, "ok", ans, "model driver does not take a blob definition")
            elif real is not None:
                if "|" not in real or merge_only:   # no parse on the real side (inadmissible start / known finding): merge part only
                    real, ans = real.split("|")[0], ans.split("|")[0]
                s.compare(case, real, ans)


# ====================================================================================== glue: YAML-configured segments, CLI, store_config
def _yaml_dump(path, obj):
    import yaml
    with open(path, "w") as fh:
        yaml.safe_dump(obj, fh, sort_keys=False)
    return path


def run_glue(T, F, row, wdir):
    """One row, all segments supplied: (1) segments given as YAML configurations (FCB, XMCD, MBI, HAB, AHAB) are equivalent to
    the same segments given as binary files holding the configured object's export; (2) `nxpimage bootable-image merge` writes the
    API's export, `verify` accepts it, `parse` stores a configuration from which `merge` reproduces the image."""
    import yaml
    from click.testing import CliRunner
    from spsdk.apps import nxpimage
    from spsdk.image.bootable_image.bimg import BootableImage
    from spsdk.image.fcb.fcb import FCB
    from spsdk.image.mem_type import MemoryType
    from spsdk.image.xmcd.xmcd import XMCD
    fam, rev, mt = row["family"], row["revision"], row["mem_type"]
    segs = T.segs(row)
    os.makedirs(wdir, exist_ok=True)
    fails, kinds_yaml = [], []
    case = {"row": [fam, rev, mt], "glue": 1}

    def fail(what, observed=None, expected=None, finding=None):
        fails.append((what, observed, expected, finding))

    cfg = {"family": fam, "revision": rev, "memory_type": mt, "init_offset": 0}
    mtype = MemoryType.from_label(mt)
    want_bytes = {}   # label -> bytes the configured object is known to export (built independently of the bootable image)
    for i, (kd, off) in enumerate(segs):
        p, key = kd["parser"], kd["cfg_key"]
        ypath = os.path.join(wdir, f"{kd['label']}.yaml")
        try:
            if p == "SegmentFcb":
                if row["fcb_supported"]:
                    with open(ypath, "w") as fh:
                        fh.write(FCB(fam, mtype, rev).create_config())
                    cfg[key] = ypath
                    kinds_yaml.append("fcb")
                    want_bytes[kd["label"]] = FCB(fam, mtype, rev).export()
                else:
                    cfg[key] = F.path(F.build(fam, rev, f"fcb:{kd['size']}:7:0"))
            elif p == "SegmentXmcd":
                fl = XMCD_FILES["rt7xx" if fam.startswith("mimxrt7") else "rt118x"][i % 2]
                with open(ypath, "w") as fh:
                    fh.write(XMCD.parse(F.build(fam, rev, "xmcd:" + fl), family=fam, revision=rev).create_config())
                cfg[key] = ypath
                kinds_yaml.append("xmcd")
                want_bytes[kd["label"]] = F.build(fam, rev, "xmcd:" + fl)
            elif p in ("SegmentImageVersion", "SegmentImageVersionAntiPole"):
                cfg[key] = 0x1234
            elif p == "SegmentMbi":
                want_bytes[kd["label"]] = F.build(fam, rev, "mbi:crc:320", (kd["cls"], mt))
                cfg[key] = _yaml_dump(ypath, F.mbi_cfg[(fam, "crc", 320)])
                kinds_yaml.append("mbi")
            elif p == "SegmentHab":
                want_bytes[kd["label"]] = F.build(fam, rev, "hab:4096:8192:300", (kd["cls"], mt))
                cfg[key] = _yaml_dump(ypath, F.hab_cfg[(4096, 8192, 300)])
                kinds_yaml.append("hab")
            elif p == "SegmentAhab":
                tm = "nor" if i == next(j for j, (k, _) in enumerate(segs) if not k["boot_header"]) else "serial_downloader"
                want_bytes[kd["label"]] = F.build(fam, rev, f"ahab:{tm}:300", (kd["cls"], mt))
                cfg[key] = _yaml_dump(ypath, F.ahab_cfg[(fam, rev, tm, 300)])
                kinds_yaml.append("ahab")
            elif p in ("SegmentSB21", "SegmentSB31"):
                cfg[key] = F.path(F.build(fam, rev, CANONICAL["sb21" if p == "SegmentSB21" else "sb31"], (kd["cls"], mt)))
            else:
                cfg[key] = F.path(F.build(fam, rev, f"raw:{kd['label']}:{kd['size']}:7"))
        except Exception as exc:  # noqa: BLE001
            fail(f"the configuration of segment {kd['label']} cannot be produced by the segment's own classes", f"{type(exc).__name__}: {str(exc)[:160]}")
            return {"case": case, "fails": fails, "cls": "glue-unavailable"}
    case["yaml"] = kinds_yaml
    ld = pyres(BootableImage.load_from_config, dict(cfg), [wdir])
    if ld[0] != "ok":
        fail("load_from_config raised for segments given as YAML configurations", ld)
        return {"case": case, "fails": fails, "cls": "glue/" + "+".join(kinds_yaml)}
    by = ld[1]
    raws = [s.export() for s in by._segments]
    ex_y = pyres(by.export)
    offs_y = [pyres(by.get_segment_offset, s) for s in by._segments]
    for (kd, _), s, raw in zip(segs, by._segments, raws):
        if len(s) != len(raw):
            fail(f"len(segment {kd['label']}) built from a configuration differs from the length of its export", len(s), len(raw))
        if kd["label"] in want_bytes and raw != want_bytes[kd["label"]]:
            fail(f"segment {kd['label']} built from its YAML configuration does not hold the bytes the configured object exports",
                 (len(raw), raw[:16].hex()), (len(want_bytes[kd["label"]]), want_bytes[kd["label"]][:16].hex()))
    # the same segments as binary files
    cfg_b = {"family": fam, "revision": rev, "memory_type": mt, "init_offset": 0}
    for (kd, _), raw in zip(segs, raws):
        if kd["parser"] in ("SegmentImageVersion", "SegmentImageVersionAntiPole"):
            cfg_b[kd["cfg_key"]] = 0x1234
        elif raw:
            cfg_b[kd["cfg_key"]] = F.path(raw)
    lb = pyres(BootableImage.load_from_config, cfg_b, [wdir])
    if lb[0] != "ok" or ex_y[0] != "ok":
        fail("export of YAML-configured segments / load of their binary form raised", (ex_y[0], lb[0]))
        return {"case": case, "fails": fails, "cls": "glue/" + "+".join(kinds_yaml)}
    bb = lb[1]
    if pyres(bb.export) != ex_y or [pyres(bb.get_segment_offset, s) for s in bb._segments] != offs_y:
        fail("segments given as YAML configurations are not placed like the same segments given as binary files")
    data = ex_y[1]
    # ---- CLI
    runner = CliRunner()
    top = _yaml_dump(os.path.join(wdir, "bimg.yaml"), cfg)
    out = os.path.join(wdir, "merged.bin")
    r = runner.invoke(nxpimage.main, ["bootable-image", "merge", "-c", top, "-o", out])
    if r.exit_code != 0 or not os.path.isfile(out):
        fail("nxpimage bootable-image merge failed", (r.exit_code, str(r.exception)[:160]))
        return {"case": case, "fails": fails, "cls": "glue/" + "+".join(kinds_yaml)}
    with open(out, "rb") as fh:
        merged = fh.read()
    if merged != data:
        fail("nxpimage bootable-image merge does not write BootableImage.export()", len(merged), len(data))
    if rev == "latest":   # the parse / verify commands have no revision option
        r = runner.invoke(nxpimage.main, ["bootable-image", "verify", "-f", fam, "-m", mt, "-b", out])
        if r.exit_code != 0:
            fail("nxpimage bootable-image verify rejects a merged image", (r.exit_code, str(r.exception)[:160]))
        pdir = os.path.join(wdir, "parsed")
        r = runner.invoke(nxpimage.main, ["bootable-image", "parse", "-f", fam, "-m", mt, "-b", out, "-o", pdir])
        stored = os.path.join(pdir, f"bootable_image_{fam}_{mt}.yaml")
        if r.exit_code != 0 or not os.path.isfile(stored):
            fail("nxpimage bootable-image parse failed on a merged image", (r.exit_code, str(r.exception)[:160]))
        else:
            # (a) from the folder parse wrote into, (b) from another working directory (fixed de9c7c3: sub-configuration files were CWD relative)
            for where, cwd in (("inside the output folder", pdir), ("from another working directory", wdir)):
                out2 = os.path.join(wdir, "merged2.bin")
                if os.path.exists(out2):
                    os.unlink(out2)
                old_cwd = os.getcwd()
                os.chdir(cwd)
                try:
                    r = runner.invoke(nxpimage.main, ["bootable-image", "merge", "-c", stored, "-o", out2])
                finally:
                    os.chdir(old_cwd)
                if r.exit_code != 0 or not os.path.isfile(out2):
                    fail(f"nxpimage bootable-image merge fails on the configuration that parse stored ({where})", (r.exit_code, str(r.exception)[:200]))
                    continue
                with open(out2, "rb") as fh:
                    again = fh.read()
                if again != merged:
                    d0 = next((k for k in range(min(len(again), len(merged))) if again[k] != merged[k]), min(len(again), len(merged)))
                    fail(f"merge of the configuration stored by parse does not reproduce the image ({where})", (len(again), d0), len(merged))
    # ---- the same through the CLI for an image that starts at a later INIT segment: parse must store the init offset
    later = next((off for kd, off in segs if off and kd["init_segment"]), None)
    if later is not None and rev == "latest":
        top2 = _yaml_dump(os.path.join(wdir, "bimg_later.yaml"), dict(cfg, init_offset=later))
        outl = os.path.join(wdir, "later.bin")
        r = runner.invoke(nxpimage.main, ["bootable-image", "merge", "-c", top2, "-o", outl])
        if r.exit_code != 0 or not os.path.isfile(outl):
            fail("nxpimage bootable-image merge failed for an image with an init offset", (r.exit_code, str(r.exception)[:160]))
        else:
            with open(outl, "rb") as fh:
                lat = fh.read()
            if lat != data[later:]:
                fail("the image merged with an init offset is not the full image without its first bytes", len(lat), len(data) - later)
            pdir2 = os.path.join(wdir, "parsed_later")
            r = runner.invoke(nxpimage.main, ["bootable-image", "parse", "-f", fam, "-m", mt, "-b", outl, "-o", pdir2])
            stored2 = os.path.join(pdir2, f"bootable_image_{fam}_{mt}.yaml")
            if r.exit_code != 0 or not os.path.isfile(stored2):
                fail("nxpimage bootable-image parse failed on an image that starts at a later INIT segment", (r.exit_code, str(r.exception)[:160]))
            else:
                with open(stored2) as fh:
                    st = yaml.safe_load(fh)
                if st.get("init_offset") != later:
                    fail("the configuration stored by parse does not carry the init offset of the image", st.get("init_offset"), later)
                out3 = os.path.join(wdir, "later2.bin")
                old_cwd = os.getcwd()
                os.chdir(pdir2)
                try:
                    r = runner.invoke(nxpimage.main, ["bootable-image", "merge", "-c", stored2, "-o", out3])
                finally:
                    os.chdir(old_cwd)
                if r.exit_code != 0 or not os.path.isfile(out3):
                    fail("merge fails on the stored configuration of a later-start image", (r.exit_code, str(r.exception)[:160]))
                else:
                    with open(out3, "rb") as fh:
                        if fh.read() != lat:
                            fail("merge of the stored configuration of a later-start image does not reproduce it", None, len(lat))
    # ---- init offset by segment NAME through the configuration (documented: "the segment name or the index of initial segment")
    named = next((kd["label"] for kd, off in segs if off and kd["init_segment"]), None)
    if named is not None:
        want = next(off for kd, off in segs if kd["label"] == named)
        for form in (named, hex(want), str(want)):
            ln = pyres(lambda form=form: BootableImage.load_from_config(dict(cfg_b, init_offset=form), [wdir]).init_offset)
            if ln != ("ok", want):
                fail("load_from_config does not take the init offset by segment name / as a numeric string", (form, ln), want)
        topn = _yaml_dump(os.path.join(wdir, "bimg_named.yaml"), dict(cfg, init_offset=named))
        outn = os.path.join(wdir, "named.bin")
        r = runner.invoke(nxpimage.main, ["bootable-image", "merge", "-c", topn, "-o", outn])
        if r.exit_code != 0 or not os.path.isfile(outn):
            fail("nxpimage bootable-image merge refuses an init offset given by segment name", (r.exit_code, str(r.exception)[:160]))
        else:
            with open(outn, "rb") as fh:
                if fh.read() != data[want:]:
                    fail("the image merged with the init offset given by segment name is not the full image from that segment on", named, want)
    # ---- `nxpimage bootable-image get-templates`: one template per memory type of the family, each names every segment of that
    #      memory type's table; the row's own template, filled with the case's segment files, merges to the same image
    if rev == "latest":
        tdir = os.path.join(wdir, "templates")
        r = runner.invoke(nxpimage.main, ["bootable-image", "get-templates", "-f", fam, "-o", tdir])
        if r.exit_code != 0:
            fail("nxpimage bootable-image get-templates failed", (r.exit_code, str(r.exception)[:160]))
        else:
            for mrow in T.memtypes(fam, "latest"):
                tp = os.path.join(tdir, f"bootimg_{fam}_{mrow['mem_type']}.yaml")
                tl = pyres(lambda tp=tp: yaml.safe_load(open(tp)))
                if tl[0] != "ok" or not isinstance(tl[1], dict):
                    fail("get-templates wrote no readable template for a memory type of the family", (mrow["mem_type"], tl[0]))
                    continue
                tmpl = tl[1]
                keys = [kd["cfg_key"] for kd, _ in T.segs(mrow)]
                missing = [k for k in keys if k not in tmpl]
                if tmpl.get("family") != fam or tmpl.get("memory_type") != mrow["mem_type"] or missing:
                    fail("the template of a memory type does not name the family, the memory type and every segment of its table",
                         (mrow["mem_type"], tmpl.get("family"), tmpl.get("memory_type"), missing))
                if mrow["mem_type"] == mt and not missing:
                    filled = {k: v for k, v in tmpl.items() if k not in keys}
                    filled.update(cfg)
                    topt = _yaml_dump(os.path.join(wdir, "bimg_from_template.yaml"), filled)
                    outt = os.path.join(wdir, "from_template.bin")
                    r = runner.invoke(nxpimage.main, ["bootable-image", "merge", "-c", topt, "-o", outt])
                    if r.exit_code != 0 or not os.path.isfile(outt):
                        fail("merge refuses the family's template filled with the segment files", (r.exit_code, str(r.exception)[:160]))
                    else:
                        with open(outt, "rb") as fh:
                            if fh.read() != data:
                                fail("the template filled with the segment files does not merge to the same image", None, len(data))
    return {"case": case, "fails": fails, "cls": "glue/" + ("+".join(kinds_yaml) or "binary-only")}


def _glue_worker(task):
    import shutil
    T = _W["T"]
    F = Factory(os.path.join(_W["scratch"], "g%d" % os.getpid()))
    out = []
    for n, row in enumerate(task):
        wdir = os.path.join(_W["scratch"], "g%d" % os.getpid(), f"{row['family']}_{row['mem_type']}_{n}")
        try:
            out.append(run_glue(T, F, row, wdir))
        except Exception as exc:  # noqa: BLE001
            import traceback
            out.append({"case": {"row": [row["family"], row["revision"], row["mem_type"]], "glue": 1}, "cls": "harness-exception",
                        "fails": [("unexpected exception in the glue evaluation", f"{type(exc).__name__}: {exc}", traceback.format_exc()[-500:], None)]})
        shutil.rmtree(wdir, ignore_errors=True)
    return out


def glue_stream(ck, T):
    import multiprocessing as mp
    s = ck.stream("glue", "rows (quick: one or two families per distinct segment table, latest revision; thorough: every family x memory type, latest "
                  "revision) with all segments supplied, FCB / XMCD / MBI / HAB / AHAB as YAML configuration files: load_from_config places them like "
                  "the same segments given as binary files (and len(segment object) = length of its export); `nxpimage bootable-image merge` = "
                  "BootableImage.export(), `verify` accepts it, `parse` (store_config) -> `merge` reproduces the image; non-trivial = every row")
    latest = [r for r in T.rows if r["revision"] == "latest" and r["usable"]]
    if ck.quick:
        by_layout = {}
        for r in latest:
            by_layout.setdefault(r["layout"], []).append(r)
        rows = []
        for lay in sorted(by_layout):
            cand = by_layout[lay]
            rows.append(cand[0])
            if len(cand) > 1 and lay % 3 == ck.seed % 3:
                rows.append(cand[1 + ck.rng.randrange(len(cand) - 1)])
    else:
        rows = latest
    nproc = int(os.environ.get("VERIF_JOBS", "16"))
    tasks = [rows[i::nproc * 2] for i in range(nproc * 2) if rows[i::nproc * 2]]
    scratch = os.environ["VERIF_SCRATCH"]
    if nproc <= 1:
        _worker_init(T.meta, scratch)
        results = [_glue_worker(t) for t in tasks]
    else:
        with mp.get_context("fork").Pool(nproc, initializer=_worker_init, initargs=(T.meta, scratch)) as pool:
            results = pool.map(_glue_worker, tasks, chunksize=1)
    for res in sorted((r for t in results for r in t), key=lambda r: r["case"]["row"]):
        s.note(res["case"], cls=res["cls"])
        for what, obs, exp, finding in res["fails"]:
            s.expect(False, res["case"], what, obs, exp, finding=finding)


def corpus_cases():
    import json
    p = os.path.join(os.path.dirname(os.path.dirname(os.path.dirname(os.path.abspath(__file__)))), "corpus", "C14", "cases.json")
    try:
        with open(p) as fh:
            return [{k: v for k, v in c.items() if k != "why"} for c in json.load(fh)]
    except OSError:
        return []


# ====================================================================================== entry points
def _tick(ck, name, t0):
    import time
    ck.extra.setdefault("phase_seconds", {})[name] = round(time.time() - t0, 1)
    return time.time()


def setup(ck):
    import time
    logging.disable(logging.CRITICAL)
    ck.spec_ops = set()   # every op of drv_c14 (blob, init, initk, rt, rtany, parse) evaluates Model/Bimg.lean over Generated/BimgTables.lean: none is Spec-only
    t0 = time.time()
    ck.lean_obligations(generated=["BimgTables"])
    drv = ck.driver()
    t0 = _tick(ck, "lean", t0)
    live = live_meta()
    lay_map, kind_map = crosscheck(ck, ck.generated_meta.get("BimgTables"), live)
    _tick(ck, "crosscheck", t0)
    ck.assume("segments are supplied as binary files (raw blocks); segments built from YAML configurations of MBI/HAB/AHAB/FCB/XMCD "
              "(length taken from the container object) are not modelled",
              "MasterBootImage.parse / HabContainer.parse / AHABImage.parse / find_offset_of_ahab / SB header validation / FCB.parse / "
              "XMCD.parse are an abstract interface in the model: the theorems assume that each supplied container is accepted and "
              "self-delimiting (`Delimit`); the driver instantiates it by 'recognise exactly the supplied containers'",
              "verify().validate() of a parse trial is modelled as 'an application segment was found' (the segment verifiers are "
              "assumed to accept what their parsers accepted)",
              "the static database resolution of tools/extract/gen_C14.py mirrors spsdk/utils/database.py (cross-checked against the "
              "live objects on every run; restricted-data/addons overlays are outside the tables)")
    return drv, Tables(live, lay_map, kind_map)


def init_stream(ck, drv, T):
    """init-offset selection and exclusion for every row"""
    from spsdk.image.bootable_image.bimg import BootableImage
    from spsdk.image.bootable_image.segments import BootableImageSegment
    from spsdk.image.mem_type import MemoryType
    s = ck.stream("init_offset", "every (family, revision, memory type) row x init requests {-1, 0, 1, each static offset -1/+0/+1, every segment "
                  "name of the row, one foreign name} through the setter / constructor, and through load_from_config (integer, hex and decimal string, "
                  "segment name; per distinct segment table) : resulting init offset and excluded flags vs the model, and vs the statement 'closest "
                  "segment offset at or above the request, segments below it excluded'; non-trivial = request > 0")
    s.exhaustive = True
    reqs = []
    for row in T.rows:
        segs = T.segs(row)
        statics = [off for _, off in segs if off is not None]
        vals = sorted({-1, 0, 1} | {o + d for o in statics for d in (-1, 0, 1)})
        mt = MemoryType.from_label(row["mem_type"])
        b0 = pyres(BootableImage, row["family"], mt, row["revision"])
        if b0[0] != "ok":
            s.note((row["family"], row["revision"], row["mem_type"]), cls="constructor")
            s.expect(not row["usable"], (row["family"], row["revision"], row["mem_type"]), "BootableImage() refuses a row of the database", b0)
            continue
        bimg = b0[1]
        labels = [kd["label"] for kd, _ in segs]
        foreign = next(k["label"] for k in T.kinds if k["label"] not in labels)
        for v in vals + ["name:" + lb for lb in labels + [foreign]]:
            inp = (row["family"], row["revision"], row["mem_type"], v)
            if isinstance(v, str):
                r = pyres(BootableImage, row["family"], mt, row["revision"], BootableImageSegment.from_label(v[5:]))
                obj = r[1] if r[0] == "ok" else None
                req = next((off for kd, off in segs if kd["label"] == v[5:]), None)
                req = -1 if req is None else req
                line = f"initk {T.glay(row['layout'])} {T.gkind(v[5:])}"
            else:
                def setter(val=v):
                    bimg.init_offset = val
                r = pyres(setter)
                obj = bimg if r[0] == "ok" else None
                req = v
                line = f"init {T.glay(row['layout'])} {v}"
            s.note(inp, nontrivial=req > 0, cls="by-name" if isinstance(v, str) else ("neg" if v < 0 else "zero" if v == 0 else "pos"))
            if obj is not None:
                real = f"ok:{obj.init_offset}:" + "".join("1" if sg.excluded else "0" for sg in obj._segments)
            else:
                real = r[0]
            exp = None if req < 0 else 0 if req == 0 else min([o for o in statics if o >= req], default=None)
            if exp is None:
                s.expect(obj is None and r[0] == "E:spsdk", inp, "an init offset that no segment can serve is not refused with an SPSDK error", real)
            else:
                want = f"ok:{exp}:" + "".join("1" if off is not None and off < exp else "0" for _, off in segs)
                s.expect(real == want, inp, "init offset is not the closest segment offset at or above the request / wrong segments excluded", real, want)
            reqs.append((inp, line, real))
    # ---- the configuration path: init_offset as integer, numeric string or segment name through load_from_config
    seen = {}
    for row in T.rows:
        if row["revision"] == "latest" and row["usable"]:
            seen.setdefault(row["layout"], []).append(row)
    cfg_rows = [r for lay in sorted(seen) for r in (seen[lay][:3] if ck.quick else seen[lay])]
    dummy = os.path.join(os.environ["VERIF_SCRATCH"], "init_dummy_app.bin")   # any bytes: nothing is parsed when a configuration is loaded
    with open(dummy, "wb") as fh:
        fh.write(b"\x5a" * 8)
    for row in cfg_rows:
        segs = T.segs(row)
        statics = [off for _, off in segs if off is not None]
        labels = [kd["label"] for kd, _ in segs]
        foreign = next(k["label"] for k in T.kinds if k["label"] not in labels)
        forms = []
        for o in sorted({0, 1} | set(statics) | {max(statics) + 1}):
            forms += [(o, o), (hex(o), o), (str(o), o)]
        forms += [(lb, "name:" + lb) for lb in labels + [foreign]] + [("-1", -1), (-1, -1)]
        for form, meaning in forms:
            inp = (row["family"], row["revision"], row["mem_type"], "config", form)
            r = pyres(BootableImage.load_from_config, dict({kd["cfg_key"]: dummy for kd, _ in segs if not kd["boot_header"]},
                                                           family=row["family"], revision=row["revision"], memory_type=row["mem_type"], init_offset=form))
            if isinstance(meaning, str):
                req = next((off for kd, off in segs if kd["label"] == meaning[5:]), None)
                req = -1 if req is None else req
                line = f"initk {T.glay(row['layout'])} {T.gkind(meaning[5:])}"
            else:
                req, line = meaning, f"init {T.glay(row['layout'])} {meaning}"
            s.note(inp, nontrivial=req > 0, cls="config/" + ("name" if isinstance(meaning, str) else "str" if isinstance(form, str) else "int"))
            real = (f"ok:{r[1].init_offset}:" + "".join("1" if sg.excluded else "0" for sg in r[1]._segments)) if r[0] == "ok" else r[0]
            exp = None if req < 0 else 0 if req == 0 else min([o for o in statics if o >= req], default=None)
            if exp is None:
                s.expect(r[0] == "E:spsdk", inp, "load_from_config does not refuse an init offset that no segment can serve with an SPSDK error", real)
            else:
                want = f"ok:{exp}:" + "".join("1" if off is not None and off < exp else "0" for _, off in segs)
                s.expect(real == want, inp, "load_from_config: init offset (integer / numeric string / segment name) is not the closest segment offset "
                         "at or above the request / wrong segments excluded", real, want)
            reqs.append((inp, line, real))
    if drv is not None:
        for (inp, line, real), ans in zip(reqs, drv.batch([q[1] for q in reqs])):
            s.compare(inp, real, ans)


def seq_stream(ck, drv, T, F):
    """One BootableImage object, a random sequence of init-offset assignments: after every step it must behave exactly like a FRESH
    object built from the same configuration with the current init offset."""
    from spsdk.image.bootable_image.bimg import BootableImage
    from spsdk.image.bootable_image.segments import BootableImageSegment
    s = ck.stream("init_sequence", "one object per (distinct segment table x 2 families (thorough: every family), latest revision), all segments supplied, a "
                  "random sequence of 8 (thorough 14) init-offset assignments - 0, every static offset, offsets -1/+1/between, above the last, negative; by "
                  "`init_offset = int`, `set_init_offset(int)` and `set_init_offset(BootableImageSegment)`, each table also with the fixed pattern X -> 0 -> Y -> 0: "
                  "after EVERY step init offset, excluded flags, `segments`, len() and export() equal those of a fresh object loaded with the current init "
                  "offset, a refused request leaves the object unchanged; (init, excluded flags) per step vs the model's state machine; non-trivial = step "
                  "after a non-zero offset")
    rng = ck.rng
    seen = {}
    for row in T.rows:
        if row["revision"] == "latest" and row["usable"]:
            seen.setdefault(row["layout"], []).append(row)
    rows = [r for lay in sorted(seen) for r in (seen[lay][:1] + (rng.sample(seen[lay][1:], 1) if len(seen[lay]) > 1 else []) if ck.quick else seen[lay])]
    reqs = []

    def observe(b):
        ln, ex = pyres(len, b), pyres(b.export)
        return (b.init_offset, "".join("1" if x.excluded else "0" for x in b._segments), [x.NAME.label for x in b.segments],
                ln[1] if ln[0] == "ok" else ln[0], (len(ex[1]), adler(ex[1])) if ex[0] == "ok" else ex[0])

    for row in rows:
        fam, rev, mt = row["family"], row["revision"], row["mem_type"]
        segs = T.segs(row)
        cfg = {"family": fam, "revision": rev, "memory_type": mt, "init_offset": 0}
        for i, (kd, off) in enumerate(segs):
            p = kd["parser"]
            if p == "SegmentFcb":
                cfg[kd["cfg_key"]] = F.path(F.build(fam, rev, f"fcb:{kd['size']}:3:0"))
            elif p == "SegmentXmcd":
                cfg[kd["cfg_key"]] = F.path(F.build(fam, rev, "xmcd:" + XMCD_FILES["rt7xx" if fam.startswith("mimxrt7") else "rt118x"][0]))
            elif p in ("SegmentImageVersion", "SegmentImageVersionAntiPole"):
                cfg[kd["cfg_key"]] = 0x4321
            else:   # raw headers of their SIZE; application containers as plain bytes (nothing is parsed on load / export)
                cfg[kd["cfg_key"]] = F.path(prbytes(f"seq/{kd['label']}", kd["size"] if kd["size"] > 0 else 96 + 32 * i))
        ld = pyres(BootableImage.load_from_config, dict(cfg), [F.scratch])
        if ld[0] != "ok":
            s.note((fam, rev, mt, []))
            s.expect(False, (fam, rev, mt, []), "load_from_config raised for the sequence object", ld)
            continue
        b = ld[1]
        statics = sorted({off for _, off in segs if off is not None})
        labels = [kd["label"] for kd, _ in segs]
        foreign = next(k["label"] for k in T.kinds if k["label"] not in labels)
        ints = sorted({0, 1, -1} | set(statics) | {o + d for o in statics for d in (-1, 1)} | {max(statics) + 1}
                      | {(a + c) // 2 for a, c in zip(statics, statics[1:])})
        last = statics[-1]
        ops = [("int", last), ("int", 0)] + ([("name", labels[[o for _, o in segs].index(statics[1])]), ("set", 0)] if len(statics) > 1 else [])
        for _ in range(ck.budget(8, 14) - len(ops)):
            k = rng.random()
            ops.append(("int", rng.choice(ints)) if k < 0.45 else ("set", rng.choice(ints)) if k < 0.65 else
                       ("name", rng.choice(labels + [foreign])) if k < 0.9 else ("int", 0))
        done, toks, model_real = [], [], []
        prev = observe(b)
        for kind, v in ops:
            done.append([kind, v])
            inp = (fam, rev, mt, list(done))
            if kind == "int":
                def act(v=v):
                    b.init_offset = v
            elif kind == "set":
                def act(v=v):
                    b.set_init_offset(v)
            else:
                def act(v=v):
                    b.set_init_offset(BootableImageSegment.from_label(v))
            r = pyres(act)
            now = observe(b)
            s.note(inp, nontrivial=prev[0] != 0, cls=kind + ("/refused" if r[0] != "ok" else "/zero" if now[0] == 0 else "/pos"))
            if r[0] != "ok":
                s.expect(r[0] == "E:spsdk" and now == prev, inp, "a refused init-offset request changes the object / raises a non-SPSDK exception", (r, now), prev)
            fr = pyres(BootableImage.load_from_config, dict(cfg, init_offset=now[0]), [F.scratch])
            if fr[0] != "ok":
                s.expect(False, inp, "a fresh object cannot be loaded with the init offset the object reports", (now[0], fr))
            else:
                want = observe(fr[1])
                s.expect(now == want, inp, "after a sequence of init-offset assignments the object does not behave like a fresh object with the "
                         "same segments and the current init offset (init offset, excluded flags, segments, len, export)", now, want)
            toks.append(f"i:{v}" if kind != "name" else f"k:{T.gkind(v)}")
            model_real.append(f"{now[0]}:{now[1]}")
            prev = now
        reqs.append(((fam, rev, mt, done), f"seq {T.glay(row['layout'])} {' '.join(toks)}", "S:" + ",".join(model_real)))
    if drv is not None:
        for (inp, line, real), ans in zip(reqs, drv.batch([q[1] for q in reqs])):
            s.compare(inp, real, ans)


def run(ck):
    import random
    import time
    drv, T = setup(ck)
    t0 = time.time()
    init_stream(ck, drv, T)
    t0 = _tick(ck, "init_stream", t0)
    quick = ck.quick
    s = ck.stream("merge_parse", "every (family, revision, memory type) row x subsets of the optional segments (quick: all/none/2 random, thorough: "
                  "every subset) x init offsets (0 and static segment offsets, a rounded-up request, a request by segment name) x payload size classes "
                  "{SIZE, 1, SIZE-1, gap-1, gap} for raw header segments, valid FCB/XMCD/image-version values, application containers generated with "
                  "SPSDK's own classes for the row's family (MBI plain/CRC, HAB unsigned, AHAB per target memory, SB2.1/SB3.1 headers) in several sizes: "
                  "load_from_config -> offsets/len/export vs model and vs the placement statement; BootableImage.parse(export) vs model and vs "
                  "'each segment's bytes recovered'; non-trivial = every case (distinct row x configuration)")
    s.exhaustive = False
    base_seed = ck.rng.getrandbits(64)
    by_family = {}
    rowmap = {(r["family"], r["revision"], r["mem_type"]): r for r in T.rows}
    # past failures first (corpus/C14/cases.json): each with its full-image sibling so that export(init) = export(0)[init:] is checked
    for case in corpus_cases():
        row = rowmap.get(tuple(case["row"]))
        if row is not None and row["usable"]:
            by_family.setdefault(row["family"], []).append((row, ([dict(case, init=0)] if case["init"] != 0 else []) + [case]))
    for idx, row in enumerate(T.rows):
        if not row["usable"]:
            continue
        rng = random.Random(f"{base_seed}/{idx}")
        by_family.setdefault(row["family"], []).append((row, gen_cases(T, row, rng, quick)))
    tasks = sorted(by_family.items())
    results = evaluate(ck, T, tasks)
    t0 = _tick(ck, "evaluate", t0)
    feed(ck, s, drv, T, results)
    t0 = _tick(ck, "model", t0)
    glue_stream(ck, T)
    t0 = _tick(ck, "glue", t0)
    seq_stream(ck, drv, T, Factory(os.path.join(os.environ["VERIF_SCRATCH"], "seq")))
    _tick(ck, "sequence", t0)


def replay(ck, data):
    """re-evaluate the cases of a replay file (their descriptors determine the payload bytes)"""
    drv, T = setup(ck)
    rowmap = {(r["family"], r["revision"], r["mem_type"]): r for r in T.rows}
    if data.get("stream") == "init_offset" or not any(isinstance(c.get("input"), dict) for c in data.get("cases", [])):
        init_stream(ck, drv, T)
        if data.get("stream") == "init_offset":
            return
        return run(ck)
    s = ck.stream("merge_parse", "replayed cases")
    by_family = {}
    for c in data.get("cases", []):
        case = c["input"]
        row = rowmap.get(tuple(case["row"]))
        if row is None:
            continue
        base = dict(case, init=0)
        by_family.setdefault(row["family"], []).append((row, [base, case] if case["init"] != 0 else [case]))
    results = evaluate(ck, T, sorted(by_family.items()))
    feed(ck, s, drv, T, results)
