"""C18 - database cache: no crash point or concurrent start can break or skew SPSDK (spsdk/utils/database.py).

Obligations   : Properties/C18.lean - theorems over the action programs of Model/DbCache.lean instantiated with
                Generated/CacheGuards.lean (= what gen_C18.py reads from the AST of the CURRENT source: caught exception
                classes, lock regions, handler shape, in-place vs rename) for one process on any crash state and for all
                interleavings (with SIGKILLs) of any number of processes.
Measured premise: the theorems assume that `pickle.load` on the empty file / a strict prefix of a dump raises a class from the
                committed Lean list `measuredPrefixExcs`; stream `prefix_classes` re-measures this on both real cache
                files on every run and fails on any other class (or on a strict prefix that loads).
Correspondence: real SPSDK processes run under a controlled scheduler (a `sitecustomize` tracer gates every
                exists/acquire/open/load/remove/dump/release on a cache file) and the observed schedule is replayed,
                action by action with its result, in the native model `drv_c18`; the exception hierarchy of the model
                is compared pairwise with `issubclass`; exhaustive model exploration must be safe, and an unsafe model
                schedule is replayed against the real processes to obtain a concrete failing run.
Oracle        : REAL fresh interpreters (python -c query script, `python -m spsdk.apps.nxpimage --help`) started on prepared
                cache folders (every crash state: missing/empty/prefix/stale/wrong type), alone and N at a time behind a
                barrier, with SIGKILLs injected at chosen actions; each must exit 0 and answer exactly as a run with
                SPSDK_CACHE_DISABLED=1; afterwards every cache file is absent or loads with the right type.
The user's cache is never touched: every child gets SPSDK_CACHE_FOLDER under /tmp/C18/.
"""
from __future__ import annotations

import concurrent.futures
import json
import os
import random
import re
import selectors
import shutil
import socket
import struct
import subprocess
import sys
import time
from pathlib import Path

from vcore import LEAN

PY = sys.executable
REPO = os.environ.get("SPSDK_REPO", "/repo")
ROOT = Path("/tmp/C18")
SCHEMAS = ["tz", "bee", "iee", "otfad"]          # model key ids 1..4 (config-cache entries sch_<x>.yaml)
ALL_QUERIES = ["families:mbi", "features:", "schema:tz", "schema:bee", "defaults:mbi", "device:lpc55s69", "schema:iee", "schema:otfad"]
CLI = ["-m", "spsdk.apps.nxpimage", "--help"]

# ------------------------------------------------------------------------------------------------ child sources
TRACER = r'''
# sitecustomize of the C18 harness: observe / gate the file-system actions SPSDK performs on its database caches.
# Active only when C18_SOCK is set.  Protocol (one JSON object per line over a Unix socket):
#   child -> {"id": i, "ev": "hello"}                                     then waits for "go"  (start barrier)
#   child -> {"id": i, "ev": "pre", "f": "q"|"d", "act": a [, "keys": [...]]}   then (gate mode) waits for a command:
#            "go" | "kill" | "partial <n>"   (partial: only for act == "dump": write n bytes, then SIGKILL self)
#   child -> {"id": i, "ev": "post", "f": ..., "act": a, "res": r}
import os
if os.environ.get("C18_SOCK"):
    import builtins, io, json, pickle, signal, socket
    _id = int(os.environ.get("C18_ID", "0"))
    _gate = os.environ.get("C18_MODE", "gate") == "gate"
    _sock = socket.socket(socket.AF_UNIX, socket.SOCK_STREAM)
    _sock.connect(os.environ["C18_SOCK"])
    _rf = _sock.makefile("r")

    def _send(d):
        d["id"] = _id
        _sock.sendall((json.dumps(d) + "\n").encode())

    def _cmd():
        line = _rf.readline()
        if not line:
            os._exit(97)
        return line.strip()

    def _kind(path):
        if type(path) is not str:
            return None
        b = os.path.basename(path)
        if b.endswith(".lock"):
            b = b[:-5]
        if not b.endswith(".cache"):
            return None
        if b.startswith("db_quick_info_"):
            return "q"
        if b.startswith("db_data_"):
            return "d"
        return None

    def _pre(f, act, **kw):
        d = {"ev": "pre", "f": f, "act": act}
        d.update(kw)
        _send(d)
        if not _gate:
            return "go"
        c = _cmd()
        if c == "kill":
            os.kill(os.getpid(), signal.SIGKILL)
        if c.startswith("raise "):          # fault injection: this action fails with an I/O error
            name = c.split()[1]
            _post(f, act, name)
            import errno
            if name == "Timeout":
                import filelock as _fl
                raise _fl.Timeout("injected by the C18 harness")
            cls = {"PermissionError": (PermissionError, errno.EACCES), "OSError": (OSError, errno.ENOSPC),
                   "FileNotFoundError": (FileNotFoundError, errno.ENOENT)}[name]
            raise cls[0](cls[1], "injected by the C18 harness")
        return c

    def _post(f, act, res):
        _send({"ev": "post", "f": f, "act": act, "res": res})

    def _wrap(f, act, fn, ok=lambda r: "ok"):
        _pre(f, act)
        try:
            r = fn()
        except BaseException as exc:
            _post(f, act, type(exc).__name__)
            raise
        _post(f, act, ok(r))
        return r

    _exists = os.path.exists
    def exists(path):
        k = _kind(path)
        if k is None or str(path).endswith(".lock"):
            return _exists(path)
        return _wrap(k, "exists", lambda: _exists(path), lambda r: "1" if r else "0")
    os.path.exists = exists

    import shutil      # before os.unlink is wrapped: shutil decides at import time whether it can use dir_fd functions
    _in_wipe = [False]
    _remove = os.remove
    def remove(path, *a, **kw):
        k = _kind(path)
        if k is None or str(path).endswith(".lock") or _in_wipe[0]:
            return _remove(path, *a, **kw)
        return _wrap(k, "remove", lambda: _remove(path, *a, **kw))
    os.remove = remove
    os.unlink = remove

    _open = builtins.open
    def open_(file, mode="r", *a, **kw):
        k = _kind(file)
        if k is None or str(file).endswith(".lock"):
            return _open(file, mode, *a, **kw)
        act = "open_w" if any(c in mode for c in "wax+") else "open_r"
        return _wrap(k, act, lambda: _open(file, mode, *a, **kw))
    builtins.open = open_
    io.open = open_

    _load = pickle.load
    def load(f, *a, **kw):
        k = _kind(getattr(f, "name", None))
        if k is None:
            return _load(f, *a, **kw)
        return _wrap(k, "load", lambda: _load(f, *a, **kw))
    pickle.load = load

    def _keys(obj):
        c = getattr(obj, "cfg_cache", None)
        if isinstance(c, dict):
            return [os.path.basename(x) for x in c.keys()]
        return ["*"]

    _dump = pickle.dump
    def dump(obj, f, *a, **kw):
        k = _kind(getattr(f, "name", None))
        if k is None:
            return _dump(obj, f, *a, **kw)
        c = _pre(k, "dump", keys=_keys(obj))
        if c.startswith("partial"):
            data = pickle.dumps(obj, *a, **kw)
            n = int(c.split()[1])
            n = len(data) // 2 + 1 if n == -2 else len(data) if n < 0 else min(n, len(data))
            f.write(data[:n])
            f.flush()
            os.kill(os.getpid(), signal.SIGKILL)
        try:
            r = _dump(obj, f, *a, **kw)
            f.flush()
        except BaseException as exc:
            _post(k, "dump", type(exc).__name__)
            raise
        _post(k, "dump", "ok")
        return r
    pickle.dump = dump

    # a store through a temporary file: the rename onto the cache file is the (atomic) write
    def _mk_replace(orig):
        def replace(src, dst, *a, **kw):
            k = _kind(dst) if not str(dst).endswith(".lock") else None
            if k is None:
                return orig(src, dst, *a, **kw)
            c = _pre(k, "dump", keys=["?"])
            if c.startswith("partial"):      # killed while writing the temporary file: the cache file is untouched
                os.kill(os.getpid(), signal.SIGKILL)
            try:
                r = orig(src, dst, *a, **kw)
            except BaseException as exc:
                _post(k, "dump", type(exc).__name__)
                raise
            _post(k, "dump", "ok")
            return r
        return replace
    os.replace = _mk_replace(os.replace)
    os.rename = _mk_replace(os.rename)

    # a cache-disabled process removes the whole cache folder
    import shutil
    _rmtree = shutil.rmtree
    def rmtree(path, *a, **kw):
        try:
            mine = os.path.abspath(str(path)) == os.path.abspath(os.environ.get("SPSDK_CACHE_FOLDER", "\0"))
        except Exception:
            mine = False
        if not mine:
            return _rmtree(path, *a, **kw)
        def go():
            _in_wipe[0] = True
            try:
                return _rmtree(path, *a, **kw)
            finally:
                _in_wipe[0] = False
        return _wrap("*", "wipe", go)
    shutil.rmtree = rmtree

    import filelock
    _acq = filelock.BaseFileLock.acquire
    _rel = filelock.BaseFileLock.release
    def acquire(self, *a, **kw):
        k = _kind(self.lock_file)
        if k is None or self.is_locked:
            return _acq(self, *a, **kw)
        return _wrap(k, "acquire", lambda: _acq(self, *a, **kw), lambda r: "-")
    def release(self, *a, **kw):
        k = _kind(self.lock_file)
        if k is None or not self.is_locked:      # e.g. the no-op release from __del__
            return _rel(self, *a, **kw)
        return _wrap(k, "release", lambda: _rel(self, *a, **kw), lambda r: "-")
    filelock.BaseFileLock.acquire = acquire
    filelock.BaseFileLock.release = release

    _send({"ev": "hello"})
    _cmd()   # start barrier
'''

CHILD = r'''
import hashlib, json, sys
def _dig(x):
    return hashlib.sha256(json.dumps(x, sort_keys=True, default=str).encode()).hexdigest()[:16]
out = []
from spsdk.utils import database as D
for q in sys.argv[1:]:
    kind, _, arg = q.partition(":")
    if kind == "families":
        out.append([q, _dig(sorted(D.get_families(arg)))])
    elif kind == "schema":
        out.append([q, _dig(D.get_schema_file(arg))])
    elif kind == "defaults":
        out.append([q, _dig(D.DatabaseManager().db.get_defaults(arg))])
    elif kind == "device":
        dev = D.get_device(arg)
        out.append([q, _dig([dev.name, sorted(dev.features_list), dev.info.purpose])])
    elif kind == "features":
        out.append([q, _dig(sorted(D.DatabaseManager().quick_info.features_data.get_all_features))])
print("ANSWERS " + json.dumps(out))
'''

CHILD_ENV = r'''
# environment histories: answers that depend on the configured data folders (data / restricted / add-ons)
import json, os, sys
mode = sys.argv[1]
import spsdk
if mode == "info":
    from spsdk.utils.misc import load_configuration
    out = {"major": spsdk.version.major, "minor": spsdk.version.minor, "devices": sorted(os.listdir(os.path.join(spsdk.SPSDK_DATA_FOLDER, "devices")))}
    for dev in sys.argv[2:]:
        f = os.path.join(spsdk.SPSDK_DATA_FOLDER, "devices", dev, "database.yaml")
        out[dev] = load_configuration(f) if os.path.exists(f) else None
    print("ENVINFO " + json.dumps(out, default=str))
elif mode == "cfgfile":
    from spsdk.utils import database as D
    print("ENVANS " + json.dumps({"content": D.DatabaseManager().db.load_db_cfg_file(sys.argv[2])}, sort_keys=True, default=str))
else:
    from spsdk.utils import database as D
    devs, feats = sys.argv[2].split(","), sys.argv[3].split(",")
    qi = D.DatabaseManager().quick_info
    ans = {"families": {f: sorted(D.get_families(f)) for f in feats}, "all_features": sorted(qi.features_data.get_all_features)}
    for d in devs:
        ans["quick_info:" + d] = sorted(qi.devices.get_feature_list(d))
        ans["get_device:" + d] = sorted(D.get_device(d).features_list)
        ans["get_db:" + d] = sorted(D.get_db(d).features.keys())
    print("ENVANS " + json.dumps(ans, sort_keys=True))
'''

HELPER = r'''
# classification / preparation helper, run in a child with SPSDK importable and a scratch SPSDK_CACHE_FOLDER
import glob, io, json, os, pickle, struct, sys
import spsdk.utils.database as D     # classes must be importable for unpickling; does not instantiate the manager
req = json.load(open(sys.argv[1]))
out = {}

def files(folder):
    r = {}
    for fn in sorted(glob.glob(os.path.join(folder, "*.cache"))):
        b = os.path.basename(fn)
        r["q" if b.startswith("db_quick_info_") else "d"] = fn
    return r

def cls_of(data):
    try:
        v = pickle.load(io.BytesIO(data), encoding="utf-8")
        return "ok:" + type(v).__name__
    except BaseException as e:
        return type(e).__name__

def frames(data):
    pos, b = 2, [0, 2]
    while pos + 9 <= len(data) and data[pos] == 0x95:
        pos += 9 + struct.unpack("<Q", data[pos + 1:pos + 9])[0]
        b.append(pos)
    return [x for x in b if x <= len(data)]

if req["cmd"] == "info":
    for k, fn in files(req["golden"]).items():
        data = open(fn, "rb").read()
        v = pickle.loads(data)
        out[k] = {"name": os.path.basename(fn), "len": len(data), "frames": frames(data), "type": type(v).__name__,
                  "keys": [os.path.basename(x) for x in getattr(v, "cfg_cache", {}).keys()]}
elif req["cmd"] == "classify":
    for k, fn in files(req["golden"]).items():
        data = open(fn, "rb").read()
        res = {}
        for n in req["lengths"][k]:
            res[n] = cls_of(data[:n])
        # a few through a real file object as well (what SPSDK does)
        for n in req["lengths"][k][:: max(1, len(req["lengths"][k]) // 40)]:
            tmp = os.path.join(req["tmp"], "p.cache")
            open(tmp, "wb").write(data[:n])
            try:
                with open(tmp, "rb") as f:
                    v = pickle.load(f, encoding="utf-8")
                c = "ok:" + type(v).__name__
            except BaseException as e:
                c = type(e).__name__
            if c != res[n]:
                res[n] = "FILE-VS-BYTESIO:" + c + "/" + res[n]
        out[k] = res
elif req["cmd"] == "variants":
    g = files(req["golden"])
    qd, dd = open(g["q"], "rb").read(), open(g["d"], "rb").read()
    def put(name, k, data):
        d = os.path.join(req["out"], name)
        os.makedirs(d, exist_ok=True)
        for kk, fn in g.items():
            open(os.path.join(d, os.path.basename(fn)), "wb").write(data if kk == k else open(fn, "rb").read())
    v = pickle.loads(qd); v.db_hash = b"\x00" * len(v.db_hash)
    try:
        v.devices.devices = {}
        v.features_data.features = {}
    except Exception:
        pass
    put("q_stalefp", "q", pickle.dumps(v, pickle.DEFAULT_PROTOCOL))
    put("q_wrongtype", "q", pickle.dumps({"a": 1}))
    put("q_otherclass", "q", dd)
    v = pickle.loads(qd); del v.__dict__["db_hash"]
    put("q_noattr", "q", pickle.dumps(v, pickle.DEFAULT_PROTOCOL))
    def poison(v):
        for k in list(v.cfg_cache):
            v.cfg_cache[k] = {"STALE": "CONTENT"}
        if isinstance(getattr(v, "defaults", None), dict) and "features" in v.defaults:
            for k in v.defaults["features"]:
                v.defaults["features"][k] = {"STALE": "CONTENT"}
        return v
    v = poison(pickle.loads(dd)); v.db_hash = b"\x00" * len(v.db_hash)
    put("d_stalefp", "d", pickle.dumps(v, pickle.DEFAULT_PROTOCOL))
    v = poison(pickle.loads(dd)); v.cfg_cache[os.path.join(req["out"], "vanished.yaml")] = {"x": 1}
    put("d_vanished", "d", pickle.dumps(v, pickle.DEFAULT_PROTOCOL))
    put("d_wrongtype", "d", pickle.dumps({"a": 1}))
    put("d_otherclass", "d", qd)
    v = pickle.loads(dd); del v.__dict__["cfg_cache"]
    put("d_noattr", "d", pickle.dumps(v, pickle.DEFAULT_PROTOCOL))
    put("q_text", "q", b"this is not a pickle\n")
    put("d_zeros", "d", b"\x00" * 4096)
    put("q_header_only", "q", qd[:11])
    out = {"ok": True}
elif req["cmd"] == "inspect":
    gold = {k: pickle.loads(open(fn, "rb").read()) for k, fn in files(req["golden"]).items()}
    for folder in req["folders"]:
        r = {}
        fs = files(folder)
        for k in ("q", "d"):
            if k not in fs:
                r[k] = "missing"
                continue
            data = open(fs[k], "rb").read()
            try:
                v = pickle.load(io.BytesIO(data), encoding="utf-8")
            except BaseException as e:
                r[k] = "raises:" + type(e).__name__
                continue
            try:
                if type(v) is not type(gold[k]):
                    r[k] = "wrongtype:" + type(v).__name__
                elif k == "q":
                    r[k] = "valid" if getattr(v, "db_hash", None) == gold[k].db_hash else "stale"
                else:
                    ok = all(kk in gold[k].cfg_cache and vv == gold[k].cfg_cache[kk] for kk, vv in v.cfg_cache.items())
                    r[k] = ("valid:" if ok else "stale:") + ",".join(os.path.basename(x) for x in v.cfg_cache)
            except Exception as e:
                r[k] = "unusable:" + type(e).__name__
        out[folder] = r
print("HELPER " + json.dumps(out))
'''


# ------------------------------------------------------------------------------------------------ process helpers
DATA_FOLDER = None   # per-run snapshot of spsdk/data (other checks may edit /repo's data files while this one runs)


def child_env(folder, site=None, extra=None):
    env = {k: v for k, v in os.environ.items() if not k.startswith("SPSDK_CACHE") and not k.startswith("C18_")}
    env["PYTHONPATH"] = (f"{site}:" if site else "") + REPO
    env["SPSDK_CACHE_FOLDER"] = str(folder)
    env["PYTHONDONTWRITEBYTECODE"] = "1"
    if DATA_FOLDER:
        env["SPSDK_DATA_FOLDER"] = DATA_FOLDER
    if extra:
        env.update(extra)
    return env


def err_class(stderr: str) -> str:
    """class name of an uncaught exception from a traceback on stderr (for reporting only)."""
    for line in reversed(stderr.strip().splitlines()):
        m = re.match(r"([A-Za-z_][\w.]*)(:|$)", line.strip())
        if m and not line.startswith(" ") and "WARNING" not in line and "ERROR:" not in line:
            return m.group(1).split(".")[-1]
    return "?"


def parse_answers(out: str):
    for line in out.splitlines():
        if line.startswith("ANSWERS "):
            return json.loads(line[8:])
    return None


def run_start(folder, queries, disabled=False, cli=False, timeout=300):
    """one real fresh interpreter; -> dict(rc, answers | stdout, err)"""
    env = child_env(folder, extra={"SPSDK_CACHE_DISABLED": "1"} if disabled else None)
    cmd = [PY, *CLI] if cli else [PY, "-c", CHILD, *queries]
    try:
        p = subprocess.run(cmd, env=env, capture_output=True, text=True, timeout=timeout)
    except subprocess.TimeoutExpired:
        return {"rc": "timeout", "answers": None, "err": "timeout"}
    out = "\n".join(ln for ln in p.stdout.splitlines() if "conda" not in ln)
    return {"rc": p.returncode, "answers": out if cli else parse_answers(out), "err": err_class(p.stderr) if p.returncode else ""}


def helper(work: Path, folder, req, timeout=1800):
    rf = work / f"req-{os.getpid()}-{time.time_ns()}.json"
    rf.write_text(json.dumps(req))
    p = subprocess.run([PY, "-c", HELPER, str(rf)], env=child_env(folder), capture_output=True, text=True, timeout=timeout)
    rf.unlink()
    for line in p.stdout.splitlines():
        if line.startswith("HELPER "):
            return json.loads(line[7:])
    raise RuntimeError("helper failed: " + p.stderr[-800:])


# ------------------------------------------------------------------------------------------------ controlled scheduler
class _P:
    def __init__(self, i):
        self.i, self.popen, self.conn = i, None, None
        self.state, self.pending, self.killed = "starting", None, False
        self.rc, self.out, self.err = None, "", ""


class Sched:
    """N traced children on one cache folder.  gate mode: every cache action of every child waits for this scheduler, which
    releases ONE enabled action at a time whenever all live children are waiting (so the schedule is a deterministic function
    of `choose`); free mode: only the start barrier."""

    def __init__(self, work: Path, cache: Path, site: Path, queries, choose, crash_plan=None, free=False, timeout=240, disabled=()):
        self.work, self.cache, self.site, self.queries, self.choose = work, cache, site, queries, choose
        self.disabled = set(disabled)    # processes running with SPSDK_CACHE_DISABLED=1
        self.crash_plan = dict(crash_plan or {})   # pid -> ((file, act, occurrence), "kill" | "partial n")
        self.free, self.timeout = free, timeout
        self.trace, self.locks, self.problem = [], {}, None
        self.procs = [_P(i) for i in range(len(queries))]

    def _start(self):
        self.sockpath = str(self.work / "s.sock")
        self.srv = socket.socket(socket.AF_UNIX, socket.SOCK_STREAM)
        self.srv.bind(self.sockpath)
        self.srv.listen(64)
        self.srv.setblocking(False)
        self.sel = selectors.DefaultSelector()
        self.sel.register(self.srv, selectors.EVENT_READ, None)
        for p in self.procs:
            env = child_env(self.cache, self.site, {"C18_SOCK": self.sockpath, "C18_ID": str(p.i), "C18_MODE": "log" if self.free else "gate"})
            if p.i in self.disabled:
                env["SPSDK_CACHE_DISABLED"] = "1"
            p.popen = subprocess.Popen([PY, "-c", CHILD, *self.queries[p.i]], env=env, stdout=subprocess.PIPE, stderr=subprocess.PIPE, text=True)

    def _pump(self, wait):
        msgs = []
        for key, _ in self.sel.select(wait):
            if key.data is None:
                try:
                    conn, _a = self.srv.accept()
                except BlockingIOError:
                    continue
                conn.setblocking(False)
                self.sel.register(conn, selectors.EVENT_READ, {"proc": None, "buf": b""})
                continue
            d = key.data
            try:
                chunk = key.fileobj.recv(65536)
            except BlockingIOError:
                continue
            except ConnectionResetError:
                chunk = b""
            if not chunk:
                self.sel.unregister(key.fileobj)
                key.fileobj.close()
                if d["proc"] is not None:
                    msgs.append((d["proc"], {"ev": "eof"}))
                continue
            d["buf"] += chunk
            while b"\n" in d["buf"]:
                line, d["buf"] = d["buf"].split(b"\n", 1)
                m = json.loads(line)
                if d["proc"] is None:
                    d["proc"] = self.procs[m["id"]]
                    d["proc"].conn = key.fileobj
                msgs.append((d["proc"], m))
        return msgs

    def _send(self, p, cmd):
        try:
            p.conn.sendall((cmd + "\n").encode())
        except OSError:
            pass

    def _handle(self, p, m):
        ev = m["ev"]
        if ev == "hello":
            p.state = "hello"
        elif ev == "pre":
            p.state, p.pending = "gated", m
        elif ev == "post":
            self.trace.append([p.i, m["f"], m["act"], m["res"], (p.pending or {}).get("keys")])
            if m["act"] == "acquire" and m["res"] == "-":
                self.locks[m["f"]] = p.i
            if m["act"] == "release" and self.locks.get(m["f"]) == p.i:
                del self.locks[m["f"]]
            if m["act"] == "wipe":
                self.locks.clear()      # the lock files are unlinked: whoever holds one holds an orphan
            p.state, p.pending = "running", None
        elif ev == "eof":
            p.state = "exited"
            for f in [f for f, h in self.locks.items() if h == p.i]:
                del self.locks[f]

    def _wait(self, states, only=None):
        t0 = time.time()
        while not all(p.state in states for p in (only or self.procs)):
            for p, m in self._pump(0.2):
                self._handle(p, m)
            for p in self.procs:
                if p.state != "exited" and p.conn is None and p.popen.poll() is not None:
                    p.state = "exited"   # died before connecting
            if time.time() - t0 > self.timeout:
                self.problem = "timeout: " + ",".join(f"{p.i}:{p.state}:{(p.pending or {}).get('act')}" for p in self.procs)
                return False
        return True

    def run(self):
        self._start()
        try:
            if not self._wait(("hello", "exited")):
                return self
            for p in self.procs:
                if p.state == "hello":
                    p.state = "running"
                    self._send(p, "go")
            if self.free:
                self._wait(("exited",))
                return self
            while True:
                if not self._wait(("gated", "exited")):
                    return self
                gated = [p for p in self.procs if p.state == "gated"]
                if not gated:
                    break
                enabled = [p for p in gated if not (p.pending["act"] == "acquire" and p.pending["f"] in self.locks)]
                if not enabled:
                    self.problem = "deadlock: every live process waits for a held lock " + repr(self.locks)
                    return self
                p = self.choose(self, enabled)
                if p is None:
                    break
                cmd = "go"
                plan = self.crash_plan.get(p.i)
                if plan:
                    occ = sum(1 for t in self.trace if t[0] == p.i and t[1] == p.pending["f"] and t[2] == p.pending["act"])
                    if tuple(plan[0]) == (p.pending["f"], p.pending["act"], occ):
                        if plan[1].startswith("raise"):
                            cmd = plan[1] if p.pending["act"] in ("acquire", "open_r", "open_w", "dump") else "go"
                        else:
                            cmd = plan[1] if (p.pending["act"] == "dump" or plan[1] == "kill") else "kill"
                if cmd == "go" or cmd.startswith("raise"):
                    p.state = "running"
                    self._send(p, cmd)
                    t0 = time.time()
                    while p.state == "running" and p.pending is not None:
                        for q, m in self._pump(0.2):
                            self._handle(q, m)
                        if time.time() - t0 > self.timeout:
                            self.problem = f"timeout: process {p.i} does not finish {p.pending}"
                            return self
                else:
                    p.killed = True
                    self.trace.append([p.i, p.pending["f"], "crash", cmd, p.pending.get("keys")])
                    p.state = "running"
                    self._send(p, cmd)
                    if not self._wait(("exited",), only=[p]):
                        return self
            return self
        finally:
            for p in self.procs:
                if p.popen.poll() is None and (self.problem or p.state != "exited"):
                    try:
                        p.popen.wait(timeout=30 if not self.problem else 0.1)
                    except subprocess.TimeoutExpired:
                        p.popen.kill()
                try:
                    p.out, p.err = p.popen.communicate(timeout=30)
                except subprocess.TimeoutExpired:
                    p.popen.kill()
                    p.out, p.err = p.popen.communicate()
                p.rc = p.popen.returncode
            self.sel.close()
            self.srv.close()
            try:
                os.unlink(self.sockpath)
            except OSError:
                pass


def rng_choose(rng):
    return lambda sched, enabled: rng.choice(enabled)


def scripted_choose(script, target):
    """follow a model schedule `[(pid, 'r'|'k', n)]` on file `target`; actions of the named process on the other file are let through."""
    pos = [0]

    def choose(sched, enabled):
        # let everybody's actions on the other file pass first (they do not exist in the model of `target`)
        for p in enabled:
            if p.pending["f"] != target:
                return p
        while pos[0] < len(script):
            pid, kind, n = script[pos[0]]
            p = next((x for x in enabled if x.i == pid), None)
            if p is None:
                pos[0] += 1    # the model step has no counterpart (process finished/blocked): skip it
                continue
            pos[0] += 1
            if kind == "k":
                sched.crash_plan[pid] = ((p.pending["f"], p.pending["act"],
                                          sum(1 for t in sched.trace if t[0] == pid and t[1] == p.pending["f"] and t[2] == p.pending["act"])),
                                         "kill" if p.pending["act"] != "dump" else f"partial {n}")
            return p
        return enabled[0]   # script exhausted: run the rest in order

    return choose


def observed_choose(observed):
    """replay an observed schedule `[[pid, file, act, res], …]` (crash entries: act == 'crash', res = the command)."""
    pos = [0]

    def choose(sched, enabled):
        while pos[0] < len(observed):
            pid, f, act, res = observed[pos[0]][:4]
            p = next((x for x in enabled if x.i == pid and x.pending["f"] == f), None)
            if p is None:
                pos[0] += 1
                continue
            pos[0] += 1
            occ = sum(1 for t in sched.trace if t[0] == pid and t[1] == f and t[2] == p.pending["act"])
            if act == "crash":
                sched.crash_plan[pid] = ((f, p.pending["act"], occ), res)
            elif res in ("PermissionError", "OSError", "Timeout") and act in ("acquire", "open_r", "open_w", "dump"):
                sched.crash_plan[pid] = ((f, act, occ), "raise " + res)    # an injected I/O error of the recorded run
            return p
        return enabled[0]

    return choose


# ------------------------------------------------------------------------------------------------ the check
class Ctx:
    pass


def lean_measured():
    txt = (LEAN / "SpsdkVerif" / "Properties" / "C18.lean").read_text()
    m = re.search(r"def measuredPrefixExcs\s*:\s*List Exc\s*:=\s*\[([^\]]*)\]", txt)
    return sorted(x.strip().lstrip(".").replace("Exc.", "") for x in m.group(1).split(",")) if m else []


def copy_cache(src: Path, dst: Path):
    dst.mkdir(parents=True, exist_ok=True)
    for f in src.glob("*.cache"):
        shutil.copyfile(f, dst / f.name)


def prepare(ck, work: Path) -> Ctx:
    c = Ctx()
    c.work = work
    c.site = work / "site"
    c.site.mkdir()
    (c.site / "sitecustomize.py").write_text(TRACER)
    c.golden = work / "golden"
    c.golden.mkdir()
    # the fingerprints depend on (mtime,size) of the data files: work on a private snapshot so that the assumption
    # "data files do not change while the processes run" holds even when somebody edits /repo concurrently
    global DATA_FOLDER
    DATA_FOLDER = str(work / "data")
    shutil.copytree(Path(REPO) / "spsdk" / "data", DATA_FOLDER)
    import itertools
    c.counter = itertools.count(1)
    # expected answers: cache disabled (its own folder: a disabled start wipes the cache folder)
    dis = work / "disabled"
    dis.mkdir()
    c.expected = run_start(dis, ALL_QUERIES, disabled=True)
    c.cli_expected = run_start(dis, [], disabled=True, cli=True)
    c.cli_ok = c.cli_expected["rc"] == 0
    # golden caches: one cold start with every query, then a warm one
    cold = run_start(c.golden, ALL_QUERIES)
    warm = run_start(c.golden, ALL_QUERIES)
    c.cold, c.warm = cold, warm
    # a valid config cache holding only the first schema (so that other queries miss and merge)
    c.partial = work / "partial"
    c.partial.mkdir()
    run_start(c.partial, [f"schema:{SCHEMAS[0]}"])
    c.info = helper(work, work / "hc", {"cmd": "info", "golden": str(c.golden)}) if cold["rc"] == 0 else {}
    return c


def new_folder(c: Ctx, tag: str) -> Path:
    d = c.work / f"{tag}-{next(c.counter)}"
    d.mkdir()
    return d


def set_state(c: Ctx, folder: Path, k: str, state):
    """prepare cache file `k` ('q'|'d') in folder: 'missing' | 'valid' | int prefix length | variant name"""
    name = c.info[k]["name"]
    if state == "missing":
        return
    if state == "valid":
        shutil.copyfile(c.golden / name, folder / name)
    elif state == "partial":
        shutil.copyfile(c.partial / name, folder / name)
    elif isinstance(state, int):
        (folder / name).write_bytes((c.golden / name).read_bytes()[:state])
    else:
        shutil.copyfile(c.work / "variants" / state / name, folder / name)


def key_id(basename: str) -> int:
    m = re.match(r"sch_(\w+)\.yaml$", basename)
    if m and m.group(1) in SCHEMAS:
        return SCHEMAS.index(m.group(1)) + 1
    return 90 + (sum(basename.encode()) % 9)


def model_state(c: Ctx, k: str, state, cls_of_prefix) -> str:
    """the driver's name of an initial file state"""
    if state == "missing":
        return "missing"
    if state == "valid":
        return "valid:" + (",".join(str(key_id(x)) for x in c.info["d"]["keys"]) if k == "d" else "0")
    if state == "partial":
        return "valid:1" if k == "d" else "valid:0"
    if isinstance(state, int):
        return "raises:" + cls_of_prefix(k, state)
    if state.endswith("stalefp") or state.endswith("vanished"):
        return "stale:" + (",".join(str(key_id(x)) for x in c.info["d"]["keys"]) if k == "d" else "0")
    return "wrongtype"


def replay_in_model(drv, kind, file0, queries, trace, procs, fkey, disabled=()):
    """-> 'ok' or the first mismatch; trace entries [pid, file, act, res, keys]"""
    qs = ";".join(",".join(map(str, q)) if q else "-" for q in queries)
    a = drv.ask(f"init {kind} {file0} {qs}")
    if a != "ok":
        return "init: " + a, {}
    for pid, f, act, res, keys in trace:
        if act == "wipe":
            a = drv.ask("wipe")
            # a cache-disabled process has no loader: in the model it "finds no file" right after its own wipe
            if a == "ok" and fkey == "d" and pid in disabled:
                a = drv.ask(f"ev {pid} exists 0")
            if a != "ok":
                return a, {}
            continue
        if f != fkey:
            continue
        if act == "crash":
            n = "0" if res == "kill" else ("0" if res.endswith(" 0") else "mid" if res.endswith(" -2") else "full")
            a = drv.ask(f"crash {pid} {n}")
        else:
            if act == "dump":
                if res == "ok":     # otherwise: an I/O error class, the model's `fail` step
                    res = ",".join(str(key_id(x)) for x in keys) if fkey == "d" else "0"
                    res = "?" if keys == ["?"] else (res or "-")
            elif act in ("open_w",):
                if res == "ok":
                    res = "-"
            a = drv.ask(f"ev {pid} {act} {res}")
        if a != "ok":
            return a, {}
    # what the model says about the end of every process: 'exit:done' | 'exit:fatal:<Exc>' | '<action>:<result>' (not finished)
    ends = {}
    for p in procs:
        ends[p.i] = drv.ask(f"proc {p.i}").split(" ")[0]
    return "ok", ends


def judge_exits(procs, traces_touch, ends_q, ends_d):
    """exit status of every surviving real process vs the two models (a process is fatal iff one of the models says so)."""
    for p in procs:
        if p.killed:
            continue
        eq, ed = ends_q.get(p.i, "?"), ends_d.get(p.i, "?")
        if p.rc == 0:
            for f, e in (("q", eq), ("d", ed)):
                if e != "exit:done" and (p.i, f) in traces_touch:
                    return f"process {p.i} exits normally in the implementation; the model of cache '{f}' is at '{e}'"
        else:
            want = "exit:fatal:" + err_class(p.err)
            if want not in (eq, ed):
                return f"process {p.i} dies with {err_class(p.err)} in the implementation; the models are at '{eq}' / '{ed}'"
    return "ok"


def queries_to_keys(queries):
    """model query list of the config cache for a real query list"""
    return [SCHEMAS.index(q.split(":")[1]) + 1 for q in queries if q.startswith("schema:")]


def after_states(c: Ctx, folders):
    if not folders:
        return {}
    return helper(c.work, c.work / "hc", {"cmd": "inspect", "golden": str(c.golden), "folders": [str(f) for f in folders]})


def state_ok(st: str) -> bool:
    return st == "missing" or st.startswith("valid")


def drop_old_replays(ck):
    """vcore.finish() never deletes replay files of earlier runs of the same (tier, seed): do it here"""
    from vcore import VERIF
    for f in (VERIF / "replays").glob(f"C18-{ck.tier}-{ck.seed}-*.json"):
        try:
            f.unlink()
        except OSError:
            pass


def run(ck):
    drop_old_replays(ck)
    ROOT.mkdir(exist_ok=True)
    work = ROOT / f"run-{os.getpid()}-{ck.seed}"
    shutil.rmtree(work, ignore_errors=True)
    work.mkdir(parents=True)
    try:
        _run(ck, work)
    finally:
        shutil.rmtree(work, ignore_errors=True)


def _run(ck, work, only=None):
    phases = ck.extra.setdefault("phase_s", {})
    t_last = [time.time()]

    def mark(name):
        phases[name] = round(time.time() - t_last[0], 1)
        t_last[0] = time.time()

    ck.lean_obligations(generated=["CacheGuards", "CachePrograms", "CacheFingerprint"])
    drv = ck.driver()
    mark("lean")
    rng = ck.rng
    ck.assume("pickle: a dumped cache object loads back; the empty file and every strict prefix of a dump raise a class of `measuredPrefixExcs` "
              "(re-measured on the two real cache files each run: quick tier sampled prefixes incl. all frame boundaries, thorough tier every prefix of the config cache and a dense sample of the quick cache)",
              "fingerprint soundness: a cache whose stored db_hash equals the hash of the current (mtime,size) of the data files holds what a load of those files yields",
              "FileLock gives mutual exclusion between processes and the OS drops the lock of a killed process; lock time-outs (10 s) do not occur (not modelled)",
              "data files do not change while the processes run; errors of open('wb')/makedirs (read-only or full disk) are outside the model (the site table requires them to be inside a try that catches OSError)",
              "open('rb') + pickle.load is modelled as one snapshot of the file content (exact when the read is inside the lock)",
              "`defaults` of the config cache and the device/quick-info data are covered by the oracle streams only; the model has abstract entries",
              "bit rot (a damaged file that still unpickles to a right-typed object with the current fingerprint) is not a crash state and not covered")
    c = prepare(ck, work)
    mark("prepare")
    par = ck.budget(12, 14)
    measured = lean_measured()
    ostream = (only or {}).get("stream")
    oin = (only or {}).get("input") or {}

    def wanted(name):
        return only is None or ostream == name

    s0 = ck.stream("baseline", "cold start, warm start and SPSDK_CACHE_DISABLED=1 start with every query; non-trivial = each start")
    for name, r in (("cold", c.cold), ("warm", c.warm)):
        s0.note(name)
        s0.expect(r["rc"] == 0 and r["answers"] == c.expected["answers"] and c.expected["rc"] == 0 and c.expected["answers"] is not None, name,
                  "a start on a missing / valid cache does not answer like a start with the cache disabled", r, c.expected)
    if c.cold["rc"] != 0 or not c.info or "q" not in c.info or "d" not in c.info:
        s0.expect(False, "golden", "could not build reference cache files", c.cold)
        return

    # ---------------------------------------------------------------- exception hierarchy (model vs live classes)
    sh = ck.stream("exception_hierarchy", "every ordered pair of the model's exception enum: Exc.isSub vs issubclass on the live classes; non-trivial = each pair")
    if drv is not None and wanted("exception_hierarchy"):
        import builtins
        import pickle
        import filelock
        from spsdk.exceptions import SPSDKError
        names = drv.ask("excs").split()
        live = {}
        for n in names:
            live[n] = {"PickleError": pickle.PickleError, "UnpicklingError": pickle.UnpicklingError, "PicklingError": pickle.PicklingError,
                       "Timeout": filelock.Timeout, "SPSDKError": SPSDKError}.get(n) or getattr(builtins, n, None)
        pairs = [(a, b) for a in names for b in names]
        ans = drv.batch([f"issub {a} {b}" for a, b in pairs])
        for (a, b), m in zip(pairs, ans):
            sh.note((a, b), nontrivial=True)
            real = "1" if (live[a] is not None and live[b] is not None and issubclass(live[a], live[b])) else "0"
            sh.compare((a, b), real, m, "exception hierarchy of the model differs from Python's")
        sh.exhaustive = True

    # ---------------------------------------------------------------- prefix classes (the measured premise)
    sp = ck.stream("prefix_classes", "pickle.load on byte-length prefixes of the real quick-info and config cache files (quick: all <= 4 KiB, every 256th, "
                   "last 64, every frame boundary -1/0/+1/+9; thorough: every prefix of the config cache, every 8th + all of the first/last 16 KiB of the quick cache); "
                   "each strict prefix must raise a class of measuredPrefixExcs, the complete file must load; non-trivial = each (file, length)")
    lengths = {}
    for k in ("q", "d"):
        ln, fr = c.info[k]["len"], c.info[k]["frames"]
        L = set(range(0, min(ln, 4096) + 1)) | set(range(0, ln + 1, 256)) | set(range(max(0, ln - 64), ln + 1))
        for b in fr:
            L |= {x for x in (b - 1, b, b + 1, b + 9) if 0 <= x <= ln}
        if not ck.quick and only is None:
            if k == "d" or ln <= 40000:
                L |= set(range(ln + 1))
            else:
                L |= set(range(0, ln + 1, 8)) | set(range(0, 16384)) | set(range(ln - 16384, ln + 1))
        lengths[k] = sorted(L)
    cls = helper(work, work / "hc", {"cmd": "classify", "golden": str(c.golden), "lengths": lengths, "tmp": str(work)})
    classes = {k: {int(n): v for n, v in cls[k].items()} for k in cls}
    observed = {}
    for k in ("q", "d"):
        for n, v in classes[k].items():
            full = n == c.info[k]["len"]
            sp.note((k, n), cls=f"{k}:{v}")
            observed.setdefault(v, (k, n))
            if full:
                sp.expect(v.startswith("ok:"), (k, n), "the complete cache file does not load", v)
            else:
                sp.expect(v in measured, (k, n), "pickle.load on a strict prefix of a cache file raises a class outside the measured set "
                          "measuredPrefixExcs of Properties/C18.lean (or loads): the premise of crash_states_harmless/caught_covers is not met", v, measured)

    def cls_of_prefix(k, n):
        return classes[k].get(n) or ("EOFError" if n in c.info[k]["frames"] else "UnpicklingError")

    mark("prefix_classes")
    # ---------------------------------------------------------------- model exploration (all interleavings, small N) + guided replay
    helper(work, work / "hc", {"cmd": "variants", "golden": str(c.golden), "out": str(work / "variants")})
    se = ck.stream("model_exploration", "exhaustive search of ALL interleavings (with kills and I/O errors at lock/open/dump; a second grid also with `wipe` = rmtree by a "
                   "cache-disabled process, checking 'nobody fatal') of the model instantiated with the generated guards, 1-3 processes, "
                   "every class of initial file; must be safe; an unsafe model schedule is replayed on real processes; non-trivial = each scenario")
    unsafe = []
    if drv is not None and only is None:
        grid = []
        for f0 in ("missing", "raises:EOFError", "raises:UnpicklingError", "stale:0", "wrongtype", "valid:0"):
            for qs in ("0", "0;0", "0;0;0"):
                grid.append(("quick", f0, qs, 1))
        for f0 in ("missing", "raises:EOFError", "raises:UnpicklingError", "stale:1,2", "wrongtype", "valid:1", "valid:1,2"):
            for qs in ("1,2", "1;2", "1,2;2,3", "1;1") + (("1;2;3",) if ck.quick else ("1;2;3", "1,2;2,1;3")):
                grid.append(("config", f0, qs, 1))
        for f0 in ("missing", "raises:EOFError", "stale:0", "valid:0"):
            grid.append(("quick", f0, "0;0", 2))
        for f0 in ("missing", "stale:1,2", "wrongtype", "valid:1"):
            grid.append(("config", f0, "1;2", 2))
        for kind, f0, qs, wc in grid:
            drv.ask(f"init {kind} {f0} {qs}")
            a = drv.ask(f"explore {wc} {ck.budget(400000, 6000000)}")
            se.note((kind, f0, qs, wc), cls=a.split()[0] + ("/wipes" if wc == 2 else ""))
            if a.startswith("unsafe"):
                unsafe.append((kind, f0, qs, a))
            elif not a.startswith("safe"):
                se.compare((kind, f0, qs), "safe", a, "model exploration did not finish")
        se.exhaustive = True

    mark("exploration")
    # ---------------------------------------------------------------- real starts on crash states
    sc = ck.stream("crash_starts", "a REAL fresh interpreter (query script; for a subset also `python -m spsdk.apps.nxpimage --help`) started on a cache folder in "
                   "which one cache file is a byte-length prefix (empty file, frame boundaries, each observed exception class, random lengths, complete-1) of the "
                   "valid file; exit status and answers must equal the SPSDK_CACHE_DISABLED=1 run, afterwards each cache file is absent or valid; non-trivial = each (file, length, entry point)")
    cases = []
    for k in ("q", "d"):
        ln, fr = c.info[k]["len"], c.info[k]["frames"]
        must = [0, 1, 2, 3, ln - 1] + [x for b in fr for x in (b - 1, b, b + 1) if 0 < x < ln]
        must += [n for (kk, n) in observed.values() if kk == k and n < ln]
        extra = [rng.randrange(1, ln) for _ in range(ck.budget(14, 600))]
        seen = set()
        for n in must + extra:
            if n not in seen and 0 <= n < ln:
                seen.add(n)
                cases.append((k, n, False))
        if c.cli_ok:
            for n in [0, fr[-2] if len(fr) > 1 else 2, ln // 2][: ck.budget(3, 3)] + [rng.randrange(1, ln) for _ in range(ck.budget(0, 40))]:
                cases.append((k, n, True))
    if only is not None:
        cases = [(oin["file"], int(oin["prefix_length"]), oin.get("entry") != "query script")] if ostream == "crash_starts" else []

    def do_crash_start(case):
        k, n, cli = case
        folder = new_folder(c, "cs")
        set_state(c, folder, "q", n if k == "q" else "valid")
        set_state(c, folder, "d", n if k == "d" else "valid")
        r = run_start(folder, ALL_QUERIES, cli=cli)
        return case, folder, r

    results, insp = [], {}
    for lo in range(0, len(cases), 200):     # in chunks: bounded disk use
        with concurrent.futures.ThreadPoolExecutor(par) as ex:
            chunk = list(ex.map(do_crash_start, cases[lo:lo + 200]))
        insp.update(after_states(c, [f for _, f, _ in chunk]))
        for _, folder, _ in chunk:
            shutil.rmtree(folder, ignore_errors=True)
        results += chunk
    for (k, n, cli), folder, r in results:
        inp = {"file": k, "prefix_length": n, "of": c.info[k]["len"], "pickle_raises": cls_of_prefix(k, n), "entry": "nxpimage --help" if cli else "query script"}
        sc.note(inp, cls=f"{k}:{cls_of_prefix(k, n)}:{'cli' if cli else 'py'}")
        exp = c.cli_expected if cli else c.expected
        sc.expect(r["rc"] == 0 and r["answers"] == exp["answers"], inp,
                  "a start on a cache file truncated by a crash is fatal or answers differently from a start with the cache disabled", r, {"rc": 0})
        st = insp.get(str(folder), {})
        if r["rc"] == 0 and not cli:
            sc.expect(all(state_ok(st.get(x, "?")) for x in ("q", "d")), inp, "after the start the damaged cache is neither replaced by a valid one nor absent", st)
        shutil.rmtree(folder, ignore_errors=True)

    mark("crash_starts")
    # ---------------------------------------------------------------- stale / wrong type / other garbage
    ss = ck.stream("stale_starts", "a REAL fresh interpreter on a valid pickle that must not be trusted: wrong fingerprint with poisoned content (quick and config cache), "
                   "a cached file that vanished, wrong type, other class, object without the expected attributes, text / zeros / header-only garbage; "
                   "must exit 0, answer as with the cache disabled, and leave each cache absent or valid; non-trivial = each (variant, entry point)")
    variants = sorted(p.name for p in (work / "variants").iterdir())

    def do_stale(v):
        name, cli = v
        folder = new_folder(c, "st")
        copy_cache(work / "variants" / name, folder)
        return v, folder, run_start(folder, ALL_QUERIES, cli=cli)

    vcases = [(v, False) for v in variants] + ([(v, True) for v in variants if v.startswith("q_")] if c.cli_ok else [])
    if only is not None:
        vcases = [(oin["variant"], oin.get("entry") != "query script")] if ostream == "stale_starts" else []
    with concurrent.futures.ThreadPoolExecutor(par) as ex:
        results = list(ex.map(do_stale, vcases))
    insp = after_states(c, [f for _, f, _ in results])
    for (name, cli), folder, r in results:
        inp = {"variant": name, "entry": "nxpimage --help" if cli else "query script"}
        ss.note(inp, cls=name)
        exp = c.cli_expected if cli else c.expected
        ss.expect(r["rc"] == 0 and r["answers"] == exp["answers"], inp,
                  "a start on a stale / wrong-type / garbage cache is fatal or answers differently from a start with the cache disabled (stale content trusted?)", r, {"rc": 0})
        st = insp.get(str(folder), {})
        if r["rc"] == 0 and not cli:
            ss.expect(all(state_ok(st.get(x, "?")) for x in ("q", "d")), inp, "after the start the unusable cache is neither replaced by a valid one nor absent", st)
        shutil.rmtree(folder, ignore_errors=True)

    mark("stale_starts")
    # ---------------------------------------------------------------- concurrent starts, free running behind a barrier
    sf = ck.stream("concurrent_starts", "N in {2,4,8(,16)} REAL processes released by a barrier on one cache folder (cold / both files empty / both cut mid-frame / "
                   "cut at a frame boundary / stale), free running; every process must exit 0 with the answers of the cache-disabled run; afterwards caches absent or valid; "
                   "non-trivial = each (scenario, N, repetition)")
    scen = [("cold", "missing", "missing"), ("empty", 0, 0), ("midframe", c.info["q"]["len"] // 2 + 3, c.info["d"]["len"] // 2 + 3),
            ("frame_boundary", c.info["q"]["frames"][-2] if len(c.info["q"]["frames"]) > 2 else 2, 2), ("stale", "q_stalefp", "d_stalefp"),
            ("vanished", "valid", "d_vanished"), ("wrongtype", "q_wrongtype", "d_wrongtype")]
    fcases = []
    for rep in range(ck.budget(1, 6)):
        for name, qs_, ds_ in (scen[:4] if ck.quick else scen):
            for n in ck.budget([2, 4, 8], [2, 4, 8, 16]):
                if ck.quick and name in ("midframe", "frame_boundary") and n != 4:
                    continue
                fcases.append((name, qs_, ds_, n, rep))
    if only is not None:
        fcases = [next(((nm, a, b, int(oin["N"]), int(oin["rep"])) for nm, a, b in scen if nm == oin["scenario"]))] if ostream == "concurrent_starts" else []

    def do_free(case):
        name, qs_, ds_, n, rep = case
        folder = new_folder(c, "cf")
        w = new_folder(c, "cfw")
        set_state(c, folder, "q", qs_)
        set_state(c, folder, "d", ds_)
        r = random.Random(f"{ck.seed}/{case}")
        queries = []
        for _ in range(n):
            q = ALL_QUERIES[:]
            r.shuffle(q)
            queries.append(q[: r.randrange(3, len(q) + 1)])
        s = Sched(w, folder, c.site, queries, None, free=True).run()
        return case, folder, w, queries, s

    # each free run uses N cores; run them one after another when N is large
    results = []
    with concurrent.futures.ThreadPoolExecutor(2) as ex:
        results = list(ex.map(do_free, fcases))
    insp = after_states(c, [f for _, f, _, _, _ in results])
    for (name, qs_, ds_, n, rep), folder, w, queries, s in results:
        inp = {"scenario": name, "N": n, "rep": rep, "queries": queries}
        sf.note(inp, cls=f"{name}/N={n}")
        bad = []
        for p in s.procs:
            want = [a for a in c.expected["answers"] if a[0] in queries[p.i]]
            got = parse_answers(p.out)
            if p.rc != 0 or got is None or sorted(got) != sorted(want):
                bad.append({"process": p.i, "rc": p.rc, "error": err_class(p.err) if p.rc else "", "answers_ok": got is not None and sorted(got) == sorted(want)})
        sf.expect(not bad and not s.problem, inp, "concurrent first use of the database on a cold/damaged cache: a process fails or answers differently from a start with the cache disabled",
                  {"bad": bad[:4], "problem": s.problem})
        st = insp.get(str(folder), {})
        sf.expect(all(state_ok(st.get(x, "?")) for x in ("q", "d")), inp, "after the concurrent starts a cache file is neither valid nor absent", st)
        shutil.rmtree(folder, ignore_errors=True)
        shutil.rmtree(w, ignore_errors=True)

    mark("concurrent")
    # ---------------------------------------------------------------- unusable cache folder (I/O errors of the store path, for real)
    su = ck.stream("unusable_folder", "a REAL fresh interpreter whose SPSDK_CACHE_FOLDER cannot be used: below /proc (nothing can be created: the store fails with an OSError), "
                   "below a regular file (ENOTDIR), a valid cache whose lock path is a directory (the lock cannot be taken: load and store fail); must exit 0 and answer as "
                   "with the cache disabled; non-trivial = each (scenario, entry point)")
    ucases = []
    if wanted("unusable_folder"):
        ucases = [(nm, cli) for nm in ("proc", "below_file", "lock_is_dir") for cli in ((False, True) if c.cli_ok else (False,))]
        if only is not None:
            ucases = [(oin["scenario"], oin.get("entry") != "query script")]

    def do_unusable(case):
        nm, cli = case
        base = new_folder(c, "uf")
        if nm == "proc":
            folder = Path(f"/proc/c18-{os.getpid()}-{base.name}/cache")
        elif nm == "below_file":
            (base / "afile").write_text("x")
            folder = base / "afile" / "cache"
        else:
            folder = base / "cache"
            copy_cache(c.golden, folder)
            for f in list(folder.glob("*.cache")):
                (folder / (f.name + ".lock")).mkdir()
        return case, base, run_start(folder, ALL_QUERIES, cli=cli)

    with concurrent.futures.ThreadPoolExecutor(par) as ex:
        results = list(ex.map(do_unusable, ucases))
    for (nm, cli), base, r in results:
        inp = {"scenario": nm, "entry": "nxpimage --help" if cli else "query script"}
        su.note(inp, cls=nm)
        exp = c.cli_expected if cli else c.expected
        su.expect(r["rc"] == 0 and r["answers"] == exp["answers"], inp,
                  "a start with an unusable cache folder (the cache cannot be stored / locked) is fatal or answers differently from a start with the cache disabled", r, {"rc": 0})
        shutil.rmtree(base, ignore_errors=True)

    # ---------------------------------------------------------------- cache-disabled processes among normal ones (free running)
    sd = ck.stream("disabled_concurrent", "N in {3,6(,12)} REAL processes behind a barrier on one cache folder, a third of them with SPSDK_CACHE_DISABLED=1 (each of those "
                   "rmtree's the cache folder — lock files included — under the others), on valid / cold / empty / stale caches, free running; every process must exit 0 "
                   "with the answers of the cache-disabled run; a fresh start afterwards must work; non-trivial = each (scenario, N, repetition)")
    dcases = []
    if wanted("disabled_concurrent"):
        for rep in range(ck.budget(1, 5)):
            for name, qs_, ds_ in (("valid", "valid", "valid"), ("cold", "missing", "missing"), ("empty", 0, 0), ("stale", "q_stalefp", "d_stalefp")):
                for n in ck.budget([3, 6], [3, 6, 12]):
                    if ck.quick and ((name in ("empty", "stale")) != (n == 3)):
                        continue
                    dcases.append((name, qs_, ds_, n, rep))
        if only is not None:
            dcases = [next((nm, a, b, int(oin["N"]), int(oin["rep"])) for nm, a, b in (("valid", "valid", "valid"), ("cold", "missing", "missing"), ("empty", 0, 0), ("stale", "q_stalefp", "d_stalefp")) if nm == oin["scenario"])]

    def do_disabled(case):
        name, qs_, ds_, n, rep = case
        folder = new_folder(c, "dc")
        w = new_folder(c, "dcw")
        set_state(c, folder, "q", qs_)
        set_state(c, folder, "d", ds_)
        r = random.Random(f"{ck.seed}/dis/{case}")
        queries = []
        for _ in range(n):
            q = ALL_QUERIES[:]
            r.shuffle(q)
            queries.append(q[: r.randrange(3, len(q) + 1)])
        dis = r.sample(range(n), max(1, n // 3))
        s = Sched(w, folder, c.site, queries, None, free=True, disabled=dis).run()
        after = run_start(folder, ALL_QUERIES)
        return case, folder, w, queries, dis, s, after

    with concurrent.futures.ThreadPoolExecutor(2) as ex:
        results = list(ex.map(do_disabled, dcases))
    for (name, qs_, ds_, n, rep), folder, w, queries, dis, s, after in results:
        inp = {"scenario": name, "N": n, "rep": rep, "queries": queries, "disabled": dis}
        sd.note(inp, cls=f"{name}/N={n}")
        bad = []
        for p in s.procs:
            wantq = [a for a in c.expected["answers"] if a[0] in queries[p.i]]
            got = parse_answers(p.out)
            if p.rc != 0 or got is None or sorted(got) != sorted(wantq):
                bad.append({"process": p.i, "disabled": p.i in dis, "rc": p.rc, "error": err_class(p.err) if p.rc else "", "answers_ok": got is not None and sorted(got) == sorted(wantq)})
        sd.expect(not bad and not s.problem, inp, "with cache-disabled processes removing the cache folder under them, a process fails or answers differently from a start with the cache disabled",
                  {"bad": bad[:4], "problem": s.problem})
        sd.expect(after["rc"] == 0 and after["answers"] == c.expected["answers"], inp, "a fresh start after the mixed run is fatal or answers wrongly", after)
        shutil.rmtree(folder, ignore_errors=True)
        shutil.rmtree(w, ignore_errors=True)

    mark("unusable+disabled")
    # ---------------------------------------------------------------- environment histories (the fingerprint must see every configured folder)
    sv = ck.stream("environment_histories", "multi-start histories of REAL fresh interpreters sharing ONE cache folder while the configured data folders change between "
                   "starts: SPSDK_ADDONS_DATA_FOLDER unset / installed (overrides a device) / content updated / unset again, SPSDK_RESTRICTED_DATA_FOLDER unset / set / unset, "
                   "a device file of SPSDK_DATA_FOLDER edited / reverted; after every start the answers (get_families, quick-info feature lists, get_device / get_db of the "
                   "overridden devices) must equal those of a SPSDK_CACHE_DISABLED=1 start in the same environment; non-trivial = each (history, step)")
    if wanted("environment_histories"):
        run_env_histories(ck, c, sv, only, oin, par)
    mark("env_histories")
    sr = ck.stream("rewritten_cfg_files", "a configuration file that went through load_db_cfg_file (so it is in the per-data-folder config cache) is REWRITTEN between two REAL "
                   "fresh starts sharing one cache folder: same byte size / other size, modification time moved by a sub-second amount inside the same second / by whole "
                   "seconds / backwards; the second start must answer load_db_cfg_file like a SPSDK_CACHE_DISABLED=1 start (the stamp mtime_ns + size of the fingerprint "
                   "must see every such change); a rewrite that keeps size AND the exact mtime is outside what a stat-based stamp can see and is not generated; "
                   "non-trivial = each (variant, value pair)")
    if wanted("rewritten_cfg_files"):
        run_rewritten_cfg(ck, c, sr, only, oin, par)
    mark("rewritten_cfg")
    # ---------------------------------------------------------------- controlled schedules: real trace vs model, crashes injected
    sm = ck.stream("schedules", "2-4 REAL processes under the controlled scheduler (every cache action gated; random interleaving; in half of the runs one or two "
                   "processes are SIGKILLed at a random action, inside pickle.dump after 0 / half / all bytes) on every class of initial state; the observed schedule is "
                   "replayed in the Lean model (action, result, written key set, exit) for both cache files; survivors must exit 0 with the right answers; afterwards a fresh "
                   "start must work; non-trivial = each schedule")
    states_q = ["missing", 0, "mid", "boundary", "valid", "q_stalefp", "q_wrongtype"]
    states_d = ["missing", 0, "mid", "partial", "d_stalefp", "d_wrongtype", "d_vanished", "valid"]

    def concrete(k, st):
        if st == "mid":
            return c.info[k]["len"] // 2 + 3
        if st == "boundary":
            fr = c.info[k]["frames"]
            return fr[-2] if len(fr) > 2 else 2
        return st

    mcases = []
    nsch = ck.budget(18, 200)
    for i in range(nsch):
        r = random.Random(f"{ck.seed}/sched/{i}")
        n = r.choice([2, 2, 3, 3, 4])
        qs_ = concrete("q", states_q[i % len(states_q)] if i < 2 * len(states_q) else r.choice(states_q))
        ds_ = concrete("d", states_d[(i // 2) % len(states_d)] if i < 2 * len(states_d) else r.choice(states_d))
        queries = []
        for _ in range(n):
            q = [f"schema:{x}" for x in r.sample(SCHEMAS, r.randrange(1, 4))]
            if r.random() < 0.7:
                q.insert(r.randrange(len(q) + 1), "families:mbi")
            queries.append(q)
        plan = {}
        if r.random() < 0.5:
            for pid in r.sample(range(n), r.choice([1, 1, 2]) if n > 2 else 1):
                f = r.choice(["q", "d", "d"])
                act = r.choice(["dump", "dump", "dump", "open_w", "acquire", "load", "release", "exists", "remove", "open_r"])
                plan[pid] = ((f, act, r.choice([0, 0, 1])), r.choice(["partial 0", "partial -2", "partial -1", "kill"]))
        elif r.random() < 0.5:
            # I/O errors: the lock cannot be taken (time-out / folder gone), open fails (EACCES), the disk is full (ENOSPC)
            for pid in r.sample(range(n), r.choice([1, 2]) if n > 2 else 1):
                f = r.choice(["q", "d", "d"])
                act = r.choice(["acquire", "acquire", "open_w", "open_w", "dump", "open_r"])
                plan[pid] = ((f, act, r.choice([0, 0, 1])), "raise " + r.choice(["PermissionError", "OSError", "Timeout"] if act == "acquire" else ["PermissionError", "OSError"]))
        dis = []
        if i % 4 == 3:
            # one process runs with SPSDK_CACHE_DISABLED=1: it rmtree's the cache folder under the others
            dis = [r.randrange(n)]
            plan.pop(dis[0], None)
        mcases.append((i, n, qs_, ds_, queries, plan, dis))
    replay_choose = None
    if only is not None:
        mcases = []
        if ostream in ("schedules", "model_exploration") and "observed_schedule" in oin:
            mcases = [(int(oin["schedule_no"]), int(oin["N"]), oin["quick_cache"], oin["config_cache"], oin["queries"], {}, list(oin.get("disabled", [])))]
            replay_choose = observed_choose(oin["observed_schedule"])

    def do_sched(case, choose=None, tag="sc"):
        i, n, qs_, ds_, queries, plan = case[:6]
        dis = case[6] if len(case) > 6 else []
        folder = new_folder(c, tag)
        w = new_folder(c, tag + "w")
        set_state(c, folder, "q", qs_)
        set_state(c, folder, "d", ds_)
        r = random.Random(f"{ck.seed}/choose/{i}")
        s = Sched(w, folder, c.site, queries, choose or rng_choose(r), crash_plan=plan, disabled=dis).run()
        after = run_start(folder, ALL_QUERIES)
        return case, folder, w, s, after

    def judge(stream, case, folder, w, s, after, st, extra=None):
        i, n, qs_, ds_, queries, plan = case[:6]
        dis = case[6] if len(case) > 6 else []
        inp = {"schedule_no": i, "N": n, "quick_cache": qs_, "config_cache": ds_, "queries": queries, "crash_plan": {str(k): v for k, v in plan.items()},
               "disabled": dis, "observed_schedule": [t[:4] for t in s.trace][:400]}
        if extra:
            inp.update(extra)
        stream.note((i, n, qs_, ds_, queries, sorted(plan.items())), cls=f"q={qs_ if isinstance(qs_, str) else 'prefix'}/d={ds_ if isinstance(ds_, str) else 'prefix'}/N={n}/{'kill' if any(p.killed for p in s.procs) else 'ioerr' if any(str(v[1]).startswith('raise') for v in plan.values()) else 'nokill'}{'/disabled' if dis else ''}")
        bad = []
        for p in s.procs:
            if p.killed:
                continue
            want = [a for a in c.expected["answers"] if a[0] in queries[p.i]]
            got = parse_answers(p.out)
            if p.rc != 0 or got is None or sorted(got) != sorted(want):
                bad.append({"process": p.i, "rc": p.rc, "error": err_class(p.err) if p.rc else "", "answers_ok": got is not None and sorted(got) == sorted(want)})
        ok = stream.expect(not bad and not s.problem, inp, "under this interleaving / kill points a surviving process fails or answers differently from a start with the cache disabled",
                           {"bad": bad[:4], "problem": s.problem})
        stream.expect(after["rc"] == 0 and after["answers"] == c.expected["answers"], inp, "a fresh start after this schedule is fatal or answers wrongly (the cache was left in a harmful state)", after)
        stream.expect(all(state_ok(st.get(x, "?")) for x in ("q", "d")), inp, "after the schedule and one more start a cache file is neither valid nor absent", st)
        if drv is not None and not s.problem:
            mq, eq = replay_in_model(drv, "quick", model_state(c, "q", qs_, cls_of_prefix), [[0] for _ in queries], s.trace, s.procs, "q", dis)
            stream.compare({**inp, "cache": "quick"}, "ok", mq, "observed schedule of the real processes is not a run of the model (quick-info cache)")
            if ds_ == "d_vanished":
                # hash_db_data raising FileNotFoundError (a cached file vanished) is outside the model (it has a total fingerprint
                # function and would take the stale branch: one more `remove`); this state is judged by the oracle parts only
                return ok
            md, ed = replay_in_model(drv, "config", model_state(c, "d", ds_, cls_of_prefix), [queries_to_keys(q) for q in queries], s.trace, s.procs, "d", dis)
            stream.compare({**inp, "cache": "config"}, "ok", md, "observed schedule of the real processes is not a run of the model (config cache)")
            if mq == "ok" and md == "ok":
                touch = {(t[0], t[1]) for t in s.trace if t[2] != "wipe"}
                stream.compare({**inp, "cache": "exit"}, "ok", judge_exits(s.procs, touch, eq, ed), "exit status of a real process differs from the model's")
        return ok

    with concurrent.futures.ThreadPoolExecutor(ck.budget(6, 6)) as ex:
        results = list(ex.map((lambda cs: do_sched(cs, choose=replay_choose)) if replay_choose else do_sched, mcases))
    insp = after_states(c, [f for _, f, _, _, _ in results])
    for case, folder, w, s, after in results:
        judge(sm, case, folder, w, s, after, insp.get(str(folder), {}))
        shutil.rmtree(folder, ignore_errors=True)
        shutil.rmtree(w, ignore_errors=True)

    mark("schedules")
    # ---------------------------------------------------------------- guided replay of unsafe model schedules on the real code
    for kind, f0, qs, a in unsafe[: ck.budget(4, 12)]:
        m = re.match(r"unsafe (.*?) after (.*)$", a)
        script = []
        for tok in (m.group(2).split() if m else []):
            if tok.startswith("r"):
                script.append((int(tok[1:]), "r", 0))
            elif tok.startswith("f") or tok == "w":
                continue    # injected I/O errors / wipes of a model counter-example are not scripted on the real processes
            else:
                pid, n = tok[1:].split("/")
                script.append((int(pid), "k", 0 if n == "0" else -2))
        target = "q" if kind == "quick" else "d"
        # real initial state matching the model's file0
        real0 = {"missing": "missing", "raises:EOFError": 0, "raises:UnpicklingError": "mid", "wrongtype": f"{target}_wrongtype"}.get(f0)
        if real0 is None:
            real0 = f"{target}_stalefp" if f0.startswith("stale") else "valid"
        procs_q = [[int(x) for x in p.split(",")] if p != "-" else [] for p in qs.split(";")]
        if kind == "quick":
            queries = [["families:mbi"] for _ in procs_q]
        else:
            queries = [[f"schema:{SCHEMAS[k - 1]}" for k in p] for p in procs_q]
        # a "valid:<keys>" config state other than the golden key set cannot be prepared exactly: use the golden one
        case = (10000 + len(se.samples), len(queries), concrete("q", real0) if target == "q" else "valid", concrete("d", real0) if target == "d" else "missing", queries, {})
        case, folder, w, s, after = do_sched(case, choose=scripted_choose(script, target), tag="gr")
        st = after_states(c, [folder]).get(str(folder), {})
        failed = not judge(se, case, folder, w, s, after, st, extra={"model_counterexample": a, "model_scenario": [kind, f0, qs]})
        if not failed:
            se.compare((kind, f0, qs), "safe", a, "the model instantiated with the generated guards has an unsafe schedule (not reproduced on the real processes)")
        shutil.rmtree(folder, ignore_errors=True)
        shutil.rmtree(w, ignore_errors=True)
    if ck.failures or ck.disagreements:
        check_environment_stable(c)


def run_env_child(folder, args, extra):
    p = subprocess.run([PY, "-c", CHILD_ENV, *args], env=child_env(folder, extra=extra), capture_output=True, text=True, timeout=300)
    for line in p.stdout.splitlines():
        if line.startswith("ENVANS ") or line.startswith("ENVINFO "):
            return {"rc": p.returncode, "answers": json.loads(line.split(" ", 1)[1]), "err": ""}
    return {"rc": p.returncode, "answers": None, "err": err_class(p.stderr)}


def run_env_histories(ck, c, sv, only, oin, par):
    dev = "lpc55s69"
    info = run_env_child(c.work / "hc", ["info", dev], None)["answers"] or {}
    devices = info.get("devices", [])
    dev2 = next((d for d in ("lpc55s36", "mimxrt1189", "k32w148") if d in devices and d != dev), None)
    if not info.get(dev) or dev2 is None:
        sv.expect(False, "setup", "cannot read the reference device files", info.get("devices", [])[:5])
        return
    info2 = run_env_child(c.work / "hc", ["info", dev2], None)["answers"] or {}
    feats = [f for f in ("tz", "dat", "mbi", "pfr", "sb31", "cert_block") if f in info[dev].get("features", {})][:3]
    feats2 = [f for f in ("mbi", "dat", "sb31", "tz", "pfr") if f in (info2.get(dev2) or {}).get("features", {})][:2]
    if len(feats) < 2 or not feats2:
        sv.expect(False, "setup", "reference devices lack the features used for the overrides", [feats, feats2])
        return
    f1, f2 = feats[0], feats[1]
    g1 = feats2[0]
    fixed = [
        [{}, {"addons": [f1]}, {"addons": [f1, f2]}, {}],
        [{"addons": [f1]}, {"addons": [f1, f2]}, {"addons": [f2]}],
        [{}, {"restricted": [f1]}, {"restricted": [f1], "addons": [f2]}, {"addons": [f2]}, {"addons": [f1, f2]}],
        [{}, {"data": [g1]}, {"data": [g1], "addons": [f1]}, {"addons": [f1]}],
    ]
    hists = list(fixed)
    for k in range(ck.budget(1, 20)):
        r = random.Random(f"{ck.seed}/envhist/{k}")
        st, h = {}, []
        for _ in range(r.randrange(3, 6)):
            st = dict(st)
            which = r.choice(["addons", "addons", "addons", "restricted", "data"])
            pool = [g1] if which == "data" else feats
            cur = st.get(which)
            if cur is not None and r.random() < 0.3:
                st.pop(which)
            else:
                st[which] = sorted(r.sample(pool, r.randrange(1, len(pool) + 1)))
            h.append({k2: v for k2, v in st.items()})
        hists.append(h)
    if only is not None:
        hists = [oin["history"]] if "history" in oin else []
    want_feats = sorted(set(feats + feats2))

    def do_hist(arg):
        hi, hist = arg
        root = new_folder(c, "eh")
        cache = root / "cache"
        cache.mkdir()
        addons, restr = root / "addons", root / "restricted"
        data = None
        out = []
        for si, st in enumerate(hist):
            extra = {}
            if "data" in st or data is not None:
                if data is None:
                    data = root / "data"
                    shutil.copytree(DATA_FOLDER, data)
                cfg = json.loads(json.dumps(info2[dev2]))
                cfg["features"] = {k: v for k, v in cfg["features"].items() if k not in st.get("data", [])}
                tgt = data / "devices" / dev2 / "database.yaml"
                if "data" in st:
                    tgt.write_text(json.dumps(cfg, indent=1))
                else:
                    shutil.copyfile(Path(DATA_FOLDER) / "devices" / dev2 / "database.yaml", tgt)
                    os.utime(tgt)      # a restored file is a changed file as well
                extra["SPSDK_DATA_FOLDER"] = str(data)
            if "addons" in st:
                d = addons / "devices" / dev
                d.mkdir(parents=True, exist_ok=True)
                (d / "database.yaml").write_text(json.dumps({"features": {k: v for k, v in info[dev]["features"].items() if k not in st["addons"]}}, indent=1))
                extra["SPSDK_ADDONS_DATA_FOLDER"] = str(addons)
            if "restricted" in st:
                d = restr / "data" / "devices" / dev
                d.mkdir(parents=True, exist_ok=True)
                (restr / "metadata.yaml").write_text(json.dumps({"version": f"{info['major']}.{info['minor']}"}))
                cfg = json.loads(json.dumps(info[dev]))
                cfg["features"] = {k: v for k, v in cfg["features"].items() if k not in st["restricted"]}
                (d / "database.yaml").write_text(json.dumps(cfg, indent=1))
                extra["SPSDK_RESTRICTED_DATA_FOLDER"] = str(restr)
            time.sleep(0.02)
            args = ["query", f"{dev},{dev2}", ",".join(want_feats)]
            cached = run_env_child(cache, args, extra)
            ref = run_env_child(root / f"ref{si}", args, {**extra, "SPSDK_CACHE_DISABLED": "1"})
            out.append((si, st, cached, ref))
        shutil.rmtree(root, ignore_errors=True)
        return hi, hist, out

    with concurrent.futures.ThreadPoolExecutor(min(par, 6)) as ex:
        results = list(ex.map(do_hist, list(enumerate(hists))))
    base_ref = None
    for hi, hist, out in results:
        for si, st, cached, ref in out:
            inp = {"history": hist, "step": si, "environment": st}
            effect = "base" if not st else "+".join(sorted(st))
            sv.note((hi, si, json.dumps(hist, sort_keys=True)), cls=effect)
            if not st and ref["answers"] is not None:
                base_ref = ref["answers"]
            sv.expect(ref["rc"] == 0 and ref["answers"] is not None, inp, "the cache-disabled reference start fails in this environment", ref)
            bad = {}
            if cached["answers"] is not None and ref["answers"] is not None and cached["answers"] != ref["answers"]:
                for k, v in ref["answers"].items():
                    if cached["answers"].get(k) != v:
                        bad[k] = {"with_cache": cached["answers"].get(k), "cache_disabled": v} if not isinstance(v, dict) else \
                            {f: {"with_cache": cached["answers"][k].get(f), "cache_disabled": v[f]} for f in v if cached["answers"][k].get(f) != v[f]}
            sv.expect(cached["rc"] == 0 and cached["answers"] == ref["answers"], inp,
                      "after the configured data folders changed, a start with the (now stale) cache answers differently from a start with the cache disabled in the same "
                      "environment: the stale cache passed the fingerprint check", {"rc": cached["rc"], "err": cached["err"], "differences": json.dumps(bad)[:1500]}, "equal answers")
    # non-vacuity: the overrides really change the answers
    if only is None and base_ref is not None:
        changed = sum(1 for _, _, out in results for _, st, _, ref in out if st and ref["answers"] is not None and ref["answers"] != base_ref)
        sv.expect(changed > 0, "non-vacuity", "no override of the histories changed any answer: the histories test nothing", changed)


def run_rewritten_cfg(ck, c, sr, only, oin, par):
    """C18f (wave 6): the config-cache fingerprint stamped int(st_mtime) - a same-size rewrite inside the same second was trusted."""
    variants = [  # (name, same size?, delta of the modification time in ns)
        ("same_size_same_second_plus_0.5s", True, 500_000_000), ("same_size_same_second_plus_1us", True, 1_000),
        ("same_size_same_second_plus_1ns_x1000", True, 1_000_000), ("same_size_next_second", True, 1_400_000_000),
        ("same_size_earlier_in_same_second", True, -50_000_000), ("other_size_same_mtime", False, 0), ("other_size_same_second", False, 300_000_000),
        ("same_size_two_seconds_back", True, -2_000_000_000),
    ]
    r = random.Random(f"{ck.seed}/rewritten")
    cases = []
    for name, same, delta in variants:
        for _ in range(ck.budget(1, 4)):
            a = r.randrange(1000, 9999)
            b = a
            while b == a:
                b = r.randrange(1000, 9999)
            cases.append({"variant": name, "same_size": same, "delta_ns": delta, "first": a, "second": b if same else b * 100 + 7})
    if only is not None:
        cases = [oin] if "variant" in oin else []

    def do_case(cs):
        root = new_folder(c, "rw")
        cache = root / "cache"
        cache.mkdir()
        f = root / "user_cfg.yaml"
        base_ns = (int(time.time()) - 10) * 1_000_000_000 + 100_000_000      # .1 s into a second safely in the past
        f.write_text(f"value: {cs['first']}\nname: reference\n")
        os.utime(f, ns=(base_ns, base_ns))
        first = run_env_child(cache, ["cfgfile", str(f)], None)
        f.write_text(f"value: {cs['second']}\nname: reference\n")
        os.utime(f, ns=(base_ns + cs["delta_ns"], base_ns + cs["delta_ns"]))
        cached = run_env_child(cache, ["cfgfile", str(f)], None)
        ref = run_env_child(root / "ref", ["cfgfile", str(f)], {"SPSDK_CACHE_DISABLED": "1"})
        st = os.stat(f)
        shutil.rmtree(root, ignore_errors=True)
        return cs, first, cached, ref, st.st_mtime_ns - base_ns

    with concurrent.futures.ThreadPoolExecutor(min(par, 6)) as ex:
        results = list(ex.map(do_case, cases))
    for cs, first, cached, ref, seen_delta in results:
        sr.note((cs["variant"], cs["first"], cs["second"]), cls=cs["variant"])
        if seen_delta != cs["delta_ns"]:
            continue        # the scratch file system does not keep nanosecond time stamps: the case says nothing
        sr.expect(first["rc"] == 0 and first["answers"] == {"content": {"value": cs["first"], "name": "reference"}}, cs,
                  "the first start (cold cache) does not return the content of the configuration file", first)
        sr.expect(ref["rc"] == 0 and ref["answers"] == {"content": {"value": cs["second"], "name": "reference"}}, cs,
                  "the cache-disabled reference start does not return the rewritten content", ref)
        sr.expect(cached["rc"] == 0 and cached["answers"] == ref["answers"], cs,
                  "a configuration file was rewritten between two starts; the start with the (now stale) config cache answers load_db_cfg_file differently from a start "
                  "with the cache disabled: the stale cache passed the fingerprint check", {"with_cache": cached, "cache_disabled": ref["answers"]}, "equal answers")


def check_environment_stable(c):
    """the quick-info fingerprint must still be the one of the reference cache; otherwise the data files changed under us"""
    from vcore import Infra
    probe = new_folder(c, "probe")
    r = run_start(probe, ["families:mbi"])
    st = after_states(c, [probe]).get(str(probe), {}).get("q")
    shutil.rmtree(probe, ignore_errors=True)
    if r["rc"] == 0 and st != "valid":
        raise Infra("the database fingerprint changed while the check was running (data files were modified concurrently); results are not meaningful - re-run")


def replay(ck, data):
    """re-run exactly the recorded case (crash state / variant / scenario / observed schedule incl. kill points)."""
    case = (data.get("cases") or [{}])[0]
    only = {"stream": data.get("stream"), "input": case.get("input")}
    if data.get("stream") not in ("crash_starts", "stale_starts", "concurrent_starts", "schedules", "model_exploration", "unusable_folder", "disabled_concurrent", "environment_histories", "rewritten_cfg_files") or not isinstance(only["input"], dict):
        return run(ck)
    ROOT.mkdir(exist_ok=True)
    work = ROOT / f"replay-{os.getpid()}-{ck.seed}"
    shutil.rmtree(work, ignore_errors=True)
    work.mkdir(parents=True)
    try:
        _run(ck, work, only=only)
    finally:
        shutil.rmtree(work, ignore_errors=True)
