"""C06 - AHAB image: containers verify, images hash and decrypt, offsets never collide (spsdk/image/ahab/*, utils/verifier.py).

Obligations   : Properties/C06.lean over Generated/AhabConsts.lean (struct formats, tags, bit positions, verifier range
                records, create_flags/create_meta/get_container_offset translated from the source, per-chip database rows),
                Generated/PyFuns.lean (align, check_range), the hand models Model/Ahab.lean, Model/AhabVerify.lean and the
                independent checker Spec/AhabRom.lean.
Correspondence: AHABImage.load_from_config -> update_fields -> export of the real code vs the Lean model's export (whole file,
                the real signature bytes are an input of the model), layout numbers, signed data, SRK table hash;
                verify().has_errors of perturbed objects vs the model's range/consistency verifier.
Oracle        : on the REAL export: parse equality, clean verify() before and after parsing, re-export identity, acceptance
                by the compiled independent checker `ahabCheck`, signature verification with `cryptography` (not through
                spsdk.crypto) over exactly container[: sigblock offset + signature offset], SRK table hash; then single-bit
                flips over authenticated bytes must be reported by verify() AND refused by the independent check.
                Certificates (chain SRK -> certificate -> container, broken links refused, independent certificate check),
                template entries (configuration value incl. 0/False else database default), create_config and CLI round trips.
Independence  : expectations / finding predicates use the input, the real code, `cryptography` and the Spec-only driver op
                `check` (ck.spec_ops); everything that depends on Model/ or Generated/ only feeds s.compare.
"""
from __future__ import annotations

import copy
import hashlib
import json
import logging
import os
import random
import struct

from vcore import Infra, canon, hexs, pyres

KEYTYPES = ["ecc256", "ecc384", "ecc521", "rsa2048"]
_QUICK = [False]          # set by run(): the quick tier skips the one perturbation that costs ~40 s
TARGET_MEMS = ["standard", "nand_2k", "nand_4k", "serial_downloader", "nor"]
HASHES = ["sha256", "sha384", "sha512"]


# ------------------------------------------------------------------------------------------------ helpers
def _norm_fmt(fmt):
    """byte order + one (code, count) per field with L/l written I/i (same size and signedness in standard-size modes)"""
    import re
    fmt = "".join(fmt.split())
    order, body = (fmt[0], fmt[1:]) if fmt[:1] in "@=<>!" else ("@", fmt)
    out = []
    for cnt, code in re.findall(r"(\d*)([xcbB?hHiIlLqQnNefdspP])", body):
        n = int(cnt) if cnt else 1
        code = {"L": "I", "l": "i"}.get(code, code) if order in "<>=!" else code
        out.extend([(code, n)] if code in "sp" else [(code, 1)] * n)
    return order, out


def keydir():
    from vcore import REPO
    return str(REPO / "tests" / "_data" / "keys")


def img_bytes(seed, size):
    return random.Random(f"img/{seed}").randbytes(size)


def verifier_errors(v, path=(), kinds=None):
    from spsdk.utils.verifier import VerifierRecord, VerifierResult
    kinds = kinds or (VerifierResult.ERROR,)
    out = []
    for r in v.records:
        if isinstance(r, VerifierRecord):
            if r.result in kinds:
                out.append("/".join(path + (r.name,)))
        else:
            out += verifier_errors(r, path + (r.name,), kinds)
    return out


def live_chip_rows():
    from spsdk.image.ahab.ahab_image import AHABImage
    from spsdk.utils.database import DatabaseManager, get_db
    rows = []
    for fam in AHABImage.get_supported_families():
        dev = DatabaseManager().db.devices.get(fam)
        for rev in [r.name for r in dev.revisions] + ["latest"]:
            db = get_db(fam, rev)
            rows.append({
                "family": fam, "revision": rev, "resolved": db.name,
                "containers_max_cnt": db.get_int("ahab", "containers_max_cnt"),
                "oem_images_max_cnt": db.get_int("ahab", "oem_images_max_cnt"),
                "valid_offset_minimal_alignment": db.get_int("ahab", "valid_offset_minimal_alignment", 4),
                "container_image_size_alignment": db.get_int("ahab", "container_image_size_alignment", 1),
                "container_types": list(db.get_list("ahab", "container_types")),
                "allow_empty_hash": db.get_bool("ahab", "allow_empty_hash"),
                "core_ids": sorted([int(v[0]), str(v[1])] for v in db.get_dict("ahab", "core_ids").values()),
                "image_types": sorted([str(g), sorted([int(v[0]), str(v[1])] for v in grp.values())]
                                      for g, grp in db.get_dict("ahab", "image_types").items()),
                "image_types_mapping": sorted([str(g), [int(x) for x in v]] for g, v in db.get_dict("ahab", "image_types_mapping").items()),
            })
    return rows


def crosscheck_generated(ck):
    """Generated tables vs the live objects: a disagreement is an extractor problem (exit 2), never a verdict."""
    meta = ck.generated_meta.get("AhabConsts")
    if not meta:
        raise Infra("no meta for Generated/AhabConsts")
    if meta.get("problems"):
        raise Infra("extractor could not resolve: " + "; ".join(meta["problems"][:5]))
    import importlib
    mods = {}
    for m in ("ahab_abstract_interfaces", "ahab_container", "ahab_iae", "ahab_sign_block", "ahab_srk", "ahab_signature", "ahab_blob",
              "ahab_certificate", "ahab_data"):
        mods[m] = importlib.import_module("spsdk.image.ahab." + m)
    classes = {}
    for m in mods.values():
        for k, v in vars(m).items():
            if isinstance(v, type):
                classes.setdefault(k, v)
    for cname, lay in meta["layouts"].items():
        cls = classes.get(cname)
        if cls is None:
            raise Infra(f"class {cname} not importable")
        # compared by VALUE (field codes and sizes), not by spelling: '<4I' == '<IIII' == '<LLLL'
        if _norm_fmt(cls.format()) != _norm_fmt(lay["fmt"]) or struct.calcsize(cls.format()) != lay["size"]:
            raise Infra(f"generated format of {cname} {lay['fmt']!r} != live {cls.format()!r}")
    c = meta["consts"]
    A, A2, I, I2 = classes["AHABContainer"], classes["AHABContainerV2"], classes["ImageArrayEntry"], classes["ImageArrayEntryV2"]
    live = {
        "containerAlignment": mods["ahab_data"].CONTAINER_ALIGNMENT, "containerSizeV1": A.CONTAINER_SIZE, "containerSizeV2": A2.CONTAINER_SIZE,
        "containerTag": A.TAG, "containerVersionV1": A.VERSION, "containerVersionV2": A2.VERSION,
        "startImageAddrV1": A.START_IMAGE_ADDRESS, "startImageAddrNandV1": A.START_IMAGE_ADDRESS_NAND,
        "startImageAddrV2": A2.START_IMAGE_ADDRESS, "startImageAddrNandV2": A2.START_IMAGE_ADDRESS_NAND,
        "sigBlockTag": classes["SignatureBlock"].TAG, "sigBlockVersionV1": classes["SignatureBlock"].VERSION,
        "sigBlockVersionV2": classes["SignatureBlockV2"].VERSION, "srkTableTag": classes["SRKTable"].TAG,
        "srkTableVersion": classes["SRKTable"].VERSION, "srkRecordsCnt": classes["SRKTable"].SRK_RECORDS_CNT,
        "srkRecordTag": classes["SRKRecord"].TAG, "signatureTag": classes["ContainerSignature"].TAG,
        "signatureVersion": classes["ContainerSignature"].VERSION, "blobTag": classes["AhabBlob"].TAG, "blobVersion": classes["AhabBlob"].VERSION,
        "iaeHashLen": I.HASH_LEN, "iaeIvLen": I.IV_LEN, "cFlagsUsedSrkIdOffset": A.FLAGS_USED_SRK_ID_OFFSET,
        "cFlagsSrkRevokeMaskOffset": A.FLAGS_SRK_REVOKE_MASK_OFFSET, "cFlagsGdetEnableOffset": A.FLAGS_GDET_ENABLE_OFFSET,
        "iFlagsHashSizeV1": I.FLAGS_HASH_SIZE, "iFlagsHashSizeV2": I2.FLAGS_HASH_SIZE,
        "iFlagsIsEncryptedOffsetV1": I.FLAGS_IS_ENCRYPTED_OFFSET, "iFlagsIsEncryptedOffsetV2": I2.FLAGS_IS_ENCRYPTED_OFFSET,
        "iFlagsCoreIdOffsetV1": I.FLAGS_CORE_ID_OFFSET, "iFlagsBootFlagsOffsetV1": I.FLAGS_BOOT_FLAGS_OFFSET,
    }
    for k, v in live.items():
        if c.get(k) != v:
            raise Infra(f"generated constant {k}={c.get(k)} != live {v}")
    if [list(x) for x in c["KEY_SIZES"]] != sorted([k, v[0], v[1]] for k, v in classes["SRKRecord"].KEY_SIZES.items()):
        raise Infra("generated SRK KEY_SIZES differ from live")
    if [list(x) for x in c["BINARY_IMAGE_ALIGNMENTS"]] != [[k.label, v] for k, v in mods["ahab_data"].BINARY_IMAGE_ALIGNMENTS.items()]:
        raise Infra("generated BINARY_IMAGE_ALIGNMENTS differ from live")
    gen_rows = json.loads(json.dumps(meta["chips"]))
    lv = live_chip_rows()
    if gen_rows != json.loads(json.dumps(lv)):
        diff = [(g.get("family"), g.get("revision")) for g, l in zip(gen_rows, lv) if g != l][:3]
        raise Infra(f"generated chip rows differ from live get_db (first differences {diff}; {len(gen_rows)} vs {len(lv)} rows)")
    return lv


# ------------------------------------------------------------------------------------------------ case generation
def valid_image_types(row, core_tag):
    group = "application"
    for g, v in row["image_types_mapping"]:
        if core_tag in v:
            group = g
    for g, types in row["image_types"]:
        if g == group:
            return types
    return []


KEY_PARAM_LEN = {"ecc256": (64, 64), "ecc384": (96, 96), "ecc521": (132, 132), "rsa2048": (260, 256)}


def est_container_len(nimg, srk, blob):
    """length of a version-1 container (header + image array + signature block) - only used to generate fitting cases"""
    def al8(x):
        return (x + 7) // 8 * 8
    n = 16 + 128 * nimg + 16
    if srk:
        p, sg = KEY_PARAM_LEN[srk]
        n = al8(n) + 4 + 4 * (12 + p)
        n = al8(n) + 8 + sg
    if blob:
        n = al8(n) + 56 + blob["size"] // 8
    return n


def gen_case(rng, row, tm, quick, force=None):
    """One mostly-valid AHAB configuration (JSON-able, replayable)."""
    force = force or {}
    types = row["container_types"]
    ver = force.get("ver") or (types[0] if len(types) == 1 or rng.random() < 0.5 else rng.choice(types))
    maxc = min(row["containers_max_cnt"], 3)
    maxi = min(row["oem_images_max_cnt"], 4 if quick else 8)
    ncont = force.get("ncont") or rng.choice([1, 1, 2, maxc, rng.randint(1, maxc)])
    big = rng.random() < (0.25 if quick else 0.4)
    align = row["container_image_size_alignment"]
    use_explicit = tm != "serial_downloader" and not big and rng.random() < 0.4
    start = (0x1C00 if tm.startswith("nand") else 0x2000) if ver == 1 else (0xBC00 if tm.startswith("nand") else 0xC000)
    conts, gidx = [], 0
    for ci in range(ncont):
        last = ci == ncont - 1
        nimg = force.get("nimg") or rng.choice([1, 1, 2, maxi, rng.randint(1, maxi)])
        kts = KEYTYPES if (last or ver == 2) else KEYTYPES[:3]       # an RSA table does not fit a 0x400 slot
        srk = force.get("srk", rng.choice([None, None] + kts))
        used = rng.randrange(4)
        revoke = rng.choice([0, 0, rng.randrange(16)]) & ~(1 << used)
        blob = None
        if rng.random() < 0.3:
            blob = {"size": rng.choice([128, 192, 256]), "kid": rng.choice([0, 1, 2 ** 32 - 1, rng.getrandbits(32)]),
                    "dek": rng.randbytes(32).hex()}
        overfull = False
        if ver == 1 and not last:
            if rng.random() < 0.04:
                overfull = est_container_len(nimg, srk, blob) > 0x400       # deliberately kept: must be refused
            else:
                while est_container_len(nimg, srk, blob) > 0x400:
                    if nimg > 1:
                        nimg -= 1
                    elif blob:
                        blob = None
                    else:
                        srk = None
        images = []
        for _ in range(nimg):
            core = rng.choice(row["core_ids"])
            tys = valid_image_types(row, core[0]) or [[3, "executable"]]
            ty = rng.choice(tys)
            if big:
                size = rng.choice([1, align - 1, align, align + 1, rng.randint(1, 32 * 1024), rng.randint(1, 4096)])
            else:
                size = rng.choice([1, align - 1, align, align + 1, rng.randint(1, 2048), 16, 17])
            off = 0
            if use_explicit and rng.random() < 0.5:
                off = start + gidx * 0x2000 + rng.choice([0, 0, 0x400, 0x1000, 4, 8, 0x204])
            images.append({
                "seed": rng.getrandbits(32), "size": size, "offset": off,
                "load": rng.choice([0, 0x1000, 0x1FFE0000, 2 ** 64 - 1, rng.getrandbits(64)]),
                "entry": rng.choice([0, 0x1000, 2 ** 64 - 1, rng.getrandbits(64)]),
                "type": ty[1], "core": core[1], "hash": rng.choice(HASHES),
                "enc": bool(blob) and rng.random() < 0.7,
                "boot": rng.choice([0, 0, 1, 0x7FFF, rng.getrandbits(15)]),
                "cpu": rng.choice([0, 1023, rng.getrandbits(10)]), "mu": rng.choice([0, 1023, rng.getrandbits(10)]),
                "part": rng.choice([0, 255, rng.getrandbits(8)]),
                "gap": rng.choice([0, 0, 0, 4, 0x400, rng.randrange(0x400)]) if not use_explicit else rng.choice([0, 0, 4, 0x200]),
                "size_align": rng.choice([None, None, None, 4, 16, 1024]),
            })
            im = images[-1]
            if im["enc"] and im["size_align"] and rng.random() < 0.9:
                im["size_align"] = rng.choice([None, 4, 16])     # the other combination is the known finding C06-encrypted-size-alignment
            gidx += 1
        cert = None
        if row.get("cert") and ver == 2 and srk and (force.get("cert") or rng.random() < 0.5):
            # certificate (only the families of AhabCertificate.get_supported_families()): the SRK signs the certificate, the
            # certificate's key signs the container when it carries the "container" permission
            cert = {"perm": rng.choice([["container"], ["container"], ["container", "debug"], ["debug"], ["secure_fuse", "patch_fuses"],
                                        ["container", "debug", "secure_fuse", "return_life_cycle", "patch_fuses"]]),
                    "fuse": rng.choice([0, 1, 255, rng.getrandbits(8)]),
                    "uuid": rng.choice([None, rng.randbytes(16).hex()]),
                    "permdata": rng.choice([None, None, rng.randbytes(12).hex()])}
        conts.append({"srk": srk, "used": used, "revoke": revoke, "cert": cert, "fuse": rng.choice([0, 1, 255, rng.getrandbits(8)]),
                      "sw": rng.choice([0, 1, 65535, rng.getrandbits(16)]),
                      "gdet": rng.choice(["disabled", "enabled_eleapi", "enabled"]),
                      "check_all": rng.choice(["default", "check_all_signatures"]) if ver == 2 else None,
                      "blob": blob, "images": images, "overfull": overfull})
    return {"family": row["family"], "revision": row["revision"], "tm": tm, "ver": ver, "force_version": len(types) > 1,
            "containers": conts}


def case_config(case, scratch, tag):
    """SPSDK configuration dictionary of a case; image files are written to the scratch folder."""
    kd = keydir()
    cfg = {"family": case["family"], "revision": case["revision"], "target_memory": case["tm"], "output": "unused.bin",
           "containers": []}
    if case.get("force_version"):
        cfg["container_version"] = case["ver"]
    n = 0
    for ci, c in enumerate(case["containers"]):
        cc = {"srk_set": "oem" if c["srk"] else "none", "used_srk_id": c["used"], "srk_revoke_mask": c["revoke"],
              "fuse_version": c["fuse"], "sw_version": c["sw"], "gdet_runtime_behavior": c["gdet"], "images": []}
        if c.get("check_all"):
            cc["check_all_signatures"] = c["check_all"]
        if c["srk"]:
            kt = c["srk"]
            cc["signing_key"] = f"{kd}/{kt}/srk{c['used']}_{kt}.pem"
            cc["srk_table"] = {"srk_array": [f"{kd}/{kt}/srk{i}_{kt}.pub" for i in range(4)]}
        if c.get("cert"):
            ct, kt = c["cert"], c["srk"]
            ccfg = {"family": case["family"], "revision": case["revision"], "permissions": ct["perm"], "fuse_version": ct["fuse"],
                    "public_key_0": f"{kd}/{kt}/imgkey_{kt}.pub", "signing_key_0": f"{kd}/{kt}/srk{c['used']}_{kt}.pem"}
            if ct["uuid"]:
                ccfg["uuid"] = "0x" + ct["uuid"]
            if ct["permdata"]:
                ccfg["permission_data"] = "0x" + ct["permdata"]
            cfn = os.path.join(scratch, f"{tag}_cert{ci}.yaml")
            with open(cfn, "w", encoding="utf-8") as fh:
                json.dump(ccfg, fh)                                  # JSON is YAML
            cc["certificate"] = cfn
            if "container" in ct["perm"]:
                cc["signing_key"] = f"{kd}/{kt}/imgkey_{kt}.pem"
        if c["blob"]:
            b = c["blob"]
            cc["blob"] = {"dek_key_size": b["size"], "dek_key": b["dek"][: b["size"] // 4], "key_identifier": b["kid"]}
        for im in c["images"]:
            fn = os.path.join(scratch, f"{tag}_{n}.bin")
            with open(fn, "wb") as fh:
                fh.write(img_bytes(im["seed"], im["size"]))
            n += 1
            ic = {"image_path": fn, "load_address": im["load"], "entry_point": im["entry"], "image_type": im["type"],
                  "core_id": im["core"], "hash_type": im["hash"], "is_encrypted": im["enc"], "boot_flags": im["boot"],
                  "meta_data_start_cpu_id": im["cpu"], "meta_data_mu_cpu_id": im["mu"], "meta_data_start_partition_id": im["part"],
                  "gap_after_image": im["gap"]}
            if im["offset"]:
                ic["image_offset"] = im["offset"]
            if im["size_align"]:
                ic["image_size_alignment"] = im["size_align"]
            cc["images"].append(ic)
        cfg["containers"].append({"container": cc})
    return cfg


def model_lines(case, ahab, with_signatures=True):
    """Request lines that rebuild the real (loaded, possibly updated) object in the model driver.

    Inputs taken over from the real object: container/entry flag words and meta data (their construction is compared by the
    `fields` stream), SRK record fields + key parameters, signature bytes (the model never signs), blob fields.
    Everything else - padding, sizes, hashes, IVs, encryption, offsets, lengths, headers, placement - is computed by the model.
    """
    from spsdk.image.ahab.ahab_container import AHABContainerV2
    v2 = isinstance(ahab.ahab_containers[0], AHABContainerV2)
    lines = [f"new {'v2' if v2 else 'v1'} {case['family']} {case['revision']} {case['tm']}"]
    for c, cc in zip(ahab.ahab_containers, case["containers"]):
        lines.append(f"cont {c.flags} {c.sw_version} {c.fuse_version}")
        for e, im in zip(c.image_array, cc["images"]):
            off = im["offset"] if case["tm"] != "serial_downloader" else 0
            lines.append(f"img {hexs(img_bytes(im['seed'], im['size']))} {off} {e.load_address} {e.entry_point} {e.flags} "
                         f"{e.image_meta_data} {e.gap_after_image} {e.image_size_alignment or 0}")
        sb = c.signature_block
        if sb.srk_assets:
            if v2 and len(sb.srk_assets._srk_tables) == 1 and all(r.srk_data is not None for r in sb.srk_assets._srk_tables[0].srk_records):
                # version 2: record fields + key data; the model computes SRK data blocks, their hashes, table and array
                for r in sb.srk_assets._srk_tables[0].srk_records:
                    lines.append(f"srk2rec {r.version} {r.hash_algorithm.tag} {r.key_size} {r.srk_flags} {hexs(r.srk_data.data)}")
            elif v2:
                lines.append("srk " + hexs(sb.srk_assets.export()))
            else:
                for r in sb.srk_assets.srk_records:
                    lines.append(f"srkrec {r.version} {r.hash_algorithm.tag} {r.key_size} {r.srk_flags} {hexs(r.crypto_params)}")
        if sb.signature and with_signatures:
            sig = sb.signature.signature_data
            lines.append("sig " + hexs(sig if sig else bytes(sb.signature.signature_provider.signature_length)))
        if sb.certificate:
            lines.append("cert " + hexs(sb.certificate.export()))
        if sb.blob:
            b = sb.blob
            lines.append(f"blob {b.flags} {b._size} {b.algorithm.tag} {b.mode} {b.length} {hexs(b.dek_keyblob)} {b.key_identifier} "
                         f"{hexs(b.dek) if b.dek else 'none'}")
    return lines


def real_parse_dump(a2):
    """the parsed SPSDK objects in the format of the model driver's `parse` answer"""
    from spsdk.image.ahab.ahab_container import AHABContainerV2

    def sha(b):
        return hashlib.sha256(bytes(b)).hexdigest()
    parts = []
    for c in a2.ahab_containers:
        v2 = isinstance(c, AHABContainerV2)
        sb = c.signature_block
        if not sb.srk_assets:
            srk = "-"
        elif v2:
            raw = sb.srk_assets.export()
            srk = f"raw:{len(raw)}:{sha(raw)}"
        else:
            t = sb.srk_assets
            srk = f"table:{t.length}:" + "/".join(f"{r.version},{r.hash_algorithm.tag},{r.key_size},{r.srk_flags},{r.length},{sha(r.crypto_params)}"
                                                  for r in t.srk_records)
        b = sb.blob
        blob = f"{b.flags},{b._size},{b.algorithm.tag},{b.mode},{b.length},{hexs(b.dek_keyblob)},{b.key_identifier}" if b else "-"
        imgs = ";".join(f"{e._image_offset},{e.image_size},{e.load_address},{e.entry_point},{e.flags},{e.image_meta_data},{e.image_hash.hex()},"
                        f"{e.image_iv.hex() if e.flags_is_encrypted else '-'},{len(e.image)},{sha(e.image)}" for e in c.image_array)
        parts.append(f"H:{c.version},{c.length},{c.tag},{c.flags},{c.sw_version},{c.fuse_version},{len(c.image_array)},{c._signature_block_offset} "
                     f"SB:{sb.length},{sb._srk_assets_offset},{sb.signature_offset},{sb._certificate_offset},{sb._blob_offset} SRK:{srk} "
                     f"SIG:{hexs(sb.signature.signature_data) if sb.signature else '-'} CERT:{sha(sb.certificate.export()) if sb.certificate else '-'} "
                     f"BLOB:{blob} IMGS:{imgs}")
    return "ok:" + " | ".join(parts)


def real_layout(ahab):
    from spsdk.image.ahab.ahab_data import CONTAINER_ALIGNMENT
    parts = []
    for ix, c in enumerate(ahab.ahab_containers):
        sb = c.signature_block
        parts.append(f"c{ix} base={c.chip_config.container_offset} len={c.header_length()} sbo={c._signature_block_offset} "
                     f"srk={sb._srk_assets_offset} sig={sb.signature_offset} cert={sb._certificate_offset} blob={sb._blob_offset} "
                     f"sblen={len(sb)} imgs=" + ",".join(f"{e.image_offset}:{e.image_size}" for e in c.image_array))
    assert CONTAINER_ALIGNMENT
    return " ".join(parts) + f" total={len(ahab)} start={ahab.start_real_image_address}"


def real_relayout(ahab):
    """Phase 3: layout numbers + size / container-relative offset / hash field / IV field / stored length of every entry."""
    parts = []
    for ix, c in enumerate(ahab.ahab_containers):
        sb = c.signature_block
        parts.append(f"c{ix} base={c.chip_config.container_offset} len={c.header_length()} sbo={c._signature_block_offset} "
                     f"srk={sb._srk_assets_offset} sig={sb.signature_offset} cert={sb._certificate_offset} blob={sb._blob_offset} "
                     f"sblen={len(sb)} imgs=" + ",".join(
                         f"{e.image_offset}:{e.image_size}:{e._image_offset}:{bytes(e.image_hash).hex()}:{bytes(e.image_iv).hex()}:{len(e.image)}"
                         for e in c.image_array))
    return " ".join(parts) + f" total={len(ahab)} start={ahab.start_real_image_address}"


def signature_ranges(ahab):
    """absolute byte ranges holding signature containers (random for ECDSA): [signature offset, next present block / end)"""
    out = []
    for c in ahab.ahab_containers:
        sb = c.signature_block
        if not sb or not sb.signature_offset:
            continue
        b0 = c.chip_config.container_offset + c._signature_block_offset
        nxt = [x for x in (sb._certificate_offset, sb._blob_offset) if x and x > sb.signature_offset]
        out.append((b0 + sb.signature_offset, b0 + (min(nxt) if nxt else len(sb))))
        ct = getattr(sb, "certificate", None)
        if ct is not None and sb._certificate_offset:      # the certificate is signed again too: its own signature container
            out.append((b0 + sb._certificate_offset + ct.signature_offset, b0 + sb._certificate_offset + len(ct)))
    return out


def resign_flow(cx, case, cfg, binary, tag):
    """Phase 3 (re-sign flow): `update_fields()` twice is `update_fields()` once.  On a FRESH object of the same configuration:
    second update must not raise, must keep every layout number, every entry's offset / size / hash / IV / stored bytes,
    the data to sign of every signed container, and the exported file outside the signature containers; verify() stays clean.
    Correspondence: the model's `update2` (Model/AhabResign.lean) against the real second state."""
    from spsdk.image.ahab.ahab_image import AHABImage
    s = cx.s_export
    inp = (case, "resign")
    r = pyres(AHABImage.load_from_config, cfg, [cx.scratch])
    if r[0] != "ok":
        return
    a = r[1]
    if pyres(a.update_fields)[0] != "ok":
        return
    first = real_relayout(a)
    sd1 = [bytes(c.get_signature_data()) if cc["srk"] else b"" for c, cc in zip(a.ahab_containers, case["containers"])]
    imgs1 = [[bytes(e.image) for e in c.image_array] for c in a.ahab_containers]
    r2 = pyres(a.update_fields)
    if not s.expect(r2[0] == "ok", inp, "a second update_fields() raises on an updated AHAB image", r2):
        return
    second = real_relayout(a)
    s.expect(second == first, inp, "a second update_fields() moves an image or changes a length / size / hash / IV (re-sign is not idempotent)",
             first_diff(second, first))
    sd2 = [bytes(c.get_signature_data()) if cc["srk"] else b"" for c, cc in zip(a.ahab_containers, case["containers"])]
    s.expect(sd2 == sd1, inp, "the data to sign changes when update_fields() runs again", [len(x) for x in sd2])
    imgs2 = [[bytes(e.image) for e in c.image_array] for c in a.ahab_containers]
    s.expect(imgs2 == imgs1, inp, "the stored image bytes change when update_fields() runs again (e.g. encrypted twice)")
    rx = pyres(a.export)
    if s.expect(rx[0] == "ok", inp, "export() refuses after a second update_fields()", rx):
        b2 = bytes(rx[1])
        rng_ = signature_ranges(a)
        diff = [i for i in range(min(len(b2), len(binary))) if b2[i] != binary[i] and not any(lo <= i < hi for lo, hi in rng_)]
        s.expect(len(b2) == len(binary) and not diff, inp,
                 "the file exported after a second update_fields() differs from the first one outside the signature containers",
                 {"first_difference": diff[:1], "len": (len(b2), len(binary))})
    v = pyres(a.verify)
    s.expect(v[0] == "ok" and not verifier_errors(v[1]), inp, "verify() reports an image as erroneous after a second update_fields()",
             v[0] if v[0] != "ok" else verifier_errors(v[1]))
    if cx.drv is not None:
        got = cx.drv.ask("relayout")
        s.compare(inp, "ok:" + second, got, "state after the second update_fields() differs from the model (update2)")


def zero_fill_oracle(cx, case, ahab, binary):
    """Phase 3: every byte in front of the first image that no container occupies is zero - in particular the unused container
    slots hold no phantom container head (`unused_slots_zero` / `no_phantom_container`)."""
    s = cx.s_export
    offs = [e.image_offset for c in ahab.ahab_containers for e in c.image_array]
    if not offs:
        return
    first = min(min(offs), len(binary))
    covered = [(c.chip_config.container_offset, c.chip_config.container_offset + c.header_length()) for c in ahab.ahab_containers]
    pos, bad = 0, None
    for lo, hi in sorted(covered) + [(first, first)]:
        lo = min(lo, first)
        if pos < lo and binary[pos:lo].count(0) != lo - pos:
            bad = next(i for i in range(pos, lo) if binary[i])
            break
        pos = max(pos, min(hi, first))
    s.expect(bad is None, (case, "zero-fill"), "a byte in front of the first image and outside every container is not zero "
             "(unused container slots must be zero filled)", bad)
    csize = 0x400 if case["ver"] == 1 else 0x4000
    tagv = 0x87
    for m in range(len(ahab.ahab_containers), 4):
        b = m * csize
        # a slot that a preceding (long: P-384/P-521/RSA-4096 signature block) container reaches into holds that container's bytes -
        # signature bytes are random, so a 0x87 there is chance (1/256 per run), not a phantom head; only truly unused slots are judged
        if b + 16 <= first and not any(lo < b + 4 and b < hi for lo, hi in covered):
            s.expect(binary[b + 3] != tagv, (case, "phantom", m), "an unused container slot starts with a container tag", binary[b:b + 4].hex())



# ------------------------------------------------------------------------------------------------ independent signature check
def indep_verify(kt, used, data, sig, key=None):
    """Verify with `cryptography` and the key FILE the configuration named - nothing from spsdk.crypto."""
    from cryptography.exceptions import InvalidSignature
    from cryptography.hazmat.primitives import hashes, serialization
    from cryptography.hazmat.primitives.asymmetric import ec, padding, utils
    with open(f"{keydir()}/{kt}/{key or f'srk{used}'}_{kt}.pub", "rb") as fh:
        raw = fh.read()
    try:
        pub = serialization.load_pem_public_key(raw)
    except ValueError:
        pub = serialization.load_der_public_key(raw)
    try:
        if kt.startswith("rsa"):
            pub.verify(sig, data, padding.PSS(mgf=padding.MGF1(hashes.SHA256()), salt_length=32), hashes.SHA256())
        else:
            n = {"ecc256": 32, "ecc384": 48, "ecc521": 66}[kt]
            h = {"ecc256": hashes.SHA256(), "ecc384": hashes.SHA384(), "ecc521": hashes.SHA512()}[kt]
            if len(sig) != 2 * n:
                return False
            der = utils.encode_dss_signature(int.from_bytes(sig[:n], "big"), int.from_bytes(sig[n:], "big"))
            pub.verify(der, data, ec.ECDSA(h))
        return True
    except InvalidSignature:
        return False


def key_params(kt, used, key=None):
    """(param1 ‖ param2) of the key file as the SRK record stores them (big endian, fixed widths)."""
    from cryptography.hazmat.primitives import serialization
    with open(f"{keydir()}/{kt}/{key or f'srk{used}'}_{kt}.pub", "rb") as fh:
        raw = fh.read()
    try:
        pub = serialization.load_pem_public_key(raw)
    except ValueError:
        pub = serialization.load_der_public_key(raw)
    nums = pub.public_numbers()
    if kt.startswith("rsa"):
        return nums.n.to_bytes(int(kt[3:]) // 8, "big") + nums.e.to_bytes(4, "big")
    n = {"ecc256": 32, "ecc384": 48, "ecc521": 66}[kt]
    return nums.x.to_bytes(n, "big") + nums.y.to_bytes(n, "big")


def expected_words(case, cc_row, im):
    """flag word and meta data of an entry from the CONFIGURATION and the documented bit layout (hand transcribed:
    type [3:0], core id [7:4], hash [10:8] (v1) / [11:8] (v2), encrypted bit 11 (v1) / 12 (v2), boot flags [30:16];
    meta: start cpu [9:0], mu cpu [19:10], partition [27:20])"""
    core = next(t for t, l in cc_row["core_ids"] if l == im["core"])
    ty = next(t for t, l in (valid_image_types(cc_row, core) or [[3, "executable"]]) if l == im["type"])
    h = {"sha256": 0, "sha384": 1, "sha512": 2}[im["hash"]]
    flags = ty | core << 4 | h << 8 | (int(bool(im["enc"])) << (11 if case["ver"] == 1 else 12)) | im["boot"] << 16
    return flags, im["cpu"] | im["mu"] << 10 | im["part"] << 20


def parse_report(line):
    """`ok:` report of the compiled checker -> list of dicts."""
    out = []
    for part in line[3:].split(";"):
        d = {}
        for tok in part.split(" "):
            if "=" in tok:
                k, v = tok.split("=", 1)
                d[k] = v
            else:
                d[tok] = True
        out.append(d)
    return out


def check_line(case_ver, row, binary, deks):
    dk = " ".join(d if d else "none" for d in deks)
    return f"check v{case_ver} {row['containers_max_cnt']} {row['oem_images_max_cnt']} {len(deks)} {dk} {hexs(binary)}".replace("  ", " ")


# ------------------------------------------------------------------------------------------------ known findings (narrow predicates)
def f_encrypted_size_alignment(case, row):
    """an encrypted entry whose image_size_alignment does not divide the stored (padded) image length: the cipher text is zero
    padded AFTER encryption, so the image region of the file no longer decrypts to the data whose SHA-256 is the IV field."""
    a = row["container_image_size_alignment"]
    for c in case["containers"]:
        for im in c["images"]:
            if im["enc"] and c["blob"] and im["size_align"] and ((im["size"] + a - 1) // a * a) % im["size_align"]:
                return True
    return False


def mark_cert_rows(rows_l):
    from spsdk.image.ahab.ahab_certificate import AhabCertificate
    fams = set(AhabCertificate.get_supported_families())
    for r in rows_l:
        r["cert"] = r["family"] in fams and 2 in r["container_types"]


CERT_PERMS = {"container": 0x01, "debug": 0x02, "secure_fuse": 0x08, "return_life_cycle": 0x10, "patch_fuses": 0x40}


def indep_cert(binary, co, cc):
    """Independent check of the certificate at absolute offset `co` (hand transcribed from the diagram in the doc string of
    AhabCertificate and of the SRK record / SRK data / signature blocks): header, permissions and their complement, fuse version,
    UUID, permission data as configured; public key = the image key file; the record's hash field = hash of the SRK data block;
    signature by the used SRK over certificate[: signature offset].  Returns None or the first reason for refusing."""
    ct, kt = cc["cert"], cc["srk"]
    if co + 0x28 > len(binary):
        return "certificate header outside the file"
    ver, length, tag, sigoff, inv, perm = struct.unpack_from("<BHBHBB", binary, co)
    if tag != 0xAF or ver != 2:
        return "certificate tag/version"
    if inv != (~perm) & 0xFF:
        return "inverted permissions are not the complement of the permissions"
    want = 0
    for p_ in ct["perm"]:
        want |= CERT_PERMS[p_]
    if perm != want:
        return f"permissions {perm:#x} differ from the configured {want:#x}"
    if binary[co + 8: co + 20] != bytes.fromhex(ct["permdata"] or "").ljust(12, b"\0"):
        return "permission data differ from the configuration"
    if binary[co + 0x14] != ct["fuse"] or binary[co + 0x15: co + 0x18] != b"\0\0\0":
        return "fuse version / reserved bytes"
    if binary[co + 0x18: co + 0x28] != bytes.fromhex(ct["uuid"] or "").ljust(16, b"\0"):
        return "UUID differs from the configuration"
    ro = co + 0x28
    rtag, rlen = struct.unpack_from("<BH", binary, ro)
    if rtag != 0xE1 or rlen < 12:
        return "public key record tag/length"
    hash_alg = binary[ro + 4]
    do = ro + rlen
    dver, dlen, dtag = struct.unpack_from("<BHB", binary, do)
    if dtag != 0x5D or dlen < 8:
        return "SRK data tag/length"
    if do + dlen != co + sigoff:
        return "signature offset is not the end of the public key"
    if binary[do + 8: do + dlen] != key_params(kt, 0, key="imgkey"):
        return "the certificate does not hold the configured image key"
    hname = {0: "sha256", 1: "sha384", 2: "sha512"}.get(hash_alg)
    if hname is None:
        return "hash algorithm of the public key record"
    dg = hashlib.new(hname, binary[do: do + dlen]).digest()
    if binary[ro + 12: ro + rlen] != dg.ljust(rlen - 12, b"\0"):
        return "the record's hash field is not the hash of the SRK data block"
    so = co + sigoff
    sver, slen, stag = struct.unpack_from("<BHB", binary, so)
    if stag != 0xD8 or sver != 0 or slen <= 8 or sigoff + slen != length:
        return "certificate signature container / certificate length"
    if not indep_verify(kt, cc["used"], binary[co: so], binary[so + 8: so + slen]):
        return "the certificate signature does not verify under the used SRK over certificate[: signature offset]"
    return None


# ------------------------------------------------------------------------------------------------ the run
class Ctx:
    pass


def run_case(cx, case, tag):
    """`_run_case`, with an exception raised inside /repo code turned into an oracle failure that carries the input
    (an exception of the harness itself is re-raised: infrastructure error, not a verdict)."""
    import traceback
    from vcore import REPO
    try:
        return _run_case(cx, case, tag)
    except Infra:
        raise
    except Exception as exc:  # noqa: BLE001
        tb = traceback.format_exc()
        if (str(REPO) + "/spsdk") not in tb:
            raise
        cx.s_export.expect(False, case, "the implementation raised while an exported / parsed AHAB image was inspected",
                           f"{type(exc).__name__}: {exc}"[:300])
        return None


def _run_case(cx, case, tag):
    """Everything the property says about ONE configuration, on the real code (+ correspondence with the model)."""
    from spsdk.exceptions import SPSDKError
    from spsdk.image.ahab.ahab_image import AHABImage
    ck, s, rng = cx.ck, cx.s_export, cx.ck.rng
    row = cx.rows[(case["family"], case["revision"])]
    cfg = case_config(case, cx.scratch, tag)
    ncont = len(case["containers"])
    nimgs = sum(len(c["images"]) for c in case["containers"])
    cls = (f"v{case['ver']}/{case['tm']}/c{ncont}/" + ("signed" if any(c["srk"] for c in case["containers"]) else "plain")
           + ("/enc" if any(i["enc"] for c in case["containers"] for i in c["images"]) else ""))
    s.note(case, nontrivial=True, cls=cls)
    cx.dist["containers"][ncont] = cx.dist["containers"].get(ncont, 0) + 1
    cx.dist["images"][nimgs] = cx.dist["images"].get(nimgs, 0) + 1
    for c in case["containers"]:
        cx.dist["srk"][str(c["srk"])] = cx.dist["srk"].get(str(c["srk"]), 0) + 1
        cx.dist["certificates"] = cx.dist.get("certificates", 0) + (1 if c.get("cert") else 0)

    r = pyres(AHABImage.load_from_config, cfg, [cx.scratch])
    if not s.expect(r[0] == "ok", case, "a valid AHAB configuration is refused by load_from_config", r):
        return None
    ahab = r[1]
    pre_lines = None
    r = pyres(ahab.update_fields)
    if not s.expect(r[0] == "ok", case, "update_fields() raises on a valid AHAB configuration", r):
        return None
    v1 = pyres(ahab.verify)
    if not s.expect(v1[0] == "ok", case, "verify() raises on a freshly built AHAB image", v1):
        return None
    e1 = verifier_errors(v1[1])
    rexp = pyres(ahab.export)
    overfull = any(c.get("overfull") for c in case["containers"])
    if overfull:
        # a container that does not fit its fixed slot: the only acceptable outcome is a reported error and no export
        s.expect(bool(e1) and rexp[0] == "E:spsdk", case, "a container overlapping the next container slot is not refused", (e1, rexp[0]))
    else:
        s.expect(not e1, case, "a valid image is reported as erroneous by verify() (before export)", e1, [])
    # ---------------- correspondence: model export of the same configuration
    if cx.drv is not None:
        lines = model_lines(case, ahab)
        ans = cx.drv.batch(lines + ["layout", "export"])
        bad = [a for a in ans[:-2] if a != "ok"]
        if bad:
            ck.disagreement("export", case, "lines accepted", bad[:2], "model driver refused a building line")
        else:
            s.compare(case, "ok:" + real_layout(ahab), ans[-2], "layout numbers (offsets, lengths) differ")
            real_c = canon(rexp) if rexp[0] != "ok" else "ok:" + bytes(rexp[1]).hex()
            s.compare(case, real_c if len(real_c) < 200 else (real_c[:40], hashlib.sha256(real_c.encode()).hexdigest(), first_diff(real_c, ans[-1])),
                      ans[-1] if len(ans[-1]) < 200 else (ans[-1][:40], hashlib.sha256(ans[-1].encode()).hexdigest(), first_diff(real_c, ans[-1])),
                      "exported bytes differ")
            q = []
            for k, c in enumerate(ahab.ahab_containers):
                if case["containers"][k]["srk"]:
                    q.append((k, "sigdata", "ok:" + bytes(c.get_signature_data()).hex()))
                    if case["ver"] == 1:
                        q.append((k, "srkhash", "ok:" + c.get_srk_hash(0).hex()))
            if q:
                res = cx.drv.batch([f"{op} {k}" for k, op, _ in q])
                for (k, op, real), got in zip(q, res):
                    s.compare((case, op, k), hashlib.sha256(real.encode()).hexdigest(), hashlib.sha256(got.encode()).hexdigest(),
                              f"{op} of container {k} differs")
    if overfull:
        return None
    if not s.expect(rexp[0] == "ok", case, "export() refuses / raises on a valid AHAB image", rexp):
        return None
    binary = bytes(rexp[1])
    fenc = "C06-encrypted-size-alignment" if f_encrypted_size_alignment(case, row) else None
    # ---------------- Phase 3: zero fill of the unused slots; the re-sign flow (update_fields twice) on a fresh object
    zero_fill_oracle(cx, case, ahab, binary)
    resign_flow(cx, case, cfg, binary, tag)
    # ---------------- parse back, equality, verify, re-export
    a2 = AHABImage(case["family"], case["revision"], case["tm"])
    rp = pyres(a2.parse, binary)
    if s.expect(rp[0] == "ok", case, "parse() refuses the exported image", rp):
        same = (len(a2.ahab_containers) == len(ahab.ahab_containers)
                and all(p == o and p.signature_block == o.signature_block for p, o in zip(a2.ahab_containers, ahab.ahab_containers)))
        s.expect(same, case, "parse(export(x)) is not equal to x (containers, image entries, signature blocks, certificates)",
                 [repr(c) for c in a2.ahab_containers])
        if cx.drv is not None:
            got = cx.drv.ask(f"parse v{case['ver']} {row['containers_max_cnt']} {hexs(binary)}")
            real_d = real_parse_dump(a2)
            s.compare((case, "parse"), real_d if real_d == got else real_d[:3000], got if real_d == got else got[:3000],
                      "the parser model reads another object from the exported file than AHABImage.parse")
        for c2, cc in zip(a2.ahab_containers, case["containers"]):      # the verifier needs the DEK to judge encrypted images
            if cc["blob"] and c2.signature_block and c2.signature_block.blob:
                c2.signature_block.blob.dek = bytes.fromhex(cc["blob"]["dek"][: cc["blob"]["size"] // 4])
        v2 = pyres(a2.verify)
        if s.expect(v2[0] == "ok", case, "verify() raises on the parsed image", v2):
            e2 = verifier_errors(v2[1])
            s.expect(not e2, case, "a valid image is reported as erroneous by verify() (after parse)", e2, [],
                     finding=fenc if e2 and all(x.endswith("Image Encryption/Decrypted data") for x in e2) else None)
        r2 = pyres(a2.export)
        s.expect(r2[0] == "ok" and bytes(r2[1]) == binary, case, "re-export of the parsed image differs from the original bytes",
                 r2[0] if r2[0] != "ok" else first_diff(bytes(r2[1]).hex(), binary.hex()), finding=fenc if r2[0] == "E:spsdk" else None)
        for c2, o in zip(a2.ahab_containers, ahab.ahab_containers):
            for e2_, eo in zip(c2.image_array, o.image_array):
                want = eo.image + bytes(eo.image_size - len(eo.image))
                s.expect(binary[eo.image_offset: eo.image_offset + eo.image_size] == want and e2_.image == want[: len(e2_.image)],
                         case, "an image-array entry does not point at the bytes of its image", eo.image_offset)
        # ---------------- parse -> create_config -> load_from_config -> export is the identity (plain images; a serial-downloader
        # configuration cannot carry image offsets, so gaps of the original layout are not reproducible from it)
        if rp[0] == "ok" and case["tm"] != "serial_downloader" and not any(c["srk"] or c["blob"] for c in case["containers"]):
            dcfg = os.path.join(cx.scratch, f"{tag}_cfg")
            os.makedirs(dcfg, exist_ok=True)
            rc_ = pyres(a2.create_config, dcfg)
            if s.expect(rc_[0] == "ok", case, "create_config() raises on a parsed image", rc_):
                r3 = pyres(AHABImage.load_from_config, rc_[1], [dcfg])
                again = None
                if r3[0] == "ok" and pyres(r3[1].update_fields)[0] == "ok":
                    rx3 = pyres(r3[1].export)
                    again = bytes(rx3[1]) if rx3[0] == "ok" else None
                s.expect(again == binary, (case, "config-roundtrip"),
                         "export(load_from_config(create_config(parse(file)))) is not the file (e.g. container generation, offsets, flags lost)",
                         r3[0] if again is None else first_diff(again.hex(), binary.hex()))
    # ---------------- independent check of the binary
    deks = [(c["blob"]["dek"][: c["blob"]["size"] // 4] if c["blob"] else None) for c in case["containers"]]
    info = {"binary": binary, "deks": deks, "row": row, "ahab": ahab}
    if cx.drv is not None:
        rep = cx.drv.ask(check_line(case["ver"], row, binary, deks))
        ok = independent_ok(cx, case, binary, rep, ahab, report_to=s,
                            finding=fenc if "decrypted image does not hash to the IV field" in rep else None)
        info["check_ok"] = ok
    return info


def first_diff(a, b):
    n = min(len(a), len(b))
    i = next((i for i in range(n) if a[i] != b[i]), n)
    return {"first_difference_at_hex_char": i, "len_a": len(a), "len_b": len(b)}


def independent_ok(cx, case, binary, rep, ahab=None, report_to=None, finding=None):
    """Acceptance by the compiled `ahabCheck` + discharge of its signature obligations with `cryptography`.

    With `report_to` (valid image) every failed clause is an oracle failure; without it just the verdict is returned."""
    s = report_to

    def need(cond, what, obs=None):
        if s is not None:
            s.expect(cond, case, what, obs)
        return bool(cond)

    if not (rep.startswith("ok:") or rep.startswith("fail:")):
        # not an answer of the checker at all (driver died / does not build / fault injected): no verdict, a broken correspondence
        cx.ck.disagreement(s.name if s is not None else "tamper", case, "a report or a refusal of the independent checker",
                           rep[:80], "the compiled independent checker gave no answer")
        return None
    if not rep.startswith("ok:"):
        if s is not None:
            s.expect(False, case, "the independent AHAB check refuses an image exported by SPSDK", rep[:300], finding=finding)
        return False
    try:
        return _independent_ok(cx, case, binary, rep, ahab, s, need)
    except (KeyError, ValueError, IndexError, struct.error) as exc:
        cx.ck.disagreement(s.name if s is not None else "tamper", case, "a well-formed report of the independent checker", f"{type(exc).__name__}: {rep[:80]}",
                           "the report of the compiled independent checker cannot be read")
        return None


def _independent_ok(cx, case, binary, rep, ahab, s, need):
    reps = parse_report(rep)
    ok = need(len(reps) == len(case["containers"]), "the independent check finds another number of containers", len(reps))
    for k, (r, cc) in enumerate(zip(reps, case["containers"])):
        csize = 0x400 if case["ver"] == 1 else 0x4000
        ok &= need(int(r["base"]) == k * csize, "container is not at its fixed offset", r["base"])
        imgs = [t.split(":") for t in r["imgs"].split(",") if t]
        ok &= need(len(imgs) == len(cc["images"]), "image count differs", len(imgs))
        extras = [t.split(":") for t in r.get("extra", "").split(",") if t]
        for j, (t, im) in enumerate(zip(imgs, cc["images"])):
            ok &= need((t[3] == "1") == bool(im["enc"]), "encrypted flag of an entry differs from the configuration", t)
            if s is not None and j < len(extras):
                wf, wm = expected_words(case, cx.rows[(case["family"], case["revision"])], im)
                ok &= need(int(t[2]) == wf, "flag word of an entry in the binary differs from the configuration (documented bit layout)", (int(t[2]), wf))
                ok &= need([int(x) for x in extras[j]] == [im["load"], im["entry"], wm],
                           "load address / entry point / meta data in the binary differ from the configuration", (extras[j], [im["load"], im["entry"], wm]))
        if s is not None:
            ok &= need(int(r["sw"]) == cc["sw"] and int(r["fuse"]) == cc["fuse"], "sw/fuse version in the binary differ from the configuration",
                       (r["sw"], r["fuse"]))
        if cc["srk"]:
            if not need("signed" in r, "a signed container is reported as unsigned by the independent check", r):
                ok = False
                continue
            base = int(r["base"])
            so, sl = (int(x) for x in r["sigdata"].split(":"))
            data = binary[base: base + int(r["signed"])]
            sig = binary[so: so + sl]
            ok &= need(int(r["used"]) == cc["used"], "used SRK id in the flags differs from the configuration", r["used"])
            ct = cc.get("cert")
            by_cert = bool(ct) and "container" in ct["perm"]
            good = indep_verify(cc["srk"], cc["used"], data, sig, key="imgkey" if by_cert else None)
            ok &= need(good, "the container signature does not verify (cryptography, key file of the configuration: the certificate's "
                             "image key when the certificate may sign containers, else the used SRK) over "
                             "container[: signature block offset + signature offset]", {"signed_len": len(data)})
            if ct:
                try:
                    why = "no certificate offset" if int(r["cert"]) == 0 else indep_cert(binary, base + int(r["sbo"]) + int(r["cert"]), cc)
                except (struct.error, IndexError, ValueError) as exc:
                    why = f"malformed certificate ({type(exc).__name__})"
                ok &= need(why is None, "the certificate in the exported container fails the independent certificate check", why)
            else:
                ok &= need(int(r["cert"]) == 0, "a container without a configured certificate carries a certificate offset", r["cert"])
            if case["ver"] == 1:
                ro, rl = (int(x) for x in r["rec"].split(":"))
                rec = binary[ro: ro + rl]
                ok &= need(rec[12:] == key_params(cc["srk"], cc["used"]), "the selected SRK record does not hold the configured public key", rl)
                to, tl = (int(x) for x in r["table"].split(":"))
                th = hashlib.sha256(binary[to: to + tl]).hexdigest()
                ok &= need(r["srkhash"] == th, "Lean SHA-256 of the SRK table differs from hashlib", r["srkhash"])
                if ahab is not None:
                    ok &= need(ahab.ahab_containers[k].get_srk_hash(0).hex() == th,
                               "SPSDK's SRK table hash is not the hash of the exported table", th)
            elif ahab is not None:
                sa = ahab.ahab_containers[k].signature_block.srk_assets
                to, tl = (int(x) for x in r["table"].split(":"))
                exported_tbl = sa._srk_tables[0].export()
                ok &= need(exported_tbl in binary[to: to + tl] and ahab.ahab_containers[k].get_srk_hash(0) == hashlib.sha512(exported_tbl).digest(),
                           "SPSDK's SRK table hash (v2) is not the hash of the exported table")
        else:
            ok &= need("unsigned" in r, "an unsigned container is reported as signed", r)
    return ok


# ------------------------------------------------------------------------------------------------ tampering
def authenticated_positions(case, binary, rep):
    """byte positions whose corruption must be noticed: signed ranges of signed containers, image bytes of every entry
    (bound by the entry's hash; the entry is bound by the signature only in a signed container)."""
    reps = parse_report(rep)
    signed, images, hdr_unsigned, certs = [], [], [], []
    for r, cc in zip(reps, case["containers"]):
        base = int(r["base"])
        imgs = [t.split(":") for t in r["imgs"].split(",") if t]
        for t in imgs:
            if int(t[1]):
                images.append((int(t[0]), int(t[1])))
        if cc["srk"]:
            signed.append((base, int(r["signed"])))
            so, sl = (int(x) for x in r["sigdata"].split(":"))
            signed.append((so, sl))      # the signature itself
            if cc.get("cert") and int(r["cert"]):
                co = base + int(r["sbo"]) + int(r["cert"])
                clen, csig = struct.unpack_from("<HxH", binary, co + 1)
                certs.append((co, csig))                                   # the part the SRK signs
                certs.append((co + csig + 8, clen - csig - 8))             # the signature bytes (their 8-byte header is not authenticated)
        else:
            n = len(imgs)
            for i in range(n):           # hash and (for encrypted entries) IV fields of unsigned containers
                hdr_unsigned.append((base + 16 + 128 * i + 0x20, 64))
    return signed, images, hdr_unsigned, certs


def real_authenticated_positions(case, ahab, binary):
    """`authenticated_positions` from the layout numbers of the real (exported) object instead of the checker's report"""
    signed, images, hdr_unsigned, certs = [], [], [], []
    csize = 0x400 if case["ver"] == 1 else 0x4000
    for k, (c, cc) in enumerate(zip(ahab.ahab_containers, case["containers"])):
        base = k * csize
        for e in c.image_array:
            if e.image_size:
                images.append((e.image_offset, e.image_size))
        sb = c.signature_block
        if cc["srk"] and sb.signature:
            sbo = c._signature_block_offset
            signed.append((base, sbo + sb.signature_offset))
            signed.append((base + sbo + sb.signature_offset + 8, len(sb.signature.signature_data)))
            if cc.get("cert") and sb._certificate_offset:
                co = base + sbo + sb._certificate_offset
                clen, csig = struct.unpack_from("<HxH", binary, co + 1)
                certs.append((co, csig))
                certs.append((co + csig + 8, clen - csig - 8))
        elif not cc["srk"]:
            for i in range(len(c.image_array)):
                hdr_unsigned.append((base + 16 + 128 * i + 0x20, 64))
    return signed, images, hdr_unsigned, certs


def finding_for_tamper(inp, original, parsed):
    """C06-verify-reserializes: verify() checks the signature over a re-serialisation of the parsed object
    (`get_signature_data() = self._export()[:offset]`), so a corrupted byte that parse() does not keep (reserved fields,
    alignment padding, IV field of a plain entry, SRK parameter-length words) is 'healed' and goes unreported.
    Predicate: the parsed corrupted image re-exports with the ORIGINAL byte at the flipped position."""
    if parsed is None:
        return None
    r = pyres(parsed.export)
    pos = inp["flip"][0]
    if r[0] == "ok" and len(r[1]) > pos and r[1][pos] == original[pos]:
        return "C06-verify-reserializes"
    return None


def tamper(cx, case, info, budget, extra_picks=()):
    from spsdk.image.ahab.ahab_image import AHABImage
    s, rng = cx.s_tamper, cx.ck.rng
    binary, deks, row = info["binary"], info["deks"], info["row"]
    rep = cx.drv.ask(check_line(case["ver"], row, binary, deks)) if cx.drv is not None else ""
    if rep.startswith("fail:"):
        return
    pos = None
    if rep.startswith("ok:"):
        try:
            pos = authenticated_positions(case, binary, rep)          # from the report of the independent (Spec-only) checker
        except (KeyError, ValueError, IndexError, struct.error):
            pos = None
    if pos is None:
        # no usable checker (does not build / died): the same positions from the layout numbers of the real object, so that the
        # SPSDK side of the oracle (and its known findings) does not depend on the Lean side
        pos = real_authenticated_positions(case, info["ahab"], binary)
    signed, images, hdru, certs = pos
    pools = [("signed", signed), ("image", images), ("hashfield", hdru), ("certificate", certs)]
    picks = list(extra_picks)
    for name, ranges in pools:
        tot = sum(l for _, l in ranges)
        if not tot:
            continue
        k = max(1, budget // 3) if name != "signed" else budget - 2 * (budget // 3)
        if name == "certificate":
            k = budget
        for _ in range(k):
            x = rng.randrange(tot)
            for o, l in ranges:
                if x < l:
                    picks.append((name, o + x, rng.randrange(8)))
                    break
                x -= l
        # boundaries: first and last authenticated byte of the class
        o, l = ranges[0]
        picks.append((name, o, 0))
        o, l = ranges[-1]
        picks.append((name, o + l - 1, 7))
    for name, pos, bit in picks:
        inp = {"case": case, "flip": [pos, bit], "class": name}
        # the hash field of an entry is 64 bytes but only the digest part is meaningful for parse equality; all of it is checked
        mod = bytearray(binary)
        mod[pos] ^= 1 << bit
        mod = bytes(mod)
        s.note(inp, nontrivial=True, cls=name)
        # --- SPSDK's own verifier
        a = AHABImage(case["family"], case["revision"], case["tm"])
        rp = pyres(a.parse, mod)
        reported = rp[0] != "ok"
        detail = rp[0]
        if not reported:
            for c2, cc in zip(a.ahab_containers, case["containers"]):
                if cc["blob"] and c2.signature_block and c2.signature_block.blob:
                    c2.signature_block.blob.dek = bytes.fromhex(cc["blob"]["dek"][: cc["blob"]["size"] // 4])
            rv = pyres(a.verify)
            if rv[0] != "ok":
                reported, detail = True, rv
            else:
                errs = verifier_errors(rv[1])
                reported, detail = bool(errs), errs[:4]
            # a flip that removes a whole container from the parse result is "reported" only if verify says so or the count changed
            if not reported and len(a.ahab_containers) != len(case["containers"]):
                reported, detail = True, "container count changed"
        s.expect(reported, inp, "corrupting an authenticated byte is NOT reported by parse()/verify()", detail,
                 finding=None if reported else cx.finding_for_tamper(inp, binary, a if rp[0] == "ok" else None))
        # --- independent check
        if cx.drv is not None:
            rep2 = cx.drv.ask(check_line(case["ver"], row, mod, deks))
            ind_ok = independent_ok(cx, case, mod, rep2)
            if ind_ok is not None:
                s.compare(inp, True, not ind_ok, "the independent check accepts a corrupted authenticated byte")
        cx.flips += 1


# ------------------------------------------------------------------------------------------------ verifier range / consistency
def vlines(case, ahab, overlap_ok, allow_empty_hash=False):
    """the attribute values the verify() tree looks at, as lines for the model's verifier"""
    from spsdk.image.ahab.ahab_container import AHABContainerV2
    from spsdk.utils.misc import extend_block
    v2 = isinstance(ahab.ahab_containers[0], AHABContainerV2)
    out = [f"vnew {'v2' if v2 else 'v1'} {case['family']} {case['revision']} {case['tm']} {int(overlap_ok)}"]
    hashers = {0: hashlib.sha256, 1: hashlib.sha384, 2: hashlib.sha512}
    for c in ahab.ahab_containers:
        out.append(f"vcont {c.tag} {c.length} {c.version} {len(c)} {c.flags} {c.sw_version} {c.fuse_version} {c.chip_config.container_offset}")
        for e in c.image_array:
            hv = (e.flags >> e.FLAGS_HASH_OFFSET) & ((1 << e.FLAGS_HASH_SIZE) - 1)
            hok = False
            if e.image_hash is not None and not any(e.image_hash):
                hok = allow_empty_hash          # all zeros: only a warning on chips that allow an empty hash
            elif e.image_hash is not None and len(e.image_hash) == 64 and hv in hashers and e.image_size >= len(e.image):
                d = hashers[hv](e.image + bytes(e.image_size - len(e.image))).digest()
                hok = e.image_hash == d + bytes(64 - len(d))
            out.append(f"vimg {e._image_offset} {e.image_size} {e.load_address} {e.entry_point} {e.flags} {e.image_meta_data} "
                       f"{len(e.image)} {e.image_size_alignment or 0} {int(hok)}")
        sb = c.signature_block
        if sb is not None:
            out.append(f"vsb {sb.tag} {sb.length} {sb.version} {len(sb)}")
            for nm, obj, off in (("srk", sb.srk_assets, sb._srk_assets_offset), ("sig", sb.signature, sb.signature_offset),
                                 ("cert", sb.certificate, sb._certificate_offset), ("blob", sb.blob, sb._blob_offset)):
                out.append(f"vblk {nm} {int(bool(obj))} {off} {len(obj) if obj else 0} 1")
            if sb.blob:
                b = sb.blob
                out.append(f"vblob {b._size} {b.mode} {len(b.dek) if b.dek else 'none'} {len(b.dek_keyblob)} {b.key_identifier} "
                           f"{b.tag} {b.length} {b.version} {len(b)}")
    assert extend_block
    return out


def _set(attr):
    return lambda o, v: setattr(o, attr, v)


def _bits(n):
    return lambda v: 0 <= v < (1 << n)


# attribute -> "is this value legal for the field" (documented widths); the verifier must report exactly the illegal ones
LEGAL = {"c.flags": _bits(32), "c.sw_version": _bits(16), "c.fuse_version": _bits(8), "e.load_address": _bits(64),
         "e.entry_point": _bits(64), "e.image_meta_data": _bits(32), "e.flags": _bits(32), "blob.key_identifier": _bits(32),
         "blob.mode": _bits(8)}


PERTURB = [
    # (name, target, values(rng, obj), setter) - one attribute at a time: legal extreme values and the first illegal ones;
    # every listed value is used at least once per run
    ("c.flags", "c", lambda r, c: [(c.flags & 0x300000) | x for x in (0, 1 << 31, 0xFFCFFFF0, 1 << 32, (1 << 32) | 0x10, 1 << 40, r.getrandbits(32) & ~0x30000F)],
     _set("flags")),
    ("c.sw_version", "c", lambda r, c: [0, 1, 65535, 65536, 65537, 1 << 31, 1 << 32, -1, r.getrandbits(16)], _set("sw_version")),
    ("c.fuse_version", "c", lambda r, c: [0, 1, 255, 256, 257, 65535, 1 << 32, -1, r.getrandbits(8)], _set("fuse_version")),
    ("c.length", "c", lambda r, c: [c.length - 1, c.length + 1, c.length + 8, c.length + 65536, 0], _set("length")),
    ("c.tag", "c", lambda r, c: [0, 0x87, 0x86, 255, 256, -1], _set("tag")),
    ("c.version", "c", lambda r, c: [0, 1, 2, 255, 256, -1], _set("version")),
    ("e._image_offset", "e", lambda r, e: [e._image_offset + 0x400, (1 << 32) - 0x400, 1 << 32, -0x400], _set("_image_offset")),
    # (1 << 32, the first value outside the field, makes verify() hash 4 GiB of padding - about 40 s: thorough tier only)
    ("e.image_size", "e", lambda r, e: [e.image_size + 1, e.image_size - 1, e.image_size + 4, 0] + ([] if _QUICK[0] else [1 << 32]),
     _set("image_size")),
    ("e.load_address", "e", lambda r, e: [0, (1 << 64) - 1, 1 << 64, (1 << 64) + 1, 1 << 32, -1], _set("load_address")),
    ("e.entry_point", "e", lambda r, e: [0, (1 << 64) - 1, 1 << 64, 1 << 70, -1], _set("entry_point")),
    ("e.image_meta_data", "e", lambda r, e: [0, (1 << 32) - 1, 1 << 32, (1 << 32) + 5, -1], _set("image_meta_data")),
    ("e.flags", "e", lambda r, e: [(e.flags & 0xFFFF) | x for x in (0, 0x7FFF0000, 0x80000000, 1 << 32, (1 << 33) | 0x10000)], _set("flags")),
    ("e.image_hash", "e", lambda r, e: [bytes(64), e.image_hash[:32], bytes([e.image_hash[0] ^ 1]) + e.image_hash[1:], e.image_hash[:63] + bytes([e.image_hash[63] ^ 0x80])],
     _set("image_hash")),
    ("sb._srk_assets_offset", "sb", lambda r, sb: [8, 16, -8, 65536], _set("_srk_assets_offset")),
    ("sb.signature_offset", "sb", lambda r, sb: [8, 16, 65536], _set("signature_offset")),
    ("sb._certificate_offset", "sb", lambda r, sb: [8, 24], _set("_certificate_offset")),
    ("sb._blob_offset", "sbblob", lambda r, sb: [sb._blob_offset + 8, sb._blob_offset + 4, 8, 0, 65528, 65536, 1 << 20, -8], _set("_blob_offset")),
    ("sb.tag", "sb", lambda r, sb: [0x90, 0x91, 256, -1], _set("tag")),
    ("sb.version", "sb", lambda r, sb: [0, 1, 2, 256], _set("version")),
    ("blob.key_identifier", "blob", lambda r, b: [0, (1 << 32) - 1, 1 << 32, (1 << 32) + 1, -1], _set("key_identifier")),
    ("blob._size", "blob", lambda r, b: [128, 192, 256, 100, 0, 512], _set("_size")),
    ("blob.mode", "blob", lambda r, b: [0, 255, 256, -1], _set("mode")),
    ("blob.dek", "blob", lambda r, b: [b.dek[:-1], b.dek + b"\0"], _set("dek")),
    ("blob.dek_keyblob", "blob", lambda r, b: [b.dek_keyblob[:-1], b.dek_keyblob + b"\0", b""], _set("dek_keyblob")),
    ("c.srk_set(signed)", "c", lambda r, c: [c.flags & ~3, c.flags], _set("flags")),
    ("count.images", "c", lambda r, c: [0, 1, 2], None),
    ("count.containers", "img", lambda r, a: [0, 1], None),
    ("none", "c", lambda r, c: [None] * 4, lambda o, v: None),
]


def verify_stream(cx, nper):
    """verify().has_errors of perturbed (unsigned) objects vs the model's range/consistency verifier."""
    from spsdk.exceptions import SPSDKError
    from spsdk.image.ahab.ahab_image import AHABImage
    ck, rng, s = cx.ck, cx.ck.rng, cx.s_verify
    import time as _t
    rows = list(cx.rows.values())
    n = 0
    acc = cx.ck.extra.setdefault("verify_range_seconds", {"build": 0.0, "real": 0.0, "model": 0.0})
    for name, target, vals, setter in [(p[0], p[1], p[2], p[3]) for p in PERTURB for _ in range(nper)]:
        i = 0
        while True:
            t0_ = _t.time()
            row = rng.choice(rows)
            tm = rng.choice(TARGET_MEMS)
            case = gen_case(rng, row, tm, True, {"srk": None, "ncont": rng.choice([1, 1, 2]), "nimg": rng.choice([1, 2])})
            for c in case["containers"]:
                c["srk"] = rng.choice(["ecc256", "ecc384"]) if name == "c.srk_set(signed)" else None
                if c["srk"]:
                    c["images"] = c["images"][:1]
                    c["blob"] = None
                    c["images"][0]["enc"] = False
                c["overfull"] = False
                if target in ("blob", "sbblob") and not c["blob"]:
                    c["blob"] = {"size": rng.choice([128, 192, 256]), "kid": rng.getrandbits(32), "dek": rng.randbytes(32).hex()}
                    c["images"][0]["enc"] = rng.random() < 0.5
                    c["images"][0]["size_align"] = None
                for im in c["images"]:
                    if im["enc"] and im["size_align"]:
                        im["size_align"] = None
                    im["size"] = min(im["size"], 2048)
            n += 1
            r = pyres(AHABImage.load_from_config, case_config(case, cx.scratch, f"v{n}"), [cx.scratch])
            if r[0] != "ok" or pyres(r[1].update_fields)[0] != "ok":
                s.expect(False, case, "a valid unsigned AHAB configuration cannot be built", r)
                break
            ahab = r[1]
            acc["build"] += _t.time() - t0_
            c = rng.choice(ahab.ahab_containers)
            e = rng.choice(c.image_array)
            obj = {"c": c, "e": e, "sb": c.signature_block, "sbblob": c.signature_block, "blob": c.signature_block.blob, "img": ahab}[target]
            values = vals(rng, obj)
            if i >= len(values):
                break
            value = values[i]
            i += 1
            try:
                if name == "count.images":
                    while len(c.image_array) < row["oem_images_max_cnt"] - 1 + value:
                        c.image_array.append(copy.copy(c.image_array[0]))
                        c.image_array[-1]._image_offset += 0x4000 * len(c.image_array)
                    c.length = c.header_length()
                elif name == "count.containers":
                    while len(ahab.ahab_containers) < min(row["containers_max_cnt"] + value, 4):
                        ahab.ahab_containers.append(ahab.ahab_containers[-1])
                else:
                    setter(obj, value)
            except Exception as exc:  # noqa: BLE001  (perturbation itself failed: not a case)
                ck.infra_notes.append(f"perturbation {name}: {type(exc).__name__}")
                continue
            inp = {"case": case, "perturb": name, "value": value if isinstance(value, int) else repr(value)[:80], "state": None}
            t1_ = _t.time()
            ov = pyres(lambda: ahab.image_info().validate())
            lines = vlines(case, ahab, ov[0] == "ok", row["allow_empty_hash"])
            inp["state"] = lines[1:]
            # container level: AHABContainer.verify() of every container (AHABImage.verify() itself raises struct.error for
            # values that cannot be packed, because it exports the containers to draw the image map)
            cres = [pyres(x.verify) for x in ahab.ahab_containers]
            rv = pyres(ahab.verify)
            cerrs = None if any(x[0] != "ok" for x in cres) else [e_ for x in cres for e_ in verifier_errors(x[1])]
            errs = verifier_errors(rv[1]) if rv[0] == "ok" else None
            s.note(inp, cls=name + ("/raises" if cerrs is None else "/error" if cerrs else "/clean") + ("" if rv[0] == "ok" else "+image-raises"))
            acc["real"] += _t.time() - t1_
            if _t.time() - t1_ > 1.0:
                acc.setdefault("slow", []).append([name, value if isinstance(value, int) else repr(value)[:40], round(_t.time() - t1_, 1)])
            if cx.drv is not None:
                t2_ = _t.time()
                ans = cx.drv.batch(lines + ["cverify", "verify"])
                acc["model"] += _t.time() - t2_

                def cmp(real_errs, model, what):
                    real_c = ("errors", sorted(set(x.rsplit("/", 1)[-1] for x in real_errs))) if real_errs else "clean"
                    if model == "ok:-":
                        model_c = "clean"
                    elif model.startswith("ok:") and real_errs:
                        model_c = real_c          # both report errors (record names are diagnostic only)
                    else:
                        model_c = ("errors(model)", model)
                    s.compare(inp, real_c, model_c, what)
                if cerrs is not None:
                    cmp(cerrs, ans[-2], "AHABContainer.verify() has errors iff the model's container verifier has")
                if errs is not None:
                    cmp(errs, ans[-1], "AHABImage.verify() has errors iff the model's verifier has")
            if name in LEGAL and cerrs is not None:
                s.expect(bool(cerrs) == (not LEGAL[name](value)), inp,
                         "AHABContainer.verify() does not report an out-of-range field value (or reports a value that fits its field)",
                         sorted(set(x.rsplit("/", 1)[-1] for x in cerrs)), "clean" if LEGAL[name](value) else "an ERROR record")
            errs = errs if errs is not None else (cerrs or [])
            # the property's own statement for the values that are LEGAL: in-range extreme values are never reported
            if name == "none":
                s.expect(not errs, inp, "a valid image is reported as erroneous by verify()", errs)


def fields_stream(cx):
    """create_flags / create_meta / get_container_offset / set_flags and the binary decoders on boundary and random values."""
    from spsdk.image.ahab.ahab_container import AHABContainer, AHABContainerV2
    from spsdk.image.ahab.ahab_data import AHABSignHashAlgorithmV1, AHABSignHashAlgorithmV2, create_chip_config
    from spsdk.image.ahab.ahab_iae import ImageArrayEntry, ImageArrayEntryV2
    from spsdk.image.ahab.ahab_srk import SRKTable
    ck, rng, s, drv = cx.ck, cx.ck.rng, cx.s_fields, cx.drv
    reqs = []
    for v, cls, henum in (("v1", ImageArrayEntry, AHABSignHashAlgorithmV1), ("v2", ImageArrayEntryV2, AHABSignHashAlgorithmV2)):
        for _ in range(ck.budget(120, 1500)):
            ty, core = rng.choice([0, 3, 15, rng.randrange(16)]), rng.choice([0, 1, 15, rng.randrange(16)])
            h = rng.choice(list(henum))
            enc, boot = rng.random() < 0.5, rng.choice([0, 1, 0x7FFF, rng.getrandbits(15)])
            r = pyres(cls.create_flags, ty, core, h, enc, boot)
            inp = ("flags", v, ty, core, h.tag, enc, boot)
            s.note(inp)
            reqs.append((inp, f"flags {v} {ty} {core} {h.tag} {int(enc)} {boot}", canon(r)))
            if r[0] == "ok":
                e = cls.__new__(cls)
                e.flags = r[1]
                ok = ((e.flags >> cls.FLAGS_TYPE_OFFSET) & 15 == ty and (e.flags >> cls.FLAGS_CORE_ID_OFFSET) & 15 == core
                      and (e.flags >> cls.FLAGS_HASH_OFFSET) & ((1 << cls.FLAGS_HASH_SIZE) - 1) == h.tag
                      and e.flags_is_encrypted == enc and e.flags_boot_flags == boot and e.flags < 2 ** 32)
                s.expect(ok, inp, "the fields of create_flags() are not recovered by the flag getters", r[1])
    for _ in range(ck.budget(150, 2000)):
        a, b, c = (rng.choice([0, 1, 1023, rng.getrandbits(10)]), rng.choice([0, 1023, rng.getrandbits(10)]), rng.choice([0, 255, rng.getrandbits(8)]))
        r = pyres(ImageArrayEntry.create_meta, a, b, c)
        inp = ("meta", a, b, c)
        s.note(inp)
        reqs.append((inp, f"meta {a} {b} {c}", canon(r)))
        s.expect(r[0] == "ok" and r[1] & 1023 == a and (r[1] >> 10) & 1023 == b and (r[1] >> 20) & 255 == c and r[1] < 2 ** 28, inp,
                 "create_meta() does not pack its three fields disjointly", r)
    for v, cls in (("v1", AHABContainer), ("v2", AHABContainerV2)):
        for ix in range(-2, 7):
            r = pyres(cls.get_container_offset, ix)
            inp = ("coffset", v, ix)
            s.note(inp)
            reqs.append((inp, f"coffset {v} {ix}", canon(r)))
            s.expect(r == ("ok", ix * cls.CONTAINER_SIZE) if 0 <= ix <= 3 else r[0] == "E:spsdk", inp, "containers are not at k * CONTAINER_SIZE", r)
    # container flag word from the configuration keys (v2: + check_all_signatures)
    for v, cls, fam in (("v1", AHABContainer, "mimxrt1189"), ("v2", AHABContainerV2, "mimx943")):
        chip = create_chip_config(fam)
        for srk_set in ("none", "nxp", "oem"):
            for gdet in ("disabled", "enabled_eleapi", "enabled"):
                for ca in (("default", "check_all_signatures") if v == "v2" else ("default",)):
                    for used, revoke in ((0, 0), (3, 15), (rng.randrange(4), rng.randrange(16))):
                        c = cls(chip)
                        cfgd = {"srk_set": srk_set, "used_srk_id": used, "srk_revoke_mask": revoke, "gdet_runtime_behavior": gdet}
                        if v == "v2":
                            cfgd["check_all_signatures"] = ca
                        r = pyres(c._load_from_config_flags, cfgd)
                        inp = ("cflags", v, srk_set, used, revoke, gdet, ca)
                        s.note(inp)
                        tags = ({"none": 0, "nxp": 1, "oem": 2}[srk_set], {"disabled": 0, "enabled_eleapi": 1, "enabled": 2}[gdet],
                                int(ca == "check_all_signatures"))
                        reqs.append((inp, f"cflags {v} {tags[0]} {used} {revoke} {tags[1]} {tags[2]}", "ok:%d" % c.flags if r[0] == "ok" else r[0]))
                        got = pyres(lambda: (c.flag_srk_set.tag, c.flag_used_srk_id, c.flag_srk_revoke_keys, c.flag_gdet_runtime_behavior.tag,
                                             c.flag_check_all_signatures.tag if v == "v2" else 0))
                        s.expect(r[0] == "ok" and got == ("ok", (tags[0], used, revoke, tags[1], tags[2])), inp,
                                 "the container flag getters do not return the configured SRK set / used SRK / revoke mask / GDET behaviour / "
                                 "check-all-signatures option", got, (tags[0], used, revoke, tags[1], tags[2]))
    # decoders on real and corrupted bytes
    for v, cls in (("v1", ImageArrayEntry), ("v2", ImageArrayEntryV2)):
        cc = AHABContainer(create_chip_config("mimxrt1189")).chip_config
        for _ in range(ck.budget(60, 600)):
            raw = rng.randbytes(rng.choice([128, 128, 128, 127, 130, 0, 64]))
            r = pyres(cls.parse, raw, cc)
            inp = ("iae", v, raw)
            s.note(inp)
            if r[0] == "ok":
                e = r[1]
                real = f"ok:{e._image_offset} {e.image_size} {e.load_address} {e.entry_point} {e.flags} {e.image_meta_data} {e.image_hash.hex()} "
                # the IV of a non-encrypted entry is dropped by the constructor (zeros): compare what was read for encrypted ones only
                reqs.append((inp, f"iae {v} {hexs(raw)}", (real, e.image_iv.hex() if e.flags_is_encrypted else None)))
            else:
                reqs.append((inp, f"iae {v} {hexs(raw)}", (r[0], None)))
    kd = keydir()
    from spsdk.crypto.utils import extract_public_key
    for kt in KEYTYPES:
        t = SRKTable()
        for i in range(4):
            t.add_record(extract_public_key(f"{kd}/{kt}/srk{i}_{kt}.pub"), srk_flags=rng.choice([0, 0x80]))
        t.update_fields()
        good = t.export()
        muts = [good, good + b"\0\0", good[:-1]]
        for _ in range(ck.budget(12, 120)):
            m = bytearray(good)
            pos = rng.choice([0, 1, 2, 3, 4, 5, 6, 7, 8, 9, 10, 11, 12, 13, 14, 15, rng.randrange(len(m))])
            m[pos] ^= 1 << rng.randrange(8)
            muts.append(bytes(m))
        for raw in muts:
            r = pyres(SRKTable.parse, raw)
            inp = ("srktable", kt, raw)
            s.note(inp, cls="srktable/" + r[0])
            if r[0] == "ok":
                tt = r[1]
                real = f"ok:{tt.length} " + " ".join(f"{x.version},{x.hash_algorithm.tag},{x.key_size},{x.srk_flags},{x.length},{x.crypto_params.hex() or '-'}"
                                                   for x in tt.srk_records)
                s.expect(raw != good or (tt == t and tt.export() == good), inp, "SRKTable.parse(export(t)) != t", None)
            else:
                real = "E:spsdk" if r[0] == "E:spsdk" else r[0]
            reqs.append((inp, f"srktable {hexs(raw)}", real))
    if drv is not None:
        ans = drv.batch([q[1] for q in reqs])
        for (inp, _l, real), got in zip(reqs, ans):
            if isinstance(real, tuple):          # IAE: IV compared only where the real object keeps it
                head, iv = real
                if head.startswith("ok:"):
                    gh, giv = got.rsplit(" ", 1) if " " in got else (got, "")
                    s.compare(inp, head.strip(), gh.strip())
                    if iv is not None:
                        s.compare(inp, iv, giv)
                else:
                    s.compare(inp, head, got)
            else:
                s.compare(inp, real, got)


# ------------------------------------------------------------------------------------------------ YAML + command line
def cli_stream(cx, picks):
    """The same configurations through the YAML file + `nxpimage ahab export / verify / parse` (click CliRunner):
    the file the CLI writes must be the API export (outside the randomised signature bytes) and satisfy the same
    independent check; `verify` must succeed on it and fail after a flipped image byte; `parse` must succeed and, for
    unsigned plain images, the configuration it writes must export to the identical file again."""
    import yaml
    from click.testing import CliRunner
    from spsdk.apps import nxpimage
    s = cx.s_cli
    runner = CliRunner()

    def invoke(args):
        r = runner.invoke(nxpimage.main, args, catch_exceptions=True)
        return r.exit_code, (r.output or "")[-300:], repr(r.exception)[:200] if r.exception else None
    for n, (case, info) in enumerate(picks):
        d = os.path.join(cx.scratch, f"cli{n}")
        os.makedirs(d, exist_ok=True)
        cfg = case_config(case, d, "c")
        cfg["output"] = os.path.join(d, "out.bin")
        cfg_path = os.path.join(d, "cfg.yaml")
        with open(cfg_path, "w", encoding="utf-8") as fh:
            yaml.safe_dump(cfg, fh)
        s.note(case, cls="signed" if any(c["srk"] for c in case["containers"]) else "plain")
        rc = invoke(["ahab", "export", "-c", cfg_path])
        s.expect(rc[0] == 0, case, "`nxpimage ahab export` fails on a valid configuration", rc)
        if not os.path.exists(cfg["output"]):
            continue
        with open(cfg["output"], "rb") as fh:
            cli_bin = fh.read()
        api_bin = info["binary"]
        row = info["row"]
        if cx.drv is not None:
            rep = cx.drv.ask(check_line(case["ver"], row, cli_bin, info["deks"]))
            independent_ok(cx, case, cli_bin, rep, None, report_to=s)
            mask = bytearray(len(cli_bin))
            if rep.startswith("ok:"):
                try:
                    reps_ = parse_report(rep)
                    [int(r["base"]) + int(r["sbo"]) + int(r["cert"]) for r in reps_]
                except (KeyError, ValueError, IndexError):
                    reps_ = []
                for r, cc_ in zip(reps_, case["containers"]):
                    if "sigdata" in r:
                        so, sl = (int(x) for x in r["sigdata"].split(":"))
                        mask[so: so + sl] = b"\x01" * sl
                    if cc_.get("cert") and int(r["cert"]):                     # the certificate is signed anew as well
                        co = int(r["base"]) + int(r["sbo"]) + int(r["cert"])
                        clen, csig = struct.unpack_from("<HxH", cli_bin, co + 1)
                        mask[co + csig + 8: co + clen] = b"\x01" * (clen - csig - 8)
            same = len(cli_bin) == len(api_bin) and all(m or a == b for a, b, m in zip(cli_bin, api_bin, mask))
            s.expect(same, case, "the file written by `nxpimage ahab export` differs from AHABImage.export() outside the signature bytes",
                     first_diff(cli_bin.hex(), api_bin.hex()))
        blobs = [c["blob"] for c in case["containers"] if c["blob"]]
        dek_args = ["-k", blobs[0]["dek"][: blobs[0]["size"] // 4]] if len(blobs) == 1 else []
        if len(blobs) <= 1:
            rv = invoke(["ahab", "verify", "-f", case["family"], "-b", cfg["output"], "-p"] + dek_args)
            s.expect(rv[0] == 0, case, "`nxpimage ahab verify` rejects an image exported by `nxpimage ahab export`", rv)
        # a corrupted image byte must make `verify` fail
        first = info["ahab"].ahab_containers[0].image_array[0]
        bad = bytearray(cli_bin)
        bad[first.image_offset] ^= 0x10
        bad_path = os.path.join(d, "bad.bin")
        with open(bad_path, "wb") as fh:
            fh.write(bad)
        rb = invoke(["ahab", "verify", "-f", case["family"], "-b", bad_path, "-p"] + dek_args)
        s.expect(rb[0] != 0, case, "`nxpimage ahab verify` accepts an image with a corrupted image byte", rb)
        rp = invoke(["ahab", "parse", "-f", case["family"], "-b", cfg["output"], "-o", os.path.join(d, "parsed")])
        pc = os.path.join(d, "parsed", "parsed_config.yaml")
        s.expect(rp[0] == 0, case, "`nxpimage ahab parse` fails on an exported image", rp)
        if not os.path.exists(pc):
            continue
        plain = not any(c["srk"] or c["blob"] for c in case["containers"])
        # (serial_downloader: the configuration cannot carry image offsets - load_from_config forces them to 0 - so gaps of the
        # original layout are not reproducible from the parsed configuration; not part of the property)
        if plain and case["tm"] != "serial_downloader":
            with open(pc, encoding="utf-8") as fh:
                pcfg = yaml.safe_load(fh)
            pcfg["output"] = os.path.join(d, "again.bin")
            pcfg["target_memory"] = case["tm"] if case["tm"] != "nor" else "standard"
            pc2 = os.path.join(d, "parsed", "again.yaml")
            with open(pc2, "w", encoding="utf-8") as fh:
                yaml.safe_dump(pcfg, fh)
            r2 = invoke(["ahab", "export", "-c", pc2])
            again = b""
            if os.path.exists(pcfg["output"]):
                with open(pcfg["output"], "rb") as fh:
                    again = fh.read()
            s.expect(r2[0] == 0 and again == cli_bin, (case, "reexport"),
                     "export(config written by `nxpimage ahab parse`) is not the parsed file", (r2, first_diff(again.hex(), cli_bin.hex())))


TEMPLATE_INT_KEYS = ["load_address", "entry_point", "boot_flags", "meta_data_start_cpu_id", "meta_data_mu_cpu_id",
                     "meta_data_start_partition_id"]


def template_stream(cx, n_variants):
    """Template image entries (`atf: file`, `tee: file`, `spl: file` ...): every value the configuration writes next to the
    template key - INCLUDING 0 / False, the values that differ most from the database defaults - must be the value in the
    exported image-array entry; every value it does not write is the database default.  The expected words are computed from
    the configuration, the database rows and the documented bit layout; they are read back from the binary at the documented
    offsets; and the same container written as a general `image_path` entry with the effective values must export to the
    identical file."""
    from spsdk.image.ahab.ahab_iae import ImageArrayEntryTemplates
    from spsdk.image.ahab.ahab_image import AHABImage
    from spsdk.utils.database import DatabaseManager, get_db
    s, rng = cx.s_template, cx.ck.rng
    simple = [c for c in ImageArrayEntryTemplates.__subclasses__() if "create_image_array_entry" not in c.__dict__]
    fams = sorted({r["family"] for r in cx.rows.values()})
    n = 0
    for fam in fams:
        row = cx.rows.get((fam, "latest"))
        if row is None:
            continue
        db = get_db(fam)

        def dflt(key, name, default=None):
            try:
                return db.get_value(DatabaseManager.AHAB, f"{key}_{name}", default=default)
            except Exception:  # noqa: BLE001
                return default
        for tcls in simple:
            key = tcls.KEY
            if dflt(key, "load_address") is None or dflt(key, "core_id") is None:
                continue
            for variant in range(n_variants):
                n += 1
                fn = os.path.join(cx.scratch, f"t{n}.bin")
                size = rng.choice([16, 511, 512, 1024, 2048])
                with open(fn, "wb") as fh:
                    fh.write(img_bytes(n, size))
                over = {}
                if variant == 0:                                            # every numeric default overridden by 0
                    over = {k: 0 for k in TEMPLATE_INT_KEYS if k != "load_address"}
                    over["is_encrypted"] = False
                elif variant == 1:                                          # nothing overridden: the database defaults
                    over = {}
                else:
                    for k in TEMPLATE_INT_KEYS:
                        if rng.random() < 0.5:
                            lim = {"boot_flags": 0x7FFF, "meta_data_start_cpu_id": 1023, "meta_data_mu_cpu_id": 1023,
                                   "meta_data_start_partition_id": 255}.get(k, 2 ** 64 - 1)
                            over[k] = rng.choice([0, 0, 1, lim, rng.randrange(lim + 1)])
                    if rng.random() < 0.5:
                        over["hash_type"] = rng.choice(HASHES)
                    if rng.random() < 0.3:
                        over["is_encrypted"] = False
                entry = {key: fn}
                entry.update(over)
                inp = {"family": fam, "template": key, "size": size, "overrides": over}
                s.note(inp, nontrivial=True, cls=f"{fam}/{key}/" + ("zeros" if variant == 0 else "defaults" if variant == 1 else "mixed"))
                # ---- expectation: configuration value if written, else database default (entry point defaults to the load address)
                eff = {}
                for k in TEMPLATE_INT_KEYS:
                    d_ = dflt(key, k, 0 if k != "load_address" else None)
                    eff[k] = over[k] if k in over else (int(d_, 0) if isinstance(d_, str) else d_)
                if "entry_point" not in over and dflt(key, "entry_point") is None:
                    eff["entry_point"] = eff["load_address"]
                eff["hash_type"] = over.get("hash_type", str(dflt(key, "hash_type", "SHA384")).lower())
                eff["is_encrypted"] = over.get("is_encrypted", bool(dflt(key, "is_encrypted", False)))
                core_label = dflt(key, "core_id")
                core = next((t for t, l in row["core_ids"] if l == core_label), None)
                ty_label = dflt(key, "image_type", "executable")
                ty = next((t for t, l in (valid_image_types(row, core) or [[3, "executable"]]) if l == ty_label), None) if core is not None else None
                if core is None or ty is None:
                    s.expect(False, inp, "harness: database default core id / image type of the template not found in the chip rows", (core_label, ty_label))
                    continue
                cont = {"srk_set": "none", "used_srk_id": 0, "srk_revoke_mask": 0, "fuse_version": 0, "sw_version": 0}
                cfg = {"family": fam, "revision": "latest", "target_memory": "standard", "output": "unused.bin",
                       "containers": [{"container": dict(cont, images=[entry])}]}
                r = pyres(AHABImage.load_from_config, cfg, [cx.scratch])
                if not s.expect(r[0] == "ok", inp, "a template image entry with legal overrides is refused by load_from_config", r):
                    continue
                ahab = r[1]
                ru = pyres(ahab.update_fields)
                rx = pyres(ahab.export) if ru[0] == "ok" else ru
                if not s.expect(rx[0] == "ok", inp, "an image with a template entry cannot be exported", rx):
                    continue
                binary = bytes(rx[1])
                v2 = binary[0] == 2
                off, isz, load, entry_pt, flags, meta = struct.unpack_from("<LLQQLL", binary, 0x10)
                want_flags = (ty | core << 4 | {"sha256": 0, "sha384": 1, "sha512": 2}[eff["hash_type"]] << 8
                              | int(eff["is_encrypted"]) << (12 if v2 else 11) | eff["boot_flags"] << 16)
                want_meta = eff["meta_data_start_cpu_id"] | eff["meta_data_mu_cpu_id"] << 10 | eff["meta_data_start_partition_id"] << 20
                s.expect((load, entry_pt, flags, meta) == (eff["load_address"], eff["entry_point"], want_flags, want_meta), inp,
                         "the image-array entry of a template image does not carry the values of the configuration / the database defaults "
                         "(load address, entry point, flag word, meta data read from the binary at 0x18/0x20/0x28/0x2C)",
                         {"load": load, "entry": entry_pt, "flags": flags, "meta": meta},
                         {"load": eff["load_address"], "entry": eff["entry_point"], "flags": want_flags, "meta": want_meta})
                # ---- the same container as a general entry with the effective values
                e0 = ahab.ahab_containers[0].image_array[0]
                gen = {"image_path": fn, "image_offset": int(dflt(key, "image_offset", tcls.DEFAULT_OFFSET) or 0),
                       "load_address": eff["load_address"], "entry_point": eff["entry_point"], "image_type": ty_label, "core_id": core_label,
                       "is_encrypted": eff["is_encrypted"], "boot_flags": eff["boot_flags"],
                       "meta_data_start_cpu_id": eff["meta_data_start_cpu_id"], "meta_data_mu_cpu_id": eff["meta_data_mu_cpu_id"],
                       "meta_data_start_partition_id": eff["meta_data_start_partition_id"], "hash_type": eff["hash_type"],
                       "gap_after_image": int(dflt(key, "gap_after_image", 0) or 0)}
                if e0.image_size_alignment:
                    gen["image_size_alignment"] = e0.image_size_alignment
                cfg2 = {"family": fam, "revision": "latest", "target_memory": "standard", "output": "unused.bin",
                        "containers": [{"container": dict(cont, images=[gen])}]}
                r2 = pyres(AHABImage.load_from_config, cfg2, [cx.scratch])
                b2 = None
                if r2[0] == "ok" and pyres(r2[1].update_fields)[0] == "ok":
                    rx2 = pyres(r2[1].export)
                    b2 = bytes(rx2[1]) if rx2[0] == "ok" else None
                s.expect(b2 == binary, inp, "a template entry and the general entry spelling out the same effective values export to different files",
                         r2[0] if b2 is None else first_diff(b2.hex(), binary.hex()))
                # ---- and the model exports the same file from the loaded object
                if cx.drv is not None:
                    case = {"family": fam, "revision": "latest", "tm": "standard", "ver": 2 if v2 else 1,
                            "containers": [{"srk": None, "images": [{"seed": n, "size": size, "offset": 0}]}]}
                    lines = [f"new {'v2' if v2 else 'v1'} {fam} latest standard", f"cont {ahab.ahab_containers[0].flags} 0 0",
                             f"img {hexs(img_bytes(n, size))} {e0._image_offset if False else int(dflt(key, 'image_offset', tcls.DEFAULT_OFFSET) or 0)} "
                             f"{eff['load_address']} {eff['entry_point']} {want_flags} {want_meta} {gen['gap_after_image']} {e0.image_size_alignment or 0}"]
                    ans = cx.drv.batch(lines + ["export"])
                    real_c = "ok:" + binary.hex()
                    s.compare((inp, "model"), hashlib.sha256(real_c.encode()).hexdigest(), hashlib.sha256(ans[-1].encode()).hexdigest(),
                              "the model, fed with the EXPECTED words of the template entry, exports another file than SPSDK")
                    del case


def cert_stream(cx):
    """Chain of trust SRK -> certificate -> container: configurations that break one link must be refused; the stand-alone
    certificate round-trips and its parser refuses inconsistent length / permission fields."""
    from spsdk.exceptions import SPSDKError
    from spsdk.image.ahab.ahab_certificate import AhabCertificate
    from spsdk.image.ahab.ahab_image import AHABImage
    s, rng = cx.s_cert, cx.ck.rng
    rows = sorted((r for r in cx.rows.values() if r.get("cert")), key=lambda r: (r["revision"] != "latest", r["family"], r["revision"]))
    if not rows:
        return
    kd = keydir()
    n = 0
    for kt in KEYTYPES:
        row = rows[n % len(rows)]
        case = gen_case(rng, row, "standard", True, {"ver": 2, "srk": kt, "cert": True, "ncont": 1, "nimg": 1})
        case["containers"][0]["cert"]["perm"] = ["container", "debug"]
        case["containers"][0]["blob"] = None
        for im in case["containers"][0]["images"]:
            im["enc"] = False
        used = case["containers"][0]["used"]
        other_kt = "ecc384" if kt != "ecc384" else "ecc256"
        variants = [
            ("good", None, None, True),
            ("the certificate may sign containers but the container is signed by the SRK itself",
             {"signing_key": f"{kd}/{kt}/srk{used}_{kt}.pem"}, None, False),
            ("the certificate has no container permission but the container is signed by the certificate's key",
             None, {"permissions": ["debug"]}, False),
            ("the certificate is signed by another SRK than the used one",
             None, {"signing_key_0": f"{kd}/{kt}/srk{(used + 1) % 4}_{kt}.pem"}, False),
            ("the certificate's key is of another type than the SRKs",
             {"signing_key": f"{kd}/{other_kt}/imgkey_{other_kt}.pem"}, {"public_key_0": f"{kd}/{other_kt}/imgkey_{other_kt}.pub"}, False),
            ("good, without UUID and permission data", None, {"uuid": None, "permission_data": None}, True),
        ]
        good_cert = None
        for what, cpatch, certpatch, want_ok in variants:
            n += 1
            inp = {"case": case, "variant": what}
            s.note(inp, nontrivial=True, cls=f"{kt}/{'good' if want_ok else 'broken-link'}")
            cfg = case_config(case, cx.scratch, f"ct{n}")
            cc = cfg["containers"][0]["container"]
            if cpatch:
                cc.update(cpatch)
            if certpatch:
                with open(cc["certificate"], encoding="utf-8") as fh:
                    cj = json.load(fh)
                for k_, v_ in certpatch.items():
                    if v_ is None:
                        cj.pop(k_, None)
                    else:
                        cj[k_] = v_
                with open(cc["certificate"], "w", encoding="utf-8") as fh:
                    json.dump(cj, fh)
            r = pyres(AHABImage.load_from_config, cfg, [cx.scratch])
            if r[0] != "ok":
                s.expect(not want_ok, inp, "a valid configuration with a certificate is refused by load_from_config", r)
                continue
            ahab = r[1]
            ru = pyres(ahab.update_fields)
            rv = pyres(ahab.verify) if ru[0] == "ok" else ru
            errs = verifier_errors(rv[1]) if rv[0] == "ok" else [canon(rv)]
            rx = pyres(ahab.export) if ru[0] == "ok" else ru
            if want_ok:
                s.expect(not errs and rx[0] == "ok", inp, "a valid certificate chain is reported as erroneous", (errs[:3], rx[0]))
                if rx[0] == "ok":
                    good_cert = bytes(ahab.ahab_containers[0].signature_block.certificate.export())
                    a2 = AHABImage(case["family"], case["revision"], case["tm"])
                    rp2 = pyres(a2.parse, bytes(rx[1]))
                    s.expect(rp2[0] == "ok" and a2.ahab_containers[0].signature_block == ahab.ahab_containers[0].signature_block
                             and a2.ahab_containers[0].signature_block.certificate == ahab.ahab_containers[0].signature_block.certificate,
                             inp, "parse(export(x)) != x for a container with a certificate", rp2[0])
            else:
                s.expect(bool(errs) and rx[0] != "ok", inp, "a broken chain of trust (" + what + ") is NOT refused by verify()/export()",
                         (errs[:3], rx[0]))
        if good_cert is None:
            continue
        # ---- the stand-alone certificate
        inp = {"certificate": good_cert.hex()}
        s.note(inp, nontrivial=True, cls=f"{kt}/standalone")
        rp = pyres(AhabCertificate.parse, good_cert)
        if s.expect(rp[0] == "ok", inp, "AhabCertificate.parse refuses an exported certificate", rp):
            s.expect(bytes(rp[1].export()) == good_cert, inp, "AhabCertificate: export(parse(x)) != x", None)
        (length,) = struct.unpack_from("<H", good_cert, 1)
        for d in (8, -8, 1):
            bad = bytearray(good_cert)
            struct.pack_into("<H", bad, 1, length + d)
            inp = {"certificate": good_cert.hex(), "length_field": length + d}
            s.note(inp, nontrivial=True, cls=f"{kt}/length")
            rp = pyres(AhabCertificate.parse, bytes(bad) + bytes(16))
            s.expect(rp[0] != "ok", inp, "AhabCertificate.parse accepts a certificate whose length field contradicts its content", rp[0])
            if cx.drv is not None:
                s.compare((inp, "parse"), "none", cx.drv.ask("certparse " + hexs(bytes(bad) + bytes(16))),
                          "the certificate parser model accepts a wrong length field")
        bad = bytearray(good_cert)
        bad[6] ^= 0x10
        inp = {"certificate": good_cert.hex(), "inverted_permissions": bad[6]}
        s.note(inp, nontrivial=True, cls=f"{kt}/perm")
        rp = pyres(AhabCertificate.parse, bytes(bad))
        s.expect(rp[0] != "ok", inp, "AhabCertificate.parse accepts permissions whose complement field does not match", rp[0])
        if cx.drv is not None:
            cert_model_compare(cx, rp=pyres(AhabCertificate.parse, good_cert), good=good_cert)


def cert_model_compare(cx, rp, good):
    """the certificate model (Model/AhabCert.lean) against the real certificate: export bytes, signed part, parse"""
    if rp[0] != "ok":
        return
    c, s = rp[1], cx.s_cert
    k = c.public_key_0
    line = (f"certenc {c._permissions} {hexs(c.permission_data)} {c.fuse_version} {hexs(c._uuid or b'')} {k.version} {k.hash_algorithm.tag} "
            f"{k.key_size} {k.srk_flags} {k.srk_data.srk_id} {hexs(k.srk_data.data)} {hexs(c.signature_0.signature_data)}")
    got = cx.drv.ask(line)
    inp = {"certificate": good.hex()}
    s.compare((inp, "export"), "ok:" + good.hex() + " signed=" + bytes(c.get_signature_data()).hex(), got,
              "the certificate model exports other bytes / another signed part than AhabCertificate")
    got = cx.drv.ask("certparse " + hexs(good + bytes(8)))
    real = (f"ok:{c.length},{c.signature_offset},{c._permissions},{hexs(c.permission_data)},{c.fuse_version},{hexs(c._uuid or b'')},"
            f"{k.version},{k.hash_algorithm.tag},{k.key_size},{k.srk_flags},{hexs(k.crypto_params)},{k.srk_data.srk_id},{hexs(k.srk_data.data)},"
            f"{hexs(c.signature_0.signature_data)}")
    s.compare((inp, "parse"), real, got, "the certificate parser model reads another object than AhabCertificate.parse")


SPEC_OPS = {"check"}      # `check` evaluates Spec/AhabRom.lean (hand-transcribed format) + Crypto/ only: no Model/, no Generated/


def run(ck):
    logging.disable(logging.CRITICAL)
    ck.spec_ops = set(SPEC_OPS)
    ck.lean_obligations(generated=["PyFuns", "AhabConsts", "AhabVerifierRecs"])
    rows_l = crosscheck_generated(ck)
    drv = ck.driver()
    cx = Ctx()
    cx.ck, cx.drv, cx.rows = ck, drv, {(r["family"], r["revision"]): r for r in rows_l}
    cx.scratch = os.environ.get("VERIF_SCRATCH") or "/tmp"
    cx.dist = {"containers": {}, "images": {}, "srk": {}, "certificates": 0}
    cx.flips = 0
    cx.finding_for_tamper = finding_for_tamper
    mark_cert_rows(rows_l)
    rng = ck.rng
    ck.assume("signatures are produced by OpenSSL through spsdk.crypto; the model takes the real signature bytes as input and the oracle "
              "verifies them with `cryptography` called directly (RSA-PSS salt = digest length, raw r||s ECDSA)",
              "SHA-2 and AES-CBC of the model/independent checker are the Lean reference implementations (validated by C09 each run)",
              "second (PQC) signature, second certificate key, SM2 keys are outside the model; for version-2 containers with more than one "
              "SRK table the SRK assets are an opaque block whose placement and coverage are checked",
              "Python bytearray slice assignment semantics in AHABContainer.export / SignatureBlock.export (modelled as concatenation; "
              "compared byte for byte on every case)",
              "BinaryImage export/validate = the C16 model (Model/BinImage.lean)")
    cx.s_export = ck.stream("export", "every (family, revision incl. latest) x target memory {standard,nand_2k,nand_4k,serial_downloader,nor} once "
                            "(1..3 containers x 1..4(8) images, sizes {1,align-1,align,align+1,random<=32 KiB}, explicit/automatic offsets, "
                            "all core ids/image types/hash types of the chip, boot flags/meta at limits, SRK none/ECC-256/384/521/RSA-2048, "
                            "every used_srk_id, revoke masks 0..15, fuse/sw versions at limits, optional blob + encrypted images) plus random "
                            "extra cases; non-trivial = distinct configuration")
    cx.s_tamper = ck.stream("tamper", "single-bit flips over authenticated bytes of exported images (signed range incl. signature, image bytes, "
                            "hash fields of unsigned containers, signed part and signature bytes of certificates; sampled + first/last byte of "
                            "each class + every bit of one signed container header); non-trivial = distinct (image, bit)")
    cx.s_verify = ck.stream("verify_range", "one attribute of a valid unsigned image at a time set to legal extreme values and to the first illegal ones "
                            "(container flags/sw/fuse/length/tag/version, entry offset/size/load/entry/meta/flags/hash, signature-block offsets, "
                            "blob fields, image and container counts): verify() reports an error iff the model's verifier does; "
                            "non-trivial = distinct perturbed state")
    cx.s_fields = ck.stream("fields", "create_flags (v1/v2, every hash tag), create_meta, get_container_offset -2..6, ImageArrayEntry.parse on random "
                            "blocks, SRKTable.parse on exported tables of the four key types and their single-bit corruptions; non-trivial = distinct input")
    cx.s_cert = ck.stream("cert", "chain of trust SRK -> certificate -> container on the certificate-capable families (ECC-256/384/521, RSA-2048): the "
                          "good chain (with and without UUID / permission data) and four broken links (container signed by the SRK despite the permission, by the certificate key without the "
                          "permission, certificate signed by another SRK, certificate key of another type), the stand-alone certificate "
                          "(parse/export round trip, wrong length field +8/-8/+1, wrong complement of the permissions) and the certificate "
                          "model (export bytes, signed part, parse); non-trivial = distinct input")
    quick = ck.quick
    _QUICK[0] = bool(quick)
    import time as _t
    tm_ = {"start": _t.time()}
    fields_stream(cx)
    tm_["fields"] = _t.time()
    cert_stream(cx)
    tm_["cert"] = _t.time()
    cx.s_template = ck.stream("template", "template image entries (atf, tee, spl, upower, oei_tcm, system_manager, cortex_m* apps) of every family that has "
                              "them: all numeric defaults overridden by 0 / False, no override, random overrides (0, 1, field limits): the "
                              "words in the binary = configuration value if written else database default; identical file from the equivalent "
                              "general entry; model export from the expected words; non-trivial = distinct (family, template, overrides)")
    template_stream(cx, ck.budget(4, 40))
    tm_["template"] = _t.time()
    verify_stream(cx, ck.budget(3, 12))
    tm_["verify_range"] = _t.time()
    combos = [(r, tm) for r in rows_l for tm in TARGET_MEMS]
    rng.shuffle(combos)
    extra = ck.budget(24, 1500)
    n = 0
    infos = []
    for row, tm in combos:
        case = gen_case(rng, row, tm, quick)
        info = run_case(cx, case, f"e{n}")
        n += 1
        if info:
            infos.append((case, info))
    cert_rows = [r for r in rows_l if r.get("cert")]
    for i in range(ck.budget(10, 60) if cert_rows else 0):          # certificates: every key type, with and without blob
        row = cert_rows[i % len(cert_rows)]
        case = gen_case(rng, row, rng.choice(TARGET_MEMS), quick, {"ver": 2, "srk": KEYTYPES[i % len(KEYTYPES)], "cert": True})
        info = run_case(cx, case, f"c{n}")
        n += 1
        if info:
            infos.append((case, info))
    for _ in range(extra):
        row, tm = rng.choice(combos)
        force = {}
        case = gen_case(rng, row, tm, quick, force)
        info = run_case(cx, case, f"x{n}")
        n += 1
        if info:
            infos.append((case, info))
    tm_["export"] = _t.time()
    # ---------------- YAML file + command line for a few of the configurations
    cx.s_cli = ck.stream("cli", "a sample of the exported configurations (revision 'latest') again through a YAML file and "
                         "`nxpimage ahab export / verify / parse` (click CliRunner); non-trivial = distinct configuration")
    cli_pool = [ci for ci in infos if ci[0]["revision"] == "latest" and ci[1].get("check_ok", True)
                and not f_encrypted_size_alignment(ci[0], ci[1]["row"])]
    plain_first = sorted(cli_pool, key=lambda ci: any(c["srk"] or c["blob"] for c in ci[0]["containers"]))
    n_cli = ck.budget(6, 80)
    signed_pool = [ci for ci in cli_pool if any(c["srk"] for c in ci[0]["containers"])]
    # a version-2 signed container (one SRK table) and a container with a certificate are always among the picks
    first_ = ([ci for ci in signed_pool if ci[0]["ver"] == 2 and not any(c.get("cert") for c in ci[0]["containers"])][:1]
              + [ci for ci in signed_pool if any(c.get("cert") for c in ci[0]["containers"])][:1])
    signed_pool = first_ + [ci for ci in signed_pool if not any(ci is f_ for f_ in first_)]
    cli_stream(cx, plain_first[: n_cli // 3] + signed_pool[: n_cli - n_cli // 3])
    tm_["cli"] = _t.time()
    # ---------------- tampering
    if True:
        per = ck.budget(8, 18)
        # (without a usable checker every exported image is a candidate; with it, the ones it accepts)
        have_verdicts = any(ci[1].get("check_ok") is not None for ci in infos)
        pool = [ci for ci in infos if (ci[1].get("check_ok") if have_verdicts else not f_encrypted_size_alignment(ci[0], ci[1]["row"]))]
        rng.shuffle(pool)
        pool.sort(key=lambda ci: -sum(1 for c in ci[0]["containers"] if c["srk"]))      # signed ones first
        for n_t, (case, info) in enumerate(pool[: ck.budget(28, 500)]):
            extra_picks = []
            if n_t < ck.budget(1, 12) and case["containers"][0]["srk"]:
                # systematic part: every bit of the 16-byte header of the first (signed) container
                extra_picks = [("signed", p_, b_) for p_ in range(16) for b_ in range(8)]
            tamper(cx, case, info, per, extra_picks=extra_picks)
    tm_["tamper"] = _t.time()
    ks = list(tm_)
    ck.extra["seconds_per_stream"] = {ks[i]: round(tm_[ks[i]] - tm_[ks[i - 1]], 1) for i in range(1, len(ks))}
    ck.extra["distribution"] = cx.dist
    ck.extra["flips"] = cx.flips
    ck.extra["signature_discharger"] = "cryptography (direct), key files of the configuration"


def replay(ck, data):
    logging.disable(logging.CRITICAL)
    ck.spec_ops = set(SPEC_OPS)
    ck.lean_obligations(generated=["PyFuns", "AhabConsts", "AhabVerifierRecs"])
    rows_l = crosscheck_generated(ck)
    cx = Ctx()
    cx.ck, cx.drv, cx.rows = ck, ck.driver(), {(r["family"], r["revision"]): r for r in rows_l}
    cx.scratch = os.environ.get("VERIF_SCRATCH") or "/tmp"
    cx.dist = {"containers": {}, "images": {}, "srk": {}}
    cx.flips = 0
    cx.finding_for_tamper = finding_for_tamper
    mark_cert_rows(rows_l)
    cx.s_cert = ck.stream("cert", "replay: the complete certificate stream")
    cx.s_export = ck.stream("export", "replay of the recorded configurations")
    cx.s_tamper = ck.stream("tamper", "replay of the recorded flips (+ a fresh sample on the same image)")
    stream = data.get("stream")
    if stream in ("verify_range", "fields") or data.get("kind") != "concrete-failure-on-implementation":
        # perturbation / small-function streams are cheap and deterministic for a seed: run them again completely
        cx.s_verify = ck.stream("verify_range", "replay: the complete perturbation sweep")
        cx.s_fields = ck.stream("fields", "replay: the complete small-function sweep")
        fields_stream(cx)
        verify_stream(cx, 1)
    if stream == "cert" or data.get("kind") != "concrete-failure-on-implementation":
        cert_stream(cx)
    cx.s_template = ck.stream("template", "replay: the template stream (first variants)")
    if stream == "template" or data.get("kind") != "concrete-failure-on-implementation":
        template_stream(cx, 4)
    for i, c in enumerate(data.get("cases", []) + [{"input": d.get("input")} for d in data.get("disagreements", [])]):
        inp = c.get("input")
        if isinstance(inp, list) and inp and isinstance(inp[0], dict):      # (case, op, k) of a compared query
            inp = inp[0]
        case = inp.get("case", inp) if isinstance(inp, dict) else None
        if not isinstance(case, dict) or "containers" not in case:
            continue
        case = json.loads(json.dumps(case), object_hook=lambda d: int(d["int"]) if set(d) == {"int"} else d)
        info = run_case(cx, case, f"r{i}")
        if info and isinstance(inp, dict) and "flip" in inp:
            tamper(cx, case, info, 6, extra_picks=[(inp.get("class", "signed"), inp["flip"][0], inp["flip"][1])])
