"""C02 - Master Boot Image: signatures, CRC, HMAC and encryption pass the ROM checks.

Obligations   : Properties/C02.lean (ROM acceptance of the model's export, CRC / signed ranges, constants of the independent
                ROM spec = generated constants).
Oracle        : the compiled INDEPENDENT ROM model (Spec/MbiRom.lean, driver drv_c02) is applied to the bytes the REAL code
                exports for every protected row of the class table; its asymmetric obligations (X.509 chain, RSA / ECDSA
                signatures) are discharged here with `cryptography` directly (never through spsdk.crypto); the fused RKTH handed
                to the ROM is recomputed here from the raw public keys.  Then single-bit corruptions at sampled positions of
                every region must flip the verdict (this confirms that the reference verifier covers each region).
Shares the case generator / object builder of C01 (harness/props/C01.py).
"""
from __future__ import annotations

import hashlib
import os
import random
import struct

from vcore import Infra, pyres

from props import C01 as C1

FLIPS_PER_REGION = 2


# ---------------------------------------------------------------------------------------------- independent key material facts
def rsa_key_hash(cert_der: bytes) -> bytes:
    from cryptography import x509
    pn = x509.load_der_x509_certificate(cert_der).public_key().public_numbers()
    n = pn.n.to_bytes((pn.n.bit_length() + 7) // 8, "big")
    e = pn.e.to_bytes((pn.e.bit_length() + 7) // 8, "big")
    return hashlib.sha256(n + e).digest()


def rkth_v1(vid) -> bytes:
    roots = C1.RSA_VARIANTS[vid][0]
    table = b"".join(rsa_key_hash(C1._file(r)) if r is not None else bytes(32) for r in roots)
    table += bytes(32) * (4 - len(roots))
    return hashlib.sha256(table).digest()


def ecc_pub_raw(pem: bytes) -> bytes:
    from cryptography import x509
    from cryptography.hazmat.primitives import serialization
    k = x509.load_pem_x509_certificate(pem).public_key() if b"BEGIN CERTIFICATE" in pem else serialization.load_pem_public_key(pem)
    pn = k.public_numbers()
    cs = (k.curve.key_size + 7) // 8
    return pn.x.to_bytes(cs, "big") + pn.y.to_bytes(cs, "big")


def key_tokens(case) -> tuple:
    """(rot type name, key tokens for the compiled Spec.rotkh): raw key NUMBERS of the configured root keys"""
    from cryptography import x509
    ct = case["cert"]
    if ct["kind"] == "v1":
        toks = []
        for r in C1.RSA_VARIANTS[ct["id"]][0]:
            pn = x509.load_der_x509_certificate(C1._file(r)).public_key().public_numbers()
            toks.append(f"r:{pn.n}:{pn.e}")
        return "cert_block_1", ",".join(toks)
    toks = []
    for i in range(ct["n"]):
        pem = C1._file(C1.KC_ECC / f"ec_secp{ct['curve']}r1_cert{i}.pem")
        pn = x509.load_pem_x509_certificate(pem).public_key().public_numbers()
        toks.append(f"e:{ct['curve']}:{pn.x}:{pn.y}")
    return "cert_block_21", ",".join(toks)


def rkth_v21(spec) -> bytes:
    cv = spec["curve"]
    h = hashlib.sha256 if cv == 256 else hashlib.sha384
    hs = [h(ecc_pub_raw(C1._file(C1.KC_ECC / f"ec_secp{cv}r1_cert{i}.pem"))).digest() for i in range(spec["n"])]
    return hs[0] if len(hs) == 1 else h(b"".join(hs)).digest()


def cert_v21_reference(spec, cb: bytes):
    """Python reference for a certificate block v2.1 (format description; independent of SPSDK's classes, of the Lean model
    and of the ROM driver): the chain  configured root[used] -> (ISK certificate) .  Returns a list of failure triples.
      * the root key record names the CONFIGURED root index and carries the configured root's public key,
      * that key hashes to table[index] (root sets of more than one key),
      * with an ISK certificate: its signature verifies under the CARRIED root key over record || ISK-up-to-signature,
        and the certificate holds the configured ISK public key (the image signature under it is the ROM's obligation)."""
    from cryptography import x509
    from cryptography.exceptions import InvalidSignature
    from cryptography.hazmat.primitives import hashes
    from cryptography.hazmat.primitives.asymmetric import ec, utils
    out = []
    cv, n, used = spec["curve"], spec["n"], spec["used"]
    if len(cb) < 16 or cb[:4] != b"chdr":
        return [("certificate block v2.1: header magic", cb[:4].hex(), b"chdr".hex())]
    flags = struct.unpack_from("<I", cb, 12)[0]
    ca, idx, count, code = bool(flags & 0x80000000), (flags >> 8) & 0xF, (flags >> 4) & 0xF, flags & 0xF
    cs = {1: 32, 2: 48}.get(code)
    if cs is None or cs != {256: 32, 384: 48}[cv] or count != n:
        return [("certificate block v2.1: root key record announces another curve / number of root keys than configured",
                 {"curve_code": code, "count": count}, {"curve": cv, "count": n})]
    h = hashlib.sha256 if cs == 32 else hashlib.sha384
    if idx != used:
        out.append(("certificate block v2.1: the root key record names root index %d but the block was configured with (and, with an ISK, "
                    "signed by) root index %d" % (idx, used), idx, used))
    tbl_len = count * h().digest_size if count > 1 else 0
    pub_off = 16 + tbl_len
    root_pub = cb[pub_off:pub_off + 2 * cs]
    want_pub = ecc_pub_raw(C1._file(C1.KC_ECC / f"ec_secp{cv}r1_cert{used}.pem"))
    if root_pub != want_pub:
        out.append(("certificate block v2.1: the root public key carried by the block is not the configured root key (index %d)" % used,
                    root_pub.hex()[:48], want_pub.hex()[:48]))
    if count > 1 and idx < count and cb[16 + idx * h().digest_size:16 + (idx + 1) * h().digest_size] != h(root_pub).digest():
        out.append(("certificate block v2.1: the carried root key does not hash to the table entry the record names", idx, None))
    if ca != (not spec["isk"]):
        out.append(("certificate block v2.1: CA flag does not match the presence of an ISK certificate", ca, not spec["isk"]))
    if spec["isk"] and not ca:
        isk = pub_off + 2 * cs
        if isk + 12 > len(cb):
            return out + [("certificate block v2.1: ISK certificate missing", len(cb), None)]
        sig_off, _, iflags = struct.unpack_from("<3I", cb, isk)
        ics = {1: 32, 2: 48}.get(iflags & 0xF)
        if ics is None or ics != {256: 32, 384: 48}[spec["isk"]]:
            return out + [("certificate block v2.1: ISK curve", iflags & 0xF, spec["isk"])]
        isk_pub = cb[isk + 12:isk + 12 + 2 * ics]
        want_isk = ecc_pub_raw(C1._file(C1.KC_ECC / f"ec_secp{spec['isk']}r1_sign_cert.pem"))
        if isk_pub != want_isk:
            out.append(("certificate block v2.1: the ISK certificate does not hold the configured ISK public key", isk_pub.hex()[:48], want_isk.hex()[:48]))
        sig = cb[isk + sig_off:isk + sig_off + 2 * cs]
        curve, hh = (ec.SECP256R1(), hashes.SHA256()) if cs == 32 else (ec.SECP384R1(), hashes.SHA384())
        try:
            key = ec.EllipticCurvePublicNumbers(int.from_bytes(root_pub[:cs], "big"), int.from_bytes(root_pub[cs:], "big"), curve).public_key()
            key.verify(utils.encode_dss_signature(int.from_bytes(sig[:cs], "big"), int.from_bytes(sig[cs:], "big")), cb[12:isk + sig_off], ec.ECDSA(hh))
        except (InvalidSignature, ValueError):
            out.append(("certificate block v2.1: the ISK certificate's signature does not verify under the root key the block carries "
                        "(chain ISK -> root broken: a ROM fused for these root keys rejects the image)", {"record_index": idx}, {"signed_by_root": used}))
    return out


# ---------------------------------------------------------------------------------------------- discharging obligations
def der_cert(blob: bytes):
    """a certificate table entry: DER certificate padded with < 4 zero bytes to a multiple of 4"""
    from cryptography import x509
    if len(blob) < 4 or blob[0] != 0x30:
        raise ValueError("not a DER sequence")
    if blob[1] < 0x80:
        n = 2 + blob[1]
    else:
        k = blob[1] & 0x7F
        n = 2 + k + int.from_bytes(blob[2:2 + k], "big")
    if not (n <= len(blob) < n + 4) or any(blob[n:]):
        raise ValueError("certificate entry padding")
    return x509.load_der_x509_certificate(blob[:n])


def discharge(ob: str, body: bytes):
    """-> None if the obligation holds, else a reason string.  Uses `cryptography` only."""
    from cryptography import x509
    from cryptography.exceptions import InvalidSignature
    from cryptography.hazmat.primitives import hashes
    from cryptography.hazmat.primitives.asymmetric import ec, padding, utils
    kind, rest = ob.split(":", 1)
    try:
        if kind == "chain":
            certs_s, tbl_s = rest.split("|")
            certs = []
            for c in certs_s.split(","):
                off, ln = map(int, c.split("-"))
                certs.append(der_cert(body[off:off + ln]))
            table = [bytes.fromhex(t) if t != "-" else b"" for t in tbl_s.split(",")]
            prev = certs[0]
            for i, c in enumerate(certs):
                signer = prev if i else c
                signer.public_key().verify(c.signature, c.tbs_certificate_bytes, padding.PKCS1v15(), c.signature_hash_algorithm)
                try:
                    ca = c.extensions.get_extension_for_class(x509.BasicConstraints).value.ca
                except x509.ExtensionNotFound:
                    ca = False
                if len(certs) > 1 and i < len(certs) - 1 and not ca:
                    return "a chain certificate that signs another one is not a CA"
                prev = c
            pn = certs[0].public_key().public_numbers()
            kh = hashlib.sha256(pn.n.to_bytes((pn.n.bit_length() + 7) // 8, "big") + pn.e.to_bytes((pn.e.bit_length() + 7) // 8, "big")).digest()
            if kh not in table:
                return "root certificate key hash is not in the RKH table"
            return None
        if kind == "rsa":
            c_s, end = rest.split(":")
            off, ln = map(int, c_s.split("-"))
            end = int(end)
            key = der_cert(body[off:off + ln]).public_key()
            sig = body[end:]
            if len(sig) != key.key_size // 8:
                return f"signature length {len(sig)} is not the modulus size {key.key_size // 8}"
            key.verify(sig, body[:end], padding.PKCS1v15(), hashes.SHA256())
            return None
        if kind == "ecdsa":
            pub, data, sig = (bytes.fromhex(x) if x != "-" else b"" for x in rest.split(":"))
            cs = len(pub) // 2
            curve, h = {32: (ec.SECP256R1(), hashes.SHA256()), 48: (ec.SECP384R1(), hashes.SHA384())}[cs]
            key = ec.EllipticCurvePublicNumbers(int.from_bytes(pub[:cs], "big"), int.from_bytes(pub[cs:], "big"), curve).public_key()
            if len(sig) != 2 * cs:
                return "signature length"
            key.verify(utils.encode_dss_signature(int.from_bytes(sig[:cs], "big"), int.from_bytes(sig[cs:], "big")), data, ec.ECDSA(h))
            return None
        return "unknown obligation " + kind
    except InvalidSignature:
        return kind + ": signature does not verify"
    except Exception as exc:  # noqa: BLE001  (malformed DER after a bit flip etc.)
        return f"{kind}: {type(exc).__name__}"


def rom_verdict(ans: str, img: bytes):
    """(accepted?, reason, plain) for a driver answer, discharging the obligations"""
    if ans.startswith("reject:"):
        return False, ans, None
    if not ans.startswith("accept "):
        return None, ans, None           # neither verdict: the driver did not evaluate the ROM spec (died / fault / protocol slip)
    try:
        kv = dict(t.split("=", 1) for t in ans.split(" ")[1:])
        strip = int(kv["strip"])
        obl = [o for o in kv["obs"].split(";") if o]
        plain = bytes.fromhex(kv["plain"]) if kv["plain"] not in ("none", "-") else None
    except (KeyError, ValueError):
        return None, ans, None
    body = img[:64] + img[64 + strip:] if strip else img
    for ob in obl:
        try:
            why = discharge(ob, body)
        except (ValueError, IndexError, KeyError) as exc:
            return None, f"malformed obligation {ob[:60]}: {exc}", None
        if why is not None:
            return False, "obligation:" + why, None
    return True, "accept", plain


# ---------------------------------------------------------------------------------------------- cases (worker side)
def protected(mixins):
    return C1._has(mixins, "CrcSign", "RsaSign", "EccSign") and not C1._has(mixins, "BcaTable")


def rom_env(case, row, rkth):
    fam, rev, tgt, auth, cn, itype, mixins, tzs, fixed = row
    ck = "v1" if C1._has(mixins, "CertBlockV1") else "v21" if C1._has(mixins, "CertBlockV21") else "none"
    return (f"certkind={ck} manifest={'crc' if C1._has(mixins, 'ManifestCrc') else 'digest'} hmac={int(C1._has(mixins, 'HmacKeyStoreFinalize'))} "
            f"zerolen={int(C1._has(mixins, 'IvtZeroTotalLength'))} tzsize={tzs} rkth={rkth.hex() if rkth else '-'} userkey={case.get('hkey', 'none')}")


def regions(case, row, obs, e):
    """named byte ranges of the exported image (from the INPUT sizes, independent of model and ROM)"""
    mixins = row[6]
    n = len(e)
    app = bytes.fromhex(case["app"])
    alen = len(app) + (-len(app) % 4)
    ins = 0
    r = {}
    if C1._has(mixins, "HmacKeyStoreFinalize"):
        ins = 32 + (1424 if case.get("ks", ["none"])[0] == "ks" else 0)
        r["hmac"] = (64, 96)
        if ins > 32:
            r["keystore"] = (96, 64 + ins)
    sh = lambda x: x + ins if x >= 64 else x  # noqa: E731
    r["ivt"] = (0x20, 0x38)
    r["payload_head"] = (0, 0x20)
    if alen > 64:
        r["payload"] = (sh(64), sh(alen))
    pos = alen
    if "reloc" in case:
        rl = sum(len(bytes.fromhex(i)) + (-len(bytes.fromhex(i)) % 4) for i, _ in case["reloc"]) + 16 * len(case["reloc"]) + 16
        r["reloc"] = (sh(pos), sh(pos + rl))
        pos += rl
    tzl = len(bytes.fromhex(case["tz"][1])) if case.get("tz", ["e"])[0] == "c" else 0
    sr = obs.get("sig")
    if obs.get("cert"):
        cl = len(bytes.fromhex(obs["cert"]))
        r["cert"] = (sh(pos), sh(pos + cl))
        pos += cl
        if C1._has(mixins, "AppTrustZoneCertBlockEncrypt"):
            r["enc_ivt_copy"] = (sh(pos), sh(pos + 56))
            r["iv"] = (sh(pos + 56), sh(pos + 72))
            pos += 72
        if C1._has(mixins, "ManifestCrc", "ManifestDigest"):
            r["manifest"] = (pos, sr[0])
        elif tzl:
            r["tz"] = (sh(pos), sh(pos + tzl))
    elif tzl:
        r["tz"] = (n - tzl, n)
    if sr:
        r["signature"] = tuple(sr)
        if sr[1] < n:
            r["digest"] = (sr[1], n)
    return {k: v for k, v in r.items() if v[1] > v[0]}


def eval_case(case, row):
    """real-code side: export, RKTH, regions, flipped images"""
    fam, rev, tgt, auth, cn, itype, mixins, tzs, fixed = row
    obs, fails = {}, []
    r = pyres(C1.build, case, row)
    if r[0] != "ok":
        fails.append(("option set could not be constructed", r, None))
        return obs, fails
    obj, sp = r[1]
    if "cert" in case and case["cert"]["kind"] == "v1":
        obj.cert_block.alignment = 4
    if "cert" in case:
        cb = pyres(obj.cert_block.export)
        obs["cert"] = cb[1].hex() if cb[0] == "ok" else None
        if case["cert"]["kind"] == "v21" and cb[0] == "ok":
            fails.extend(cert_v21_reference(case["cert"], bytes(cb[1])))
    r = pyres(obj.export)
    alen = len(bytes.fromhex(case["app"]))
    if C1._has(mixins, "HmacMandatory") and alen + (-alen % 4) < 64:
        return obs, fails    # refused by the builder (C01)
    if r[0] != "ok":
        fails.append(("export of a valid option set raised", r, None))
        return obs, fails
    e = bytes(r[1])
    obs["export"] = e.hex()
    obs["sig"] = C1.sig_range(obj, e, mixins)
    # ---- root key table hash: SPSDK's value vs the documented construction over the raw keys
    rk = None
    if "cert" in case:
        rk = rkth_v1(case["cert"]["id"]) if case["cert"]["kind"] == "v1" else rkth_v21(case["cert"])
        got = pyres(lambda: obj.rkth)
        if got != ("ok", rk):
            fails.append(("MasterBootImage.rkth differs from the documented root-key-table hash of the configured keys",
                          got[1].hex() if got[0] == "ok" and got[1] else got, rk.hex()))
    obs["env"] = rom_env(case, row, rk)       # rkth is replaced by the compiled Spec.rotkh value in the main process
    obs["rk_py"] = rk.hex() if rk else None
    obs["keys"] = key_tokens(case) if "cert" in case else None
    obs["regions"] = regions(case, row, obs, e)
    rng = random.Random(case.get("flip_seed", 0))
    flips = []
    for name, (a, b) in obs["regions"].items():
        # the regions come from the INPUT sizes (expected layout); an export that is shorter than its layout says must be judged by
        # the ROM oracle (reject -> concrete violation), never crash the harness: only positions inside the emitted bytes are flipped
        a, b = min(a, len(e)), min(b, len(e))
        if b <= a:
            continue
        for _ in range(case.get("flips", FLIPS_PER_REGION)):
            pos = rng.randrange(a, b)
            flips.append((name, pos, rng.randrange(8)))
    obs["flips"] = flips
    return obs, fails


# ---------------------------------------------------------------------------------------------- header-less "Vx" images (phase 3)
def vx_kind(mixins):
    return "signed" if C1._has(mixins, "EccSignVx") else "crc" if C1._has(mixins, "CrcSignBca") else "plain"


def vx_regions(kind, case, n):
    """byte ranges of a Vx image: (protected ranges, ranges the format leaves unprotected) - from the layout description alone"""
    if kind == "plain":
        return {}, {"image": (0, n)}
    if kind == "crc":
        return {"bca_crc_words": (0x3C4, 0x3D0), "data": (0xC00, n)}, {"header": (0, 0x3C4), "header_rest": (0x3D0, 0xC00)}
    prot = {"header": (0, 0x360), "digest": (0x360, 0x380), "signature": (0x380, 0x3C0), "bca": (0x3C0, 0x400),
            "isk_cert": (0x410, 0x498), "data": (0xC00, n)}
    if case.get("add_hash"):
        prot["isk_hash"] = (0x4A0, 0x4B0)
    return {k: v for k, v in prot.items() if v[1] > v[0]}, {"fcf": (0x400, 0x410), "wpc_duk_area": (0x4B0, 0xC00)}


def vx_eval(case, row, flips):
    """real-code side for a Vx row: export + sampled flip positions (protected regions and the unprotected ones)"""
    mixins = row[6]
    kind = vx_kind(mixins)
    r = pyres(C1.build, case, row)
    if r[0] != "ok":
        return None, [("option set could not be constructed", r, None)]
    obj, _sp = r[1]
    r = pyres(obj.export)
    if r[0] != "ok":
        return None, [("export of a valid option set raised", r, None)]
    e = bytes(r[1])
    prot, unprot = vx_regions(kind, case, len(e))
    clamp = lambda d: {k: (min(v[0], len(e)), min(v[1], len(e))) for k, v in d.items() if min(v[1], len(e)) > min(v[0], len(e))}  # noqa: E731
    prot, unprot = clamp(prot), clamp(unprot)
    rng = random.Random(case.get("flip_seed", 0))
    fl = []
    for name, (a, b) in prot.items():
        for _ in range(flips):
            fl.append((name, rng.randrange(a, b), rng.randrange(8), True))
    for name, (a, b) in unprot.items():
        fl.append((name, rng.randrange(a, b), rng.randrange(8), False))
    return {"export": e, "kind": kind, "flips": fl}, []


def run_vx(ck, drv, rows):
    """Spec/MbiRomVx.lean (compiled, driver op `romvx`) on the REAL export of every mc56 / mwct row"""
    sv = ck.stream("vx_rom_accepts", "every mc56f81xxx / mwct20x2 row (header-less 'Vx' images: plain, CRC in the BCA, ECC signed with ISK certificate), C01 option generator "
                   "(payload >= 0xC00, life cycle, firmware version, ISK hash stored or not): the independent Vx ROM model (Spec/MbiRomVx.lean) accepts the real export and both "
                   "ECDSA obligations (root key -> ISK certificate, ISK key -> image) verify with `cryptography`; header-only exports must be refused; non-trivial = distinct (row, options, payload)")
    svf = ck.stream("vx_bit_flips", "single-bit corruptions of accepted Vx images: in every protected region (CRC words / data part; header below the digest, digest, signature, BCA, "
                    "ISK certificate, stored ISK hash, data part) the verdict must flip; in the regions the FORMAT leaves unprotected (flash configuration field, WPC / DUK area "
                    "0x4B0..0xC00, header of CRC images) the ROM model's verdict must NOT flip (the reference verifier covers exactly the format's ranges)")
    vx = [ri for ri, r in enumerate(rows) if C1._has(r[6], "BcaTable")]
    if not vx:
        return
    root_pub = ecc_pub_raw(C1._file(C1.KC_ECC / "ec_secp256r1_cert0.pem")).hex()
    draws, flips = ck.budget(2, 12), ck.budget(2, 5)
    jobs = []
    for ri in vx:
        row = rows[ri]
        rng = random.Random(ck.rng.getrandbits(64))
        for d in range(draws):
            case = C1.gen_case(rng, row, d + 8, not ck.quick)
            case["malformed"], case["cfg_rt"] = 0, False
            just_header = bool(case.get("just_header"))
            case["flip_seed"] = rng.getrandbits(32)
            inp = {"row": list(row[:5]), "case": case}
            try:
                obs, fails = vx_eval(case, row, flips)
            except Exception as exc:  # noqa: BLE001
                import traceback
                obs, fails = None, [("evaluation of a Vx case crashed: " + type(exc).__name__, traceback.format_exc()[-1500:], None)]
            for what, o, x in fails:
                sv.expect(False, inp, what, o, x)
            if obs is None:
                continue
            jobs.append((row, inp, obs, just_header))
    if drv is None:
        return
    lines = []
    for row, inp, obs, jh in jobs:
        env = f"kind={obs['kind']} rootpub={root_pub} iskhash={int(bool(inp['case'].get('add_hash')))}"
        obs["imgs"] = [obs["export"]]
        for name, pos, bit, _ in ([] if jh else obs["flips"]):
            b = bytearray(obs["export"])
            b[pos] ^= 1 << bit
            obs["imgs"].append(bytes(b))
        obs["first"] = len(lines)
        lines += [f"romvx {env} data={i.hex()}" for i in obs["imgs"]]
    answers = drv.batch(lines)
    for row, inp, obs, jh in jobs:
        ans = answers[obs["first"]:obs["first"] + len(obs["imgs"])]
        sv.note((inp["row"], inp["case"]), cls=obs["kind"] + ("/header-only" if jh else ""))
        ok, why, _ = rom_verdict(ans[0], obs["imgs"][0])
        if ok is None:
            sv.compare(inp, "accept … | reject:…", why[:120], "the Vx ROM spec driver gave no verdict (neither accept nor reject): the acceptance oracle cannot be evaluated")
            continue
        if jh:
            sv.expect(not ok, inp, "a header-only export (no data part) is accepted by the Vx ROM model", why[:200], "reject")
            continue
        sv.expect(ok, inp, "the independent Vx ROM model does not accept an image SPSDK exported", why[:300], "accept")
        if not ok:
            continue
        for (name, p, bit, prot), a, img in zip(obs["flips"], ans[1:], obs["imgs"][1:]):
            svf.note((inp["row"], hash(obs["export"]), p, bit), cls=("" if prot else "unprotected:") + name)
            ok2, why2, _ = rom_verdict(a, img)
            fi = {**inp, "flip": [name, p, bit]}
            if ok2 is None:
                svf.compare(fi, "accept … | reject:…", why2[:120], "the Vx ROM spec driver gave no verdict on a corrupted image")
            elif prot:
                svf.expect(not ok2, fi, f"a single-bit corruption in protected region '{name}' of a Vx image is still accepted by the ROM model", why2[:200], "reject")
            else:
                svf.expect(ok2, fi, f"a single-bit corruption in region '{name}', which the format leaves outside digest / signature / CRC, changes the ROM model's verdict "
                           "(the reference verifier covers more than the format defines)", why2[:200], "accept")


ROWS = None
# every quick run: cert block v2.1 WITH an ISK certificate, every signing root 0..n-1 of root sets of 2..4 keys, P-256 and P-384
# (ISK curve alternating where the root curve allows both), plus the same root sets without ISK
ISK_CHAIN_SPECS = [(cv, n, used, (256 if cv == 256 or (n + used) % 2 else 384)) for cv in (256, 384) for n in (2, 3, 4) for used in range(n)] + \
                  [(cv, n, used, None) for cv in (256, 384) for n in (2, 4) for used in (n - 1,)]


def _work(task):
    import logging
    logging.disable(logging.CRITICAL)
    ri, seed, draws, thorough, flips = task[:5]
    forced = list(task[5]) if len(task) > 5 else []
    row = ROWS[ri]
    rng = random.Random(seed)
    out = []
    for d in range(draws + len(forced)):
        case = C1.gen_case(rng, row, d + 8, thorough)   # payload length classes from 0x40 on (shorter ones: C01; HMAC images need 64 bytes)
        if d == 0 and C1._has(row[6], "RelocTable") and C1._has(row[6], "AppTrustZoneCertBlockEncrypt", "HmacKeyStoreFinalize") and "reloc" not in case:
            # systematic: every encrypted / HMAC row gets a relocation table on its first draw (post_encrypt's slice bound, HMAC offsets)
            C1.force_reloc(rng, case)
        if d >= draws:
            # systematic chain cases: root set x signing root x ISK (see ISK_CHAIN_SPECS)
            cv, n, used, isk = forced[d - draws]
            ud = bytes(rng.getrandbits(8) for _ in range(rng.choice([0, 0, 16, 32]))).hex() if isk else ""
            case["cert"] = {"kind": "v21", "curve": cv, "n": n, "used": used, "isk": isk, "udata": ud}
            if case.get("digest") not in (None, "auto"):
                case["digest"] = "auto"
        case["malformed"] = 0
        case["cfg_rt"] = False
        if case.get("ks", ["none"])[0] == "ks_empty":
            case["ks"] = ["none", ""]     # key source without data is not visible in the image (C01 known finding): the ROM cannot know
        case["flip_seed"] = rng.getrandbits(32)
        case["flips"] = flips
        try:
            obs, fails = eval_case(case, row)
        except Exception as exc:  # noqa: BLE001
            import traceback
            obs, fails = {}, [("evaluation of a case crashed: " + type(exc).__name__, traceback.format_exc()[-1500:], None)]
        out.append((case, obs, fails))
    return ri, out


def run(ck):
    import concurrent.futures
    import logging
    import multiprocessing
    import vcore
    global ROWS
    logging.disable(logging.CRITICAL)
    ck.lean_obligations(generated=["MbiClasses", "IvtConsts"])
    # both ops of drv_c02 (`rom`: Spec/MbiRom.lean romCheck, `rotkh`: Spec/Rotkh.lean) evaluate Spec-only definitions: the driver
    # imports nothing generated from /repo and no model of the code (Driver/C02.lean: Spec.MbiRom, Spec.Rotkh, Crypto.Exec)
    ck.spec_ops = {"rom", "rotkh", "romvx"}
    drv = ck.driver()
    ROWS = C1.live_rows()
    C1.ROWS = ROWS
    C1.check_generated_rows(ck, ROWS, ck.generated_meta["MbiClasses"])
    ck.assume("the ROM acceptance function (Spec/MbiRom.lean) is a re-implementation from the format description, not NXP's ROM code",
              "X.509 parsing and RSA / ECDSA verification of the obligations are `cryptography`'s (OpenSSL); SHA-2, HMAC, AES, CRC are the Lean reference implementations (validated by C09)",
              "key store content is not authenticated by anything in the format (bit flips there are expected to be accepted and are not sampled)",
              "RSA certificate chains come from the repository's test data (depth 1-3, 2048-4096 bit), EC root sets of 1-4 keys P-256 / P-384 with every signing root, with and without ISK / ISK user data",
              "mc56 / mwct (Vx) images: the ROM model Spec/MbiRomVx.lean is written from the layout mbi_mixin.py documents (digest + ECDSA with the ISK key, ISK certificate signed by the root key, BCA CRC words); the WPC / DUK areas are not authenticated by that format")
    prot = [ri for ri, r in enumerate(ROWS) if protected(r[6])]
    draws = ck.budget(2, 30)
    flips = ck.budget(2, 6)
    first_of_shape = {}
    for ri in prot:
        first_of_shape.setdefault((ROWS[ri][5], ROWS[ri][6]), ri)
    # quick: every protected row once, the first row of every mixin list 4 more times; bit flips on the first rows only
    # the systematic root -> ISK -> image chain cases (ISK_CHAIN_SPECS): all of them on the first row of every cert-block-v2.1 mixin list
    v21_first = [ri for ri in sorted(first_of_shape.values()) if C1._has(ROWS[ri][6], "CertBlockV21")]
    chain_specs = {}
    for k, ri in enumerate(v21_first):
        chain_specs[ri] = ISK_CHAIN_SPECS if (k == 0 or not ck.quick) else ISK_CHAIN_SPECS[k % 3::3]
    tasks = []
    for ri in prot:
        extra = ck.budget(4, 8) if ri in first_of_shape.values() else 0
        tasks.append((ri, ck.rng.getrandbits(64), draws + extra, not ck.quick, flips if (ri in first_of_shape.values() or not ck.quick) else 0,
                      chain_specs.get(ri, ())))
    s = ck.stream("rom_accepts", f"every protected row of the class table ({len(prot)} rows: CRC, RSA signed (+-HMAC, key store), ECC signed with manifest, encrypted) with the C01 "
                  "option generator (payload lengths, TrustZone, relocation tables, key store, IVs, RSA chains depth 1-3 / 2048-4096 bit, EC root sets 1-4 keys x every signing root "
                  "x +-ISK): the independent ROM model accepts the real export and every asymmetric obligation verifies with `cryptography`; non-trivial = distinct (row, options, payload)")
    sf = ck.stream("bit_flips", "single-bit corruptions at sampled positions of every region (IVT words, payload, relocation table, TrustZone data, certificate block, manifest, "
                   "signature, digest, HMAC, encrypted IVT copy, counter IV) of accepted images: the verdict must flip; non-trivial = distinct (image, position)")
    sd = ck.stream("decrypts_to_plain", "encrypted images: the ROM model's AES-CTR decryption with the derived key gives back the application, relocation table and TrustZone data")
    ctx = multiprocessing.get_context("fork")
    with ctx.Pool(min(8, os.cpu_count() or 2), initializer=C1._worker_init) as pool:
        results = sorted(pool.imap_unordered(_work, tasks, chunksize=2), key=lambda x: x[0])
    if drv is None:
        # the ROM spec driver is not available (recorded in ck.broken by ck.driver()): what does not need it - the real-code
        # oracle of the workers - is still reported; the acceptance / bit-flip verdicts cannot be evaluated: no verdict is invented
        for ri, out in results:
            for case, obs, fails in out:
                for what, o, x in fails:
                    s.expect(False, {"row": list(ROWS[ri][:5]), "case": case}, what, o, x)
        run_vx(ck, None, ROWS)
        return
    drivers = [drv]
    for _ in range(3):
        d = vcore.Driver(drv.exe, on_death=lambda msg: ck.broken.append(msg + " - correspondence cannot be evaluated"),
                         spec_ops=lambda: set(ck.spec_ops or ()))
        ck.drivers.append(d)
        drivers.append(d)
    # ---- the fused RKTH: the documented construction (compiled Spec.rotkh of C03) over the raw key numbers
    srk = ck.stream("rkth_spec", "MasterBootImage.rkth and the harness' own table hash vs the compiled Spec.rotkh (Spec/Rotkh.lean) over the raw key numbers; "
                    "the ROM model is then given the Spec value; non-trivial = distinct key set")
    keysets = sorted({obs["keys"] for _, out in results for _, obs, _ in out if obs.get("keys")})
    spec_rk = dict(zip(keysets, drv.batch([f"rotkh {t} {k}" for t, k in keysets])))
    jobs = []
    for ri, out in results:
        row = ROWS[ri]
        for case, obs, fails in out:
            inp = {"row": list(row[:5]), "case": case}
            for what, o, x in fails:
                s.expect(False, inp, what, o, x)
            if "export" not in obs:
                continue
            e = bytes.fromhex(obs["export"])
            if obs.get("keys"):
                v = spec_rk[obs["keys"]]
                srk.note(obs["keys"])
                srk.compare({"keys": obs["keys"][1][:200]}, "ok:" + obs["rk_py"], v, "compiled Spec.rotkh differs from MasterBootImage.rkth / the table hash recomputed in the harness")
                if v.startswith("ok:"):
                    obs["env"] = obs["env"].replace("rkth=" + obs["rk_py"], "rkth=" + v[3:])
            lines = [f"rom {obs['env']} data={e.hex()}"]
            imgs = [e]
            for name, pos, bit in obs["flips"]:
                b = bytearray(e)
                b[pos] ^= 1 << bit
                lines.append(f"rom {obs['env']} data={bytes(b).hex()}")
                imgs.append(bytes(b))
            jobs.append((row, inp, obs, lines, imgs))
    chunks = [jobs[i::len(drivers)] for i in range(len(drivers))]

    def ask(k):
        return drivers[k].batch([ln for j in chunks[k] for ln in j[3]])
    with concurrent.futures.ThreadPoolExecutor(len(drivers)) as ex:
        answers = list(ex.map(ask, range(len(drivers))))
    for k, chunk in enumerate(chunks):
        pos = 0
        for row, inp, obs, lines, imgs in chunk:
            ans = answers[k][pos:pos + len(lines)]
            pos += len(lines)
            mixins = row[6]
            ok, why, plain = rom_verdict(ans[0], imgs[0])
            s.note((inp["row"], inp["case"]), cls=f"{row[2]}/{row[3]}")
            if ok is None:
                s.compare(inp, "accept … | reject:…", why[:120], "the ROM spec driver gave no verdict (neither accept nor reject): the acceptance oracle cannot be evaluated")
                continue
            s.expect(ok, inp, "the independent ROM model does not accept an image SPSDK exported", why[:300], "accept")
            if not ok:
                continue
            if plain is not None:
                case = inp["case"]
                app = bytes.fromhex(case["app"])
                app += bytes(-len(app) % 4)
                tz = bytes.fromhex(case["tz"][1]) if case.get("tz", ["e"])[0] == "c" else b""
                sd.note((inp["row"], hash(obs["export"])))
                good = plain[:0x20] == app[:0x20] and plain[0x38:len(app)] == app[0x38:] and plain[0x2C:0x34] == app[0x2C:0x34] and \
                    (plain[len(plain) - len(tz):] == tz if tz else True)
                if "reloc" in case and good:
                    rl = b"".join(bytes.fromhex(i) + bytes(-len(bytes.fromhex(i)) % 4) for i, _ in case["reloc"])
                    good = plain[len(app):len(app) + len(rl)] == rl
                sd.expect(good, inp, "decryption with the derived AES-CTR key does not give back application / relocation table / TrustZone data", plain[:64].hex(), app[:64].hex())
            for (name, p, bit), a, img in zip(obs["flips"], ans[1:], imgs[1:]):
                sf.note((inp["row"], hash(obs["export"]), p, bit), cls=name)
                if name == "keystore":
                    continue
                ok2, why2, _ = rom_verdict(a, img)
                if ok2 is None:
                    sf.compare({**inp, "flip": [name, p, bit]}, "accept … | reject:…", why2[:120], "the ROM spec driver gave no verdict on a corrupted image")
                    continue
                sf.expect(not ok2, {**inp, "flip": [name, p, bit]},
                          f"a single-bit corruption in region '{name}' is still accepted by the ROM model (the region is not covered by any check)", why2[:200], "reject")
    run_vx(ck, drv, ROWS)


def replay(ck, data):
    run(ck)
