"""C16 - BinaryImage composition, validation and file formats (spsdk/utils/images.py).

The HEX / S19 text itself (bincopy's writer and reader as SPSDK uses them) is modelled in Lean (Model/HexFmt.lean, round-trip theorems in
Properties/C16.lean); the `hexfmt_model` stream ties that model to the real code: emitted text byte for byte, decoded segments, and
accept / refuse of ~30 kinds of malformed or unusual text.

Random image trees are built through the public constructor / add_image / append_image; `len`, `export()`
and `validate()` of the real object are compared with the Lean model (`drv_c16`), and the property's own
statements (length, child-at-offset, fill pattern, alignment only extends, validate iff geometry, BIN/HEX/S19
round trips) are evaluated on the real objects independently of the model.
"""
from __future__ import annotations

import json
import os

from vcore import canon, hexs, pyres

PATS = [None, "zeros", "ones", "inc", "0xA5", "0x1234", "0xDEADBEEF"]


def gen_tree(rng, depth, invalid_bias):
    """-> nested dict describing a BinaryImage (children in insertion order)."""
    al = rng.choice([1, 1, 1, 2, 4, 8, 16, 512]) if depth == 0 or rng.random() < 0.3 else 1
    kids = []
    if depth < 3 and rng.random() < (0.8 if depth == 0 else 0.45):
        pos = 0
        for _ in range(rng.randint(1, 5)):
            c = gen_tree(rng, depth + 1, invalid_bias)
            if rng.random() < invalid_bias:
                off = rng.randrange(0, max(1, pos + 4))  # likely overlapping
            else:
                off = pos + rng.choice([0, 0, 1, 3, 16, rng.randrange(40)])
            c["offset"] = off
            kids.append(c)
            pos = max(pos, off + c["_len_hint"])
    binary = None
    if rng.random() < (0.75 if not kids else 0.2):
        binary = bytes(rng.getrandbits(8) for _ in range(rng.choice([0, 1, 2, 7, 16, 33, rng.randrange(120)])))
    extent = max([len(binary or b"")] + [k["offset"] + k["_len_hint"] for k in kids])
    size = 0
    r = rng.random()
    if r < 0.35:
        size = extent + rng.choice([0, 0, 1, 5, 64])
    elif r < 0.35 + invalid_bias * 0.3 and extent > 1:
        size = rng.randrange(1, extent)  # too small: child sticks out or binary exceeds size
    pat = rng.choice(PATS)
    eff = size if size else extent
    hint = (eff + al - 1) // al * al
    rng.shuffle(kids)
    return dict(size=size, offset=0, alignment=al, binary=binary, pattern=pat, children=kids, _len_hint=hint)


def build(t, name="n"):
    from spsdk.utils.images import BinaryImage
    from spsdk.utils.misc import BinaryPattern
    img = BinaryImage(name, size=t["size"], offset=t["offset"], binary=t["binary"],
                      pattern=BinaryPattern(t["pattern"]) if t["pattern"] else None, alignment=t["alignment"])
    for i, c in enumerate(t["children"]):
        img.add_image(build(c, f"{name}.{i}"))
    return img


def tokens(img):
    """serialise the *real object's* tree (children in the order the object holds them)."""
    pat = "N"
    if img.pattern is not None:
        p = img.pattern._pattern
        pat = p if p in ("zeros", "ones", "inc") else f"num:{int(p, 0)}"
    b = "N" if img.binary is None else hexs(img.binary)
    out = ["(", str(img._size), str(img.offset), str(img.alignment), b, pat]
    for c in img.sub_images:
        out.extend(tokens(c))
    out.append(")")
    return out


def has_size_lt_binary(img):
    if img.binary and img._size and len(img.binary) > img._size:
        return True
    return any(has_size_lt_binary(c) for c in img.sub_images)


def geometry_error(img):
    """independent statement of 'a child sticks out of its parent or two siblings overlap' (any depth)"""
    L = len(img)
    kids = img.sub_images
    if img.binary and len(img.binary) > L:
        return True  # own binary sticks out of the image's explicit size
    for c in kids:
        if geometry_error(c):
            return True
        if c.offset + len(c) > L:
            return True
    for i, c in enumerate(kids):
        for j, s in enumerate(kids):
            if i != j and c.offset < s.offset + len(s) and s.offset < c.offset + len(c):
                return True
    return False



SIZE_ASSIGNED = {}   # id(image) -> align(n, alignment) for images whose size was ASSIGNED (`image.size = n`) in the tree_ops stream


def ref_geometry_error(img):
    """geometry_error restated over ref_len (nothing of the real len() involved)"""
    L = ref_len(img)
    kids = img.sub_images
    if len(img.binary or b"") > L:
        return True
    for c in kids:
        if ref_geometry_error(c) or c.offset + ref_len(c) > L:
            return True
    return any(i != j and c.offset < x.offset + ref_len(x) and x.offset < c.offset + ref_len(c) for i, c in enumerate(kids) for j, x in enumerate(kids))


def ref_len(img):
    """len() of an image restated from its description alone (the fields the constructor stored: `_size` = explicit size rounded up to the alignment, offset,
    alignment, binary, sub-images): explicit size wins, else the furthest end of own binary and ALL sub-images, rounded up to the alignment"""
    sz = SIZE_ASSIGNED.get(id(img), img._size)   # a size assigned after construction counts rounded up to the alignment, whatever the setter stored
    if sz:
        return sz
    ext = max([len(img.binary or b"")] + [c.offset + ref_len(c) for c in img.sub_images])
    al = img.alignment
    return (ext + al - 1) // al * al


def fits(img):
    """nothing sticks out anywhere (own binary within the image, every sub-image within its parent, offsets non-negative); siblings MAY overlap"""
    L = ref_len(img)
    if len(img.binary or b"") > L:
        return False
    return all(c.offset >= 0 and c.offset + ref_len(c) <= L and fits(c) for c in img.sub_images)


def len_mismatch(img):
    """-> first (path, len(), restated length) at which the real len() differs, or None"""
    todo = [((), img)]
    while todo:
        pth, n = todo.pop()
        r = pyres(len, n)
        if r != ("ok", ref_len(n)):
            return (pth, r, ref_len(n))
        todo.extend((pth + (i,), c) for i, c in enumerate(n.sub_images))
    return None


def ref_block(pattern, n):
    """The documented fill pattern, stated independently of BinaryPattern.get_block: zeros / ones / 0,1,2,... mod 256 /
    the number's own minimal big-endian bytes, repeated from offset 0 and cut to n bytes.  `pattern` is a BinaryPattern, its spec string or None (= zeros)."""
    spec = getattr(pattern, "_pattern", pattern)
    if spec is None or spec == "zeros":
        return bytes(n)
    if spec == "ones":
        return b"\xff" * n
    if spec == "inc":
        return bytes(i & 0xFF for i in range(n))
    v = int(spec, 0) if isinstance(spec, str) else int(spec)
    unit = v.to_bytes(max(1, (v.bit_length() + 7) // 8), "big")
    return (unit * (n // len(unit) + 1))[:n]


def pat_byte(img, k):
    if img.pattern is None:
        return 0
    return ref_block(img.pattern, k + 1)[k]


# ------------------------------------------------------------------------------------------------ HEX / SREC text model
def _fix_crc(rec, fmt):
    """recompute the checksum of an edited record (None when the payload is no longer hex)"""
    try:
        if fmt == "HEX":
            body = bytes.fromhex(rec[1:-2])
            return rec[:-2] + f"{(-sum(body)) & 0xFF:02X}"
        body = bytes.fromhex(rec[2:-2])
        return rec[:-2] + f"{(~sum(body)) & 0xFF:02X}"
    except ValueError:
        return None


def _is_data(rec, fmt):
    return rec[7:9] == "00" if fmt == "HEX" else rec[1] == "3"


MUTATIONS = ["crc", "digit", "len_field", "drop_byte", "add_byte", "type", "odd", "nonhex", "inner_space", "lower", "crlf", "cr", "blank_lines",
             "lead_blank", "indent_first", "indent_other", "trail_ws", "no_last", "eof_first", "swap", "dup", "truncate", "empty_ela", "zero_data",
             "only_footer", "esa", "count_wrong", "short_rec", "drop_rec", "start_rec"]


def mutate_text(rng, text, fmt, kind):
    """-> mutated text (str, ASCII) or None when the mutation does not apply"""
    recs = text.split("\n")[:-1]
    pfx = 9 if fmt == "HEX" else 2  # first data-ish position whose edit never touches ':' / 'S' / type char
    i = rng.randrange(len(recs))
    r = recs[i]
    data_idx = [j for j, x in enumerate(recs) if _is_data(x, fmt)]
    H = "0123456789ABCDEF"
    if kind == "crc":
        recs[i] = r[:-2] + f"{(int(r[-2:], 16) + rng.randrange(1, 256)) & 0xFF:02X}"
    elif kind == "digit":
        k = rng.randrange(1 if fmt == "HEX" else 2, len(r))
        recs[i] = r[:k] + rng.choice([c for c in H if c != r[k]]) + r[k + 1:]
    elif kind == "len_field":
        a = 1 if fmt == "HEX" else 2
        recs[i] = _fix_crc(r[:a] + f"{(int(r[a:a + 2], 16) + rng.choice([1, 255, 2])) & 0xFF:02X}" + r[a + 2:], fmt)
    elif kind == "drop_byte":
        if len(r) - 2 - pfx < 2:
            return None
        k = pfx + 2 * rng.randrange((len(r) - 2 - pfx) // 2)
        recs[i] = _fix_crc(r[:k] + r[k + 2:], fmt)
    elif kind == "add_byte":
        recs[i] = _fix_crc(r[:-2] + f"{rng.getrandbits(8):02X}" + r[-2:], fmt)
    elif kind == "type":
        if fmt == "HEX":
            # 02 / 04 take all their data bytes as one number: keep the resulting addresses far below 2^63 (beyond it SPSDK's own
            # `if self.parent:` -> len() overflows, which is outside this property)
            small = len(r) <= 11 + 8
            recs[i] = _fix_crc(r[:7] + rng.choice(["00", "01", "03", "05", "06", "07", "10", "FF"] + (["02", "04"] if small else [])) + r[9:], fmt)
        else:
            recs[i] = r[0] + rng.choice("0123456789AS") + r[2:]
    elif kind == "odd":
        k = rng.randrange(1, len(r))
        recs[i] = r[:k] + r[k + 1:]
    elif kind == "nonhex":
        k = rng.randrange(1 if fmt == "HEX" else 2, len(r))
        recs[i] = r[:k] + rng.choice("Gg:SxZ-") + r[k + 1:]
    elif kind == "inner_space":
        k = rng.randrange(1, len(r))
        recs[i] = r[:k] + rng.choice([" ", "\t", "  "]) + r[k:]
    elif kind == "lower":
        recs[i] = r.lower() if fmt == "HEX" else "S" + r[1:].lower()
    elif kind == "crlf":
        return "\r\n".join(recs) + "\r\n"
    elif kind == "cr":
        return "\r".join(recs) + "\r"
    elif kind == "blank_lines":
        k = rng.randrange(1, len(recs) + 1)
        recs[k:k] = [rng.choice(["", "  ", "\t", " \x0c"])] * rng.randint(1, 2)
    elif kind == "lead_blank":
        recs.insert(0, rng.choice(["", " "]))
    elif kind == "indent_first":
        recs[0] = rng.choice([" ", "\t"]) + recs[0]
    elif kind == "indent_other":
        if len(recs) < 2:
            return None
        k = rng.randrange(1, len(recs))
        recs[k] = rng.choice([" ", "\t ", "   "]) + recs[k]
    elif kind == "trail_ws":
        recs[i] = r + rng.choice([" ", "\t", "  \t", "\x0b"])
    elif kind == "no_last":
        recs.pop()
        if not recs:
            return None
    elif kind == "eof_first":
        recs.insert(0, recs.pop())
    elif kind == "swap":
        if len(data_idx) < 2:
            return None
        a, b = rng.sample(data_idx, 2)
        recs[a], recs[b] = recs[b], recs[a]
    elif kind == "dup":
        if not data_idx:
            return None
        a = rng.choice(data_idx)
        recs.insert(rng.choice([a, a + 1, len(recs) - 1]), recs[a])
    elif kind == "truncate":
        t = "\n".join(recs) + "\n"
        return t[:rng.randrange(1, len(t))]
    elif kind == "empty_ela":
        if fmt != "HEX":
            return None
        recs.insert(i, rng.choice([":00000004FC", ":00000002FE", ":00000005FB"]))  # int('', 16): ValueError inside bincopy
    elif kind == "zero_data":
        recs.insert(i, _fix_crc(f":00{rng.choice([0, 0x20, 0xFFFF]):04X}0000", "HEX") if fmt == "HEX" else _fix_crc(f"S305{rng.getrandbits(32):08X}00", "S19"))
    elif kind == "only_footer":
        recs = [x for j, x in enumerate(recs) if j not in data_idx]
    elif kind == "esa":
        if fmt != "HEX":
            return None
        recs.insert(i, _fix_crc(":02000002" + rng.choice(["0000", "1000", "0001", "FFFF"]) + "00", "HEX"))
    elif kind == "count_wrong":
        if fmt == "HEX":
            return None
        recs = [(_fix_crc(x[:4] + f"{rng.getrandbits(16):04X}" + x[8:], fmt) if x[1] == "5" else x) for x in recs]
    elif kind == "short_rec":
        # shorter than its own address field (bincopy slices without checking)
        if fmt == "HEX":
            recs.insert(i, rng.choice([":0000000", ":00000001F", ":", ":00"]))
        else:
            recs.insert(i, _fix_crc("S3" + rng.choice(["01", "02AB", "03ABCD", "0400ABCD"]) + "00", "S19"))
    elif kind == "drop_rec":
        if len(recs) < 2:
            return None
        del recs[i]
    elif kind == "start_rec":
        recs.insert(i, _fix_crc(":04000005" + f"{rng.getrandbits(32):08X}" + "00", "HEX") if fmt == "HEX" else _fix_crc(f"S705{rng.getrandbits(32):08X}00", "S19"))
    if any(x is None for x in recs):
        return None
    return "\n".join(recs) + "\n"


def image_canon(img):
    """loaded BinaryImage -> the line the model driver prints for a decoded text"""
    e = "N" if img.execution_start_address is None else str(img.execution_start_address)
    return "ok:" + " ".join([e] + [f"{c.absolute_address}:{hexs(c.binary or b'')}" for c in img.sub_images])


def run(ck):
    from spsdk.utils.images import BinaryImage
    from spsdk.utils.misc import BinaryPattern

    # BinImageGeo: the geometry code of images.py as it is written now (tools/extract/gen_C16.py); PyFuns*/EnumTables: C20's parts, because the
    # `len_generated` theorem uses `align` through C20's contract (Properties/C20.lean is imported by Proofs/BinImageGen.lean)
    ck.lean_obligations(generated=["PyFuns", "PyFuns2", "EnumTables", "BinImageGeo"])
    ck.spec_ops = set()   # no driver op of C16 is Spec-only; no oracle expectation or finding predicate uses a driver answer
    drv = ck.driver()
    rng = ck.rng
    scratch = os.environ["VERIF_SCRATCH"]
    ck.assume("generated geometry part: math.floor(a / b) / math.ceil(a / b) in aligned_start / aligned_length are read as exact integer floor / ceiling "
              "(true for operands below 2^53; image addresses and sizes are)",
              "ELF loading, draw() and the 'rand' pattern are not modelled", "bincopy's HEX/SREC writer and reader are third party (installed 20.1.1, outside /repo): "
              "their text syntax is modelled in Lean (Model/HexFmt.lean) for ascending non-overlapping segments and tied to the installed library by the hexfmt_model stream; "
              "trees with overlapping data-carrying nodes (pattern under binary, overwrite=True) are decided by running the real code only",
              "negative offsets are covered by the oracle only (validate must refuse them)")
    n = ck.budget(6000, 100000)
    s = ck.stream("trees", f"{n} random image trees (depth 1-4, <=5 children per node, offsets/sizes 0..300, alignments {{1,2,4,8,16,512}}, "
                  "patterns none/zeros/ones/inc/1-,2-,4-byte numbers, explicit and derived sizes, ~35% deliberately overlapping / sticking-out layouts, "
                  "zero-length children); len/export/validate compared with the model, oracle on the real object; non-trivial = distinct tree with >=1 child or binary")
    reqs = []
    for _ in range(n):
        t = gen_tree(rng, 0, rng.choice([0.0, 0.0, 0.15, 0.5]))
        try:
            img = build(t)
        except Exception as exc:  # noqa: BLE001
            s.expect(False, t, f"constructor/add_image raised {type(exc).__name__}")
            continue
        toks = " ".join(tokens(img))
        ln = pyres(len, img)
        ex = pyres(img.export)
        va = pyres(img.validate)
        cls = "valid" if va[0] == "ok" else "invalid"
        s.note(toks, nontrivial=bool(img.sub_images or img.binary), cls=cls)
        reqs.append(((toks, "len"), "len " + toks, canon(ln)))
        reqs.append(((toks, "export"), "export " + toks, canon(ex)))
        reqs.append(((toks, "validate"), "validate " + toks, "ok" if va[0] == "ok" else ("E:overlap" if va[0] == "E:spsdk" else va[0])))
        # ---- oracle, every tree (overlapping layouts included): length restated from the description; where nothing sticks out export() works, has that length,
        #      and every sub-image's bytes not covered by a later-written sibling sit at its offset
        lm = len_mismatch(img)
        s.expect(lm is None, toks, "len() of a node is not its explicit size resp. the furthest end of own binary and all sub-images rounded up to the alignment", lm)
        s.expect(ex[0] in ("ok", "E:spsdk") or not fits(img), toks, "export() raises a non-SPSDK exception on a tree in which nothing sticks out", ex[0])
        if fits(img) and ex[0] == "ok":
            s.expect(len(ex[1]) == ref_len(img), toks, "export() length differs from the image length (nothing sticks out)", (len(ex[1]), ref_len(img)))
            kids = img.sub_images
            for j, c in enumerate(kids):
                cd = pyres(c.export)
                if cd[0] != "ok":
                    continue
                later = [(x.offset, x.offset + ref_len(x)) for x in kids[j + 1:]]
                bad = [q for q in range(len(cd[1])) if not any(lo <= c.offset + q < hi for lo, hi in later)
                       and (c.offset + q >= len(ex[1]) or ex[1][c.offset + q] != cd[1][q])]
                s.expect(not bad, toks, "a sub-image's bytes that no later-written sibling covers do not appear at its offset", (j, bad[:4]))
        gr = pyres(geometry_error, img)
        if gr[0] != "ok":
            s.expect(False, toks, "len() raised on a constructed tree", gr)
            continue
        geo = gr[1]
        s.expect((va[0] != "ok") == geo, toks, "validate() does not report an error exactly when a child sticks out or two siblings overlap", va, geo)
        s.expect(va[0] in ("ok", "E:spsdk"), toks, "validate() raised a non-SPSDK exception", va)
        if va[0] == "ok":
            if ex[0] != "ok":
                s.expect(False, toks, "a valid image tree does not export", ex)
                continue
            data = ex[1]
            s.expect(len(data) == ln[1], toks, "export() length differs from len()", (len(data), ln[1]))
            covered = bytearray(len(data))
            for c in img.sub_images:
                cd = pyres(c.export)
                if cd[0] == "ok":
                    s.expect(data[c.offset:c.offset + len(cd[1])] == cd[1], toks, "a sub-image's bytes do not appear at its offset", None, c.offset)
                    covered[c.offset:c.offset + len(cd[1])] = b"\x01" * len(cd[1])
            own = img.binary or b""
            ok_fill = True
            for k in range(len(data)):
                if covered[k]:
                    continue
                want = own[k] if k < len(own) else None
                if want is None:
                    continue
                if data[k] != want:
                    ok_fill = False
            s.expect(ok_fill, toks, "own binary bytes are not at offset 0 where no sub-image covers them")
            if img.sub_images or not (own and len(own) == ln[1]):
                blk = ref_block(img.pattern, ln[1])   # independent of BinaryPattern.get_block
                bad = [k for k in range(len(own), min(len(data), len(blk))) if not covered[k] and data[k] != blk[k]]  # (a length mismatch is reported above)
                # padding appended by the final align_block restarts the pattern; only positions inside len() before alignment are checked
                s.expect(not bad or img.alignment != 1, toks, "uncovered bytes do not hold the fill pattern", bad[:4])
            # alignment only ever extends the end
            if img.alignment != 1:
                t1 = BinaryImage("a1", size=0, offset=img.offset, binary=img.binary, pattern=img.pattern, alignment=1)
                for c in img.sub_images:
                    t1.sub_images.append(c)
                unal = pyres(t1.export)
                if unal[0] == "ok" and not img._size:
                    s.expect(data[:len(unal[1])] == unal[1] and len(data) == (len(unal[1]) + img.alignment - 1) // img.alignment * img.alignment,
                             toks, "alignment changed bytes other than appending padding at the end", (len(data), len(unal[1])))
    if drv is not None:
        for (inp, line, real), ans in zip(reqs, drv.batch([r[1] for r in reqs])):
            s.compare(inp, real, ans)

    # ---------------------------------------------------------------- add_image ordering / append_image
    so = ck.stream("insertion_order", "random insertion sequences of 1-8 children with offsets 0..20 (many ties): resulting child order (stable sorted insert) "
                   "and append_image offset = current length; non-trivial = distinct sequence")
    reqs = []
    for _ in range(ck.budget(300, 5000)):
        offs = [rng.randrange(0, rng.choice([3, 20])) for _ in range(rng.randint(1, 8))]
        p = BinaryImage("p")
        szs = [rng.choice([1, 1, rng.randint(1, 24)]) for _ in offs]
        for i, o in enumerate(offs):
            p.add_image(BinaryImage(str(i), size=szs[i], offset=o))
        order = ",".join(c.name for c in p.sub_images)
        so.note(tuple(offs))
        pe = pyres(p.export)
        far = max(o + z for o, z in zip(offs, szs))
        so.expect(pyres(len, p) == ("ok", far) and pe[0] == "ok" and len(pe[1]) == far, (offs, szs),
                  "length of a parent with derived size is not the furthest end of all its children (overlapping ones included), or export() fails / has another length",
                  (pyres(len, p), pe[0]), far)
        so.expect([c.offset for c in p.sub_images] == sorted(offs), offs, "add_image does not keep the children sorted by offset", order)
        reqs.append((offs, "order " + " ".join(map(str, offs)), "ok:" + order))
        q = BinaryImage("q", binary=bytes(rng.randrange(0, 9)), alignment=rng.choice([1, 4]))
        before = len(q)
        q.append_image(BinaryImage("x", binary=b"\x11\x22\x33"))
        qe = pyres(q.export)
        so.expect(q.sub_images[-1].offset == before and qe[0] == "ok" and qe[1][before:before + 3] == b"\x11\x22\x33", offs,
                  "append_image does not place the image at the previous end", qe if qe[0] != "ok" else None)
    if drv is not None:
        for (inp, line, real), ans in zip(reqs, drv.batch([r[1] for r in reqs])):
            so.compare(inp, real, ans)

    # ---------------------------------------------------------------- negative offsets
    sn = ck.stream("negative_offset", "images / children with negative offsets must be refused by validate(); non-trivial = distinct case")
    for off in (-1, -5, -300):
        a = BinaryImage("a", binary=b"abc", offset=off)
        sn.note(("root", off))
        sn.expect(pyres(a.validate)[0] == "E:spsdk", ("root", off), "validate() accepts a negative offset", pyres(a.validate))
        p = BinaryImage("p", size=16)
        p.add_image(BinaryImage("c", binary=b"abc", offset=off))
        sn.note(("child", off))
        sn.expect(pyres(p.validate)[0] == "E:spsdk", ("child", off), "validate() accepts a child with negative offset", pyres(p.validate))

    # ---------------------------------------------------------------- file formats
    sf = ck.stream("file_formats", "save_binary_image/load_binary_image round trips for BIN, HEX and S19: 1-4 disjoint segments of 1..600 bytes at base addresses "
                   "up to 2^32-size (boundary classes 0, 0xFFFF/0x10000 crossings, 2^24, 2^32-len); bytes at the same absolute addresses; non-trivial = distinct layout")
    for k in range(ck.budget(300, 4000)):
        nseg = rng.randint(1, 4)
        ascii_case = k == 0  # one all-ASCII BIN payload per run keeps the known finding visible
        base = rng.choice([0, 0x10, 0xFFF0, 0xFFFF, 0x10000, 0xFFFFF0, 0x1000000, 0x0800_0000, 0xFFFF_F000, rng.getrandbits(32)])
        segs, pos = [], 0
        for _ in range(nseg):
            pos += rng.choice([0, 1, 16, 0x100, 0xFFF0, rng.randrange(0x20000)])
            ln = rng.choice([1, 2, 15, 16, 17, 32, 33, 255, 256, rng.randrange(1, 600)])
            segs.append((pos, bytes(rng.getrandbits(8) for _ in range(ln))))
            pos += ln
        if ascii_case:
            segs, pos = [(0, b"a2")], 2
        if base + pos > 0xFFFFFFFF:
            base = 0xFFFFFFFF - pos + 1
        root = BinaryImage("root", offset=base)
        for i, (o, d) in enumerate(segs):
            root.add_image(BinaryImage(f"s{i}", offset=o, binary=d))
        mem = {}
        for o, d in segs:
            for j, bb in enumerate(d):
                mem[base + o + j] = bb
        for fmt in ("BIN", "HEX", "S19"):
            path = os.path.join(scratch, f"img_{k}.{fmt.lower()}")
            sv = pyres(root.save_binary_image, path, fmt)
            sf.note((base, [(o, len(d)) for o, d in segs], fmt), cls=fmt)
            if sv[0] != "ok":
                sf.expect(False, (base, [(o, hexs(d)) for o, d in segs], fmt), "save_binary_image raised", sv)
                continue
            ld = pyres(BinaryImage.load_binary_image, path)
            # known finding: a BIN file whose whole content is printable ASCII is sniffed as a (malformed) text format
            rexp = pyres(root.export)
            if rexp[0] != "ok":
                sf.expect(False, (base, [(o, hexs(d)) for o, d in segs], fmt), "export() raised on a root with disjoint binary children", rexp)
                continue
            texty = fmt == "BIN" and all(c < 128 for c in rexp[1])
            if ld[0] != "ok":
                sf.expect(False, (base, [(o, hexs(d)) for o, d in segs], fmt), "load_binary_image raised on a file SPSDK wrote", ld,
                          finding="C16-bin-content-looks-like-text" if texty else None)
                continue
            img2 = ld[1]
            d2 = pyres(img2.export)
            if d2[0] != "ok":
                sf.expect(False, (base, [(o, hexs(d)) for o, d in segs], fmt), "export() of the loaded image raised", d2)
                continue
            data2 = d2[1]
            if fmt == "BIN":
                sf.expect(data2 == rexp[1], (base, segs, fmt), "BIN round trip changed the bytes",
                          finding="C16-bin-content-looks-like-text" if texty else None)
            else:
                start = img2.absolute_address
                first = min(mem)
                ok = start == first and all(0 <= a - start < len(data2) and data2[a - start] == v for a, v in mem.items())
                sf.expect(ok, (base, [(o, hexs(d)) for o, d in segs], fmt), f"{fmt} round trip does not give the same bytes at the same addresses", (start, first, len(data2)))
            os.unlink(path)

    # ---------------------------------------------------------------- file formats on whole trees (patterns, explicit sizes, alignment, nesting)
    st = ck.stream("file_formats_trees", "valid random trees (patterns, explicit sizes larger than the data, alignment > 1, nesting) at random base addresses saved as "
                   "BIN/HEX/S19 and loaded again: the loaded image must hold export()'s bytes at the same absolute addresses over the stored address range "
                   "(range computed independently: every node with a pattern stores len(node) bytes, every node with a binary stores it); non-trivial = distinct tree")

    def stored_range(img, base):
        lo, hi = None, None
        a = base + img.offset
        spans = []
        if img.pattern:
            spans.append((a, a + len(img)))
        if img.binary:
            spans.append((a, a + len(img.binary)))
        for c in img.sub_images:
            r = stored_range(c, a)
            if r:
                spans.append(r)
        spans = [x for x in spans if x[1] > x[0]]
        if not spans:
            return None
        return min(x[0] for x in spans), max(x[1] for x in spans)

    def unpatterned_under_pattern(im, anc):
        """a node with neither pattern nor full own binary below an ancestor that has a pattern or binary: BIN/export() hold zeros
        there, HEX/S19 hold the ancestor's bytes (known finding)"""
        if anc and im.pattern is None and len(im) > len(im.binary or b""):
            return True
        return any(unpatterned_under_pattern(c, anc or im.pattern is not None or bool(im.binary)) for c in im.sub_images)

    done = 0
    tries = 0
    want = ck.budget(150, 3000)
    while done < want and tries < want * 6:
        tries += 1
        t = gen_tree(rng, 0, 0.0)
        try:
            img = build(t)
        except Exception:  # noqa: BLE001
            continue
        if pyres(img.validate)[0] != "ok" or len(img) == 0:
            continue
        img.offset = rng.choice([0, 0x10, 0xFFF8, 0x10000, 0x20001000, 0x0800_0000, rng.getrandbits(31)])
        rr = pyres(stored_range, img, 0)
        if rr[0] != "ok":
            st.expect(False, " ".join(tokens(img)), "len() raised on a tree validate() accepts", rr)
            continue
        rngs = rr[1]
        if rngs is None:
            continue
        done += 1
        fe = pyres(img.export)
        if fe[0] != "ok":
            st.expect(False, " ".join(tokens(img)), "a tree validate() accepts does not export", fe)
            continue
        full = fe[1]
        for fmt in ("BIN", "HEX", "S19"):
            path = os.path.join(scratch, f"tree_{done}.{fmt.lower()}")
            toks = " ".join(tokens(img)) + " " + fmt
            st.note(toks, cls=fmt)
            sv = pyres(img.save_binary_image, path, fmt)
            if sv[0] != "ok":
                st.expect(False, toks, "save_binary_image raised on a valid tree", sv)
                continue
            ld = pyres(BinaryImage.load_binary_image, path)
            os.unlink(path)
            texty = fmt == "BIN" and all(c < 128 for c in full)
            if ld[0] != "ok":
                st.expect(False, toks, "load_binary_image raised on a file SPSDK wrote", ld, finding="C16-bin-content-looks-like-text" if texty else None)
                continue
            d2 = pyres(ld[1].export)
            if d2[0] != "ok":
                st.expect(False, toks, "export() of the loaded image raised", d2)
                continue
            data2 = d2[1]
            if fmt == "BIN":
                st.expect(data2 == full, toks, "BIN round trip changed the bytes", finding="C16-bin-content-looks-like-text" if texty else None)
            else:
                lo, hi = rngs
                exp = full[lo - img.offset:hi - img.offset]
                st.expect(ld[1].absolute_address == lo and data2 == exp, toks,
                          f"{fmt} round trip does not give export()'s bytes at the same addresses", (ld[1].absolute_address, data2[:64]), (lo, exp[:64]),
                          finding="C16-hex-unpatterned-child-transparent" if unpatterned_under_pattern(img, False) else None)

    # ---------------------------------------------------------------- configuration path (load_from_config, `nxpimage utils binary-image merge`)
    config_path(ck, drv, scratch)

    # ---------------------------------------------------------------- HEX / SREC text model (Model/HexFmt.lean)
    hexfmt_model(ck, drv, scratch)

    # ---------------------------------------------------------------- HEX / S19 of ARBITRARY trees: bincopy's overwrite path (Model/HexFmtOw.lean)
    hexfmt_trees(ck, drv, scratch)

    # ---------------------------------------------------------------- remaining tree operations (Model/BinImageOps.lean)
    tree_ops(ck, drv)


def config_path(ck, drv, scratch):
    """BinaryImage.load_from_config / `nxpimage utils binary-image merge`: the tree described by a configuration is the tree the API builds."""
    import yaml
    from spsdk.utils.images import BinaryImage
    from spsdk.utils.misc import BinaryPattern
    rng = ck.rng
    sc = ck.stream("config_path", "random binary-image configurations (1-5 regions: binary_block with pattern / binary_file with random bytes; explicit offsets incl. 0, "
                   "in any order, or omitted = placed after the previous region with the image alignment; overall size derived or explicit; alignment 1/4/16): the image "
                   "BinaryImage.load_from_config builds has every region at its configured offset, exports the bytes the Lean model gives for the tree built from the "
                   "same description, and `nxpimage utils binary-image merge` writes exactly those bytes; non-trivial = distinct configuration")
    cli_budget = ck.budget(12, 150)
    reqs = []
    for k in range(ck.budget(400, 6000)):
        al = rng.choice([1, 1, 4, 16])
        nreg = rng.randint(1, 5)
        rootpat = rng.choice(["zeros", "ones", "inc", "0xA5", "0x1234"])
        regions, spec = [], []          # spec: (name, offset or None, content bytes, pattern or None)
        shuffled = rng.random() < 0.5   # regions listed out of address order (then every offset is explicit)
        pos, slots = 0, []              # slots: (offset, length, explicit?) - an omitted offset means "after everything so far, aligned"
        for i in range(nreg):
            ln = rng.choice([1, 2, 3, 4, 8, 15, 16, 17, rng.randrange(1, 40)])
            explicit = shuffled or rng.random() < 0.6
            if explicit:
                off = pos + (rng.choice([0, 0, 1, 4, 16, rng.randrange(20)]) if (i or rng.random() < 0.4) else 0)
            else:
                off = (pos + al - 1) // al * al
            slots.append((off, ln, explicit))
            pos = off + ln
        if shuffled:
            rng.shuffle(slots)
        files = []
        for i, (off, ln, explicit) in enumerate(slots):
            name = f"r{i}"
            if rng.random() < 0.6:
                pat = rng.choice(["zeros", "ones", "inc", "0x5A", "0xBEEF", "0xCAFEF00D"])
                blk = {"name": name, "size": ln, "pattern": pat}
                if explicit:
                    blk["offset"] = off
                regions.append({"binary_block": blk})
                content = ref_block(pat, ln)
                spec.append((name, off if explicit else None, content, pat))
            else:
                data = bytes([0x80 | rng.getrandbits(7)] + [rng.getrandbits(8) for _ in range(ln - 1)])  # first byte >= 0x80: never sniffed as text
                path = os.path.join(scratch, f"cfg_{k}_{i}.bin")
                with open(path, "wb") as f:
                    f.write(data)
                files.append(path)
                fl = {"name": name, "path": path}
                if explicit:
                    fl["offset"] = off
                regions.append({"binary_file": fl})
                spec.append((name, off if explicit else None, data, None))
        end = max(o + l for o, l, _ in slots)
        size = 0 if rng.random() < 0.6 or not all(sp[1] is not None for sp in spec) else end + rng.choice([0, 1, 7, 64])
        cfg = {"name": "root", "size": size, "pattern": rootpat, "alignment": al, "regions": regions}
        key = json.dumps(cfg, sort_keys=True)
        sc.note(key, cls=("shuffled" if shuffled else "ordered") + ("/sized" if size else "/derived")
                + ("/offset0" if any(sp[1] == 0 for sp in spec) else "") + ("/omitted" if any(sp[1] is None for sp in spec) else ""))
        ld = pyres(BinaryImage.load_from_config, cfg)
        if ld[0] != "ok":
            sc.expect(False, cfg, "load_from_config raised on a valid configuration", ld)
            continue
        img = ld[1]
        # the tree the description denotes, built through the constructor (omitted offset: after everything placed so far, aligned)
        ref = BinaryImage("root", size=size, pattern=BinaryPattern(rootpat), alignment=al)
        cur_end = 0
        for name, off, content, pat in spec:
            o = off if off is not None else (cur_end + al - 1) // al * al
            if pat is None:
                ref.add_image(BinaryImage(name, offset=o, binary=content))
            else:
                ref.add_image(BinaryImage(name, size=len(content), offset=o, pattern=BinaryPattern(pat)))
            cur_end = max(cur_end, o + len(content))
            got = next((c for c in img.sub_images if c.name == name), None)
            sc.expect(got is not None and got.offset == o and len(got) == len(content), cfg,
                      "a region of the configuration is not placed at its configured offset" if off is not None else
                      "a region without offset is not placed after the previous one with the image alignment",
                      None if got is None else (name, got.offset, len(got)), (name, o, len(content)))
        va = pyres(img.validate)
        sc.expect(va[0] == "ok", cfg, "validate() refuses a configuration whose regions are disjoint and inside the image", va)
        ex = pyres(img.export)
        if ex[0] != "ok":
            sc.expect(False, cfg, "an image loaded from a valid configuration does not export", ex)
            continue
        data = ex[1]
        blk = ref_block(rootpat, len(data))
        covered = bytearray(len(data))
        ok_at = True
        for name, off, content, pat in spec:
            c = next((c for c in ref.sub_images if c.name == name))
            if data[c.offset:c.offset + len(content)] != content:
                ok_at = False
            covered[c.offset:c.offset + len(content)] = b"\x01" * len(content)
        sc.expect(ok_at, cfg, "a region's bytes do not appear at its configured offset in the exported image", hexs(data[:96]))
        if al == 1:
            sc.expect(all(covered[j] or data[j] == blk[j] for j in range(len(data))), cfg, "bytes outside every region do not hold the fill pattern", hexs(data[:96]))
        reqs.append((key, "export " + " ".join(tokens(ref)), canon(ex)))
        if cli_budget > 0 and va[0] == "ok":
            cli_budget -= 1
            from click.testing import CliRunner
            from spsdk.apps import nxpimage
            cpath, opath = os.path.join(scratch, f"cfg_{k}.yaml"), os.path.join(scratch, f"cfg_{k}.out")
            with open(cpath, "w") as f:
                yaml.safe_dump(cfg, f)
            r = CliRunner().invoke(nxpimage.main, ["utils", "binary-image", "merge", "-c", cpath, "-o", opath], catch_exceptions=True)
            out = open(opath, "rb").read() if os.path.exists(opath) else None
            rexp = pyres(ref.export)
            sc.expect(r.exit_code == 0 and rexp[0] == "ok" and out == rexp[1], cfg, "`nxpimage utils binary-image merge` does not write the image the configuration describes",
                      (r.exit_code, None if out is None else hexs(out[:96])), hexs(rexp[1][:96]) if rexp[0] == "ok" else rexp)
            for q in (cpath, opath):
                if os.path.exists(q):
                    os.unlink(q)
        for q in files:
            os.unlink(q)
    if drv is not None:
        for (inp, line, real), ans in zip(reqs, drv.batch([r[1] for r in reqs])):
            sc.compare(inp, real, ans)


def hexfmt_model(ck, drv, scratch):
    from spsdk.utils.images import BinaryImage
    rng = ck.rng
    ck.assume("HEX/SREC model: text is ASCII; TI-TXT / Verilog-VMEM sniffing after SREC and IHEX is not modelled (none of the generated texts is valid in those formats); "
              "bincopy.Segments.add with overwrite=True on ascending non-overlapping non-empty segments is modelled as 'merge when adjacent, else append'")
    sh = ck.stream("hexfmt_model", "Lean model of bincopy's Intel-HEX / S-record writer and reader vs the real code: (i) the TEXT save_binary_image writes for 1-4 ascending "
                   "segments of 1..600 bytes (classes: 64 KiB crossing, 0xFFFFFFE0.., 1/32/33-byte, adjacent, optional execution start address) byte for byte, "
                   "(ii) the segments/start address load_binary_image reads back from that text, (iii) ~30 kinds of malformed / unusual text (bad checksum, flipped digit, "
                   "wrong length, unknown type, odd digits, non-hex, inner white space, CR/CRLF, blank lines, swapped / duplicated / dropped records, zero-length and "
                   "too-short records, empty 02/04/05 records ...): accepted as HEX/SREC or not (raw-BIN fall-back counts as refused); non-trivial = distinct case")
    reqs = []

    def real_load(path, raw):
        """-> ('acc', canon line) | ('ref', how)"""
        ld = pyres(BinaryImage.load_binary_image, path)
        if ld[0] != "ok":
            return ("ref", ld[0])
        subs = ld[1].sub_images
        if len(subs) == 1 and subs[0].binary == raw and ld[1].absolute_address == 0:
            return ("ref", "bin-fallback")
        try:
            return ("acc", image_canon(ld[1]))
        except Exception as exc:  # noqa: BLE001  (e.g. len() overflow of an image spanning more than 2^63 bytes)
            return ("acc", "ok:? " + type(exc).__name__)

    boundary = [(0xFFF0, [(0, 32)]), (0xFFFF, [(0, 2)]), (0xFFE1, [(0, 64)]), (0xFFFF_FFE0, [(0, 32)]), (0xFFFF_FFDF, [(0, 33)]), (0xFFFF_FFFF, [(0, 1)]),
                (0, [(0, 1)]), (0, [(0, 32)]), (0, [(0, 33)]), (0x1_0000, [(0, 1)]), (0xFFFF, [(0, 1), (1, 1)]), (0x2000_0000, [(0, 32), (32, 32)]),
                (0x1FFFF, [(0, 1), (1, 33), (40, 1)]), (0xFFFE_FFF0, [(0, 16), (16, 16), (0x10000, 5)]), (0x12345678, [(0, 31), (31, 1), (32, 1)]),
                (0xFFFF_0000, [(0, 600)]), (0x7FFF_FFF0, [(0, 100)]), (0, [(0, 255), (255, 256), (0x10000, 1)])]
    ncases = ck.budget(220, 3000)
    for k in range(ncases):
        if k < len(boundary):
            base, lay = boundary[k]
            segs = [(o, bytes(rng.getrandbits(8) for _ in range(n))) for o, n in lay]
            pos = segs[-1][0] + len(segs[-1][1])
        else:
            base = rng.choice([0, 0x10, 0xFFF0, 0xFFFF, 0x10000, 0xFFFFF0, 0x1000000, 0x0800_0000, 0xFFFF_F000, 0xFFFF_FFE0, rng.getrandbits(32)])
            segs, pos = [], 0
            for _ in range(rng.randint(1, 4)):
                pos += rng.choice([0, 0, 1, 16, 0x100, 0xFFF0, rng.randrange(0x20000)])
                ln = rng.choice([1, 1, 2, 15, 16, 17, 31, 32, 33, 64, 65, 255, 256, rng.randrange(1, 600)])
                segs.append((pos, bytes(rng.getrandbits(8) for _ in range(ln))))
                pos += ln
        if base + pos > 0x1_0000_0000:
            base = 0x1_0000_0000 - pos
        ex = rng.choice([None, None, None, 0, 0x2000_0401, 0xFFFF_FFFF, rng.getrandbits(32)])
        root = BinaryImage("root", offset=base, execution_start_address=ex)
        for i, (o, d) in enumerate(segs):
            root.add_image(BinaryImage(f"s{i}", offset=o, binary=d))
        seg_toks = " ".join(f"{base + o}:{d.hex()}" for o, d in segs)
        etok = "N" if ex is None else str(ex)
        adjacent = any(segs[i][0] + len(segs[i][1]) == segs[i + 1][0] for i in range(len(segs) - 1))
        crossing = any((base + o) >> 16 != (base + o + len(d) - 1) >> 16 for o, d in segs)
        for fmt, op in (("HEX", "ihex"), ("S19", "srec")):
            inp = (fmt, base, ex, [(o, hexs(d)) for o, d in segs])
            path = os.path.join(scratch, f"hm_{k}.{fmt.lower()}")
            sh.note(inp, cls=f"{fmt}:write" + ("+adjacent" if adjacent else "") + ("+64k" if crossing else ""))
            sv = pyres(root.save_binary_image, path, fmt)
            if sv[0] != "ok":
                sh.expect(False, inp, "save_binary_image raised", sv)
                continue
            with open(path, "rb") as fh:
                raw = fh.read()
            # (i) text byte for byte
            reqs.append(((inp, "text"), f"{op}_enc {etok} {seg_toks}", "ok:" + raw.hex()))
            # (ii) what SPSDK reads back from it (through format sniffing)
            rl = real_load(path, raw)
            sh.expect(rl[0] == "acc", inp, "load_binary_image does not load the HEX/S19 text SPSDK wrote", rl)
            reqs.append(((inp, "read-back"), f"load_text {raw.hex()}", rl[1] if rl[0] == "acc" else "refused"))
            reqs.append(((inp, "read-back " + op), f"{op}_dec {raw.hex()}", rl[1] if rl[0] == "acc" else "refused"))
            os.unlink(path)
            # (iii) malformed / unusual variants of this text: accepted or refused
            text = raw.decode("ascii")
            for kind in rng.sample(MUTATIONS, ck.budget(3, 6)):
                mt = mutate_text(rng, text, fmt, kind)
                if mt is None or not mt.strip():
                    continue
                mraw = mt.encode("ascii")
                mpath = os.path.join(scratch, f"hm_{k}_m.{fmt.lower()}")
                with open(mpath, "wb") as fh:
                    fh.write(mraw)
                minp = (fmt, kind, mt if len(mt) < 400 else mt[:400] + "...")
                rl = real_load(mpath, mraw)
                strict = pyres(BinaryImage.load_binary_image, mpath, load_bin=False)
                os.unlink(mpath)
                crashed = rl == ("ref", "E:other") or strict[0] == "E:other"  # a non-SPSDK exception on malformed text: not this property's business
                sh.note((fmt, kind, mt), cls=f"{fmt}:{kind}:" + ("crashed" if crashed else "accepted" if rl[0] == "acc" else "refused"))
                if crashed:
                    continue
                sh.expect((strict[0] == "ok") == (rl[0] == "acc"), minp,
                          "load_binary_image(load_bin=False) and the default call disagree on whether the text is HEX/SREC", (strict[0], rl))
                reqs.append(((minp, "accept/refuse"), f"load_text {mraw.hex()}", "accepted" if rl[0] == "acc" else "refused"))
    if drv is not None:
        for (inp, line, real), ans in zip(reqs, drv.batch([r[1] for r in reqs])):
            if real in ("accepted", "refused"):
                ans = "accepted" if ans.startswith("ok:") else ("refused" if ans.startswith("E:") else ans)
            sh.compare(inp, real, ans)


def find_by_address(t, a, strict):
    """independent reading of get_image_by_absolute_address: sub-images first, in order, each with the address relative to this image's origin;
    strict=True is the documented meaning ('the image that contains the address': end address excluded); strict=False (end address accepted) is what the code
    did before e6ec992, kept for reference only"""
    for c in t.sub_images:
        r = find_by_address(c, a - t.offset, strict)
        if r is not None:
            return r
    end = t.offset + len(t)
    if a < t.offset or (a >= end if strict else a > end):
        return None
    return t


def path_of(root, node):
    if root is node:
        return []
    for i, c in enumerate(root.sub_images):
        p = path_of(c, node)
        if p is not None:
            return [i] + p
    return None


def tree_ops(ck, drv):
    from spsdk.exceptions import SPSDKValueError
    from spsdk.utils.images import BinaryImage
    from spsdk.utils.misc import BinaryPattern
    rng = ck.rng
    so = ck.stream("tree_ops", "random image trees (valid and invalid geometry, random root offset): join_images() (length, no sub-images left, export unchanged), "
                   "get_image_by_absolute_address() at every node's start / last / end address, the addresses around them and random ones (image found = path, absolute "
                   "address, length), update_offsets() (own offset, child offsets, length; absolute addresses kept), find_sub_image() with duplicate names, and trees "
                   "with the 'rand' pattern (length / validation / export length / data bytes as with any other pattern); compared with the Lean model "
                   "(Model/BinImageOps.lean) and with independent oracles; non-trivial = distinct case")
    reqs = []
    for k in range(ck.budget(260, 5000)):
        t = gen_tree(rng, 0, rng.choice([0.0, 0.0, 0.15, 0.5]))
        base = rng.choice([0, 0, 4, 0x100, 0x0800_0000])
        try:
            img = build(t)
        except Exception:  # noqa: BLE001
            continue
        img.offset = base
        if pyres(len, img)[0] != "ok":
            continue
        toks = " ".join(tokens(img))
        valid = pyres(img.validate)[0] == "ok"
        # ---- get_image_by_absolute_address
        nodes = []

        def walk(n, a):
            nodes.append((n, a + n.offset))
            for c in n.sub_images:
                walk(c, a + n.offset)
        walk(img, 0)
        addrs = set()
        for n, a in rng.sample(nodes, min(len(nodes), 4)):
            addrs.update([a, a + len(n), max(0, a + len(n) - 1), a + len(n) + 1, max(0, a - 1)])
        addrs.add(rng.randrange(0, base + len(img) + 3))
        for a in sorted(addrs)[:14]:
            inp = ("getaddr", a, toks)
            so.note(inp, cls="getaddr:" + ("valid" if valid else "invalid"))
            r = pyres(img.get_image_by_absolute_address, a)
            want = find_by_address(img, a, True)
            if r[0] == "ok":
                node = r[1]
                pth = path_of(img, node)
                so.expect(pth is not None, inp, "get_image_by_absolute_address returned an object that is not in the tree")
                if pth is None:
                    continue
                ab = next(a0 for n0, a0 in nodes if n0 is node)   # sum of the offsets down to the node (BinaryImage.absolute_address tests `if self.parent:`, i.e. len(parent) != 0)
                so.expect(node is want, inp, "get_image_by_absolute_address does not return the (first, deepest) image that contains the address",
                          (pth, ab, len(node)), None if want is None else (path_of(img, want), next(a0 for n0, a0 in nodes if n0 is want), len(want)))
                reqs.append((inp, f"getaddr {a} {toks}", "ok:" + (",".join(map(str, pth)) if pth else "-") + f" {ab} {len(node)}"))
            else:
                so.expect(r[0] == "E:spsdk" and want is None, inp, "get_image_by_absolute_address refuses an address some image contains (or raises a non-SPSDK error)", r)
                reqs.append((inp, f"getaddr {a} {toks}", r[0]))
        # ---- update_offsets (on a fresh copy)
        im2 = build(t)
        im2.offset = base
        before = [(c, im2.offset + c.offset, pyres(len, c)) for c in im2.sub_images]
        inp = ("updoff", toks)
        so.note(inp, cls="updoff:" + ("children" if im2.sub_images else "leaf"))
        r = pyres(im2.update_offsets)
        if r[0] == "ok":
            so.expect(bool(before) and all(im2.offset + c.offset == ab and pyres(len, c) == ln for c, ab, ln in before) and min(c.offset for c in im2.sub_images) == 0,
                      inp, "update_offsets moved a sub-image (absolute address or length changed) or did not bring the least offset to 0")
            reqs.append((inp, f"updoff {toks}", canon(pyres(lambda: f"{im2.offset} " + ",".join(str(c.offset) for c in im2.sub_images) + f" {len(im2)}"))))
        else:
            so.expect(not before and r[0] == "E:other", inp, "update_offsets raised on an image with sub-images", r)
            reqs.append((inp, f"updoff {toks}", r[0]))
        # ---- join_images (on a fresh copy)
        im3 = build(t)
        im3.offset = base
        ex0 = pyres(im3.export)
        ln0 = pyres(len, im3)
        inp = ("join", toks)
        so.note(inp, cls="join:" + ("valid" if valid else "invalid"))
        r = pyres(im3.join_images)
        if r[0] == "ok":
            ex1 = pyres(im3.export)
            if valid:
                so.expect(ex0[0] == "ok" and ex1 == ex0 and not im3.sub_images and pyres(len, im3) == ln0 and pyres(im3.validate)[0] == "ok", inp,
                          "join_images changed the exported bytes / the length of a valid tree, left sub-images or made it invalid")
            reqs.append((inp, f"join {toks}", canon(pyres(lambda: f"{len(im3)} {len(im3.sub_images)} " + (hexs(ex1[1]) if ex1[0] == "ok" else ex1[0])))))
        else:
            so.expect(not valid and ex0[0] == r[0], inp, "join_images raised although export() works (or on a valid tree)", r, ex0)
            reqs.append((inp, f"join {toks}", r[0]))
        # ---- size assigned after construction (`node.size = n`, n arbitrary, node anywhere in the tree), on a fresh copy
        im4 = build(t)
        im4.offset = base
        nodes4 = []

        def walk4(n, pth):
            nodes4.append((n, pth))
            for i, c in enumerate(n.sub_images):
                walk4(c, pth + [i])
        walk4(im4, [])
        toks4 = " ".join(tokens(im4))
        node, pth = rng.choice(nodes4)
        al = node.alignment
        cur = pyres(len, node)
        nn = rng.choice([1, 3, 5, 7, al + 1, 2 * al - 1, rng.randrange(1, 300)] + ([cur[1] + rng.choice([0, 1, 3])] if cur[0] == "ok" else []))
        inp = ("setsize", pth, nn, toks4)
        so.note(inp, cls="setsize:" + ("multiple" if nn % al == 0 else "non-multiple") + (":child" if pth else ":root"))
        asg = pyres(setattr, node, "size", nn)
        want = (nn + al - 1) // al * al
        SIZE_ASSIGNED.clear()
        SIZE_ASSIGNED[id(node)] = want
        if asg[0] != "ok":
            so.expect(False, inp, "assigning a size raised", asg)
        else:
            ln, va4, ex4 = pyres(len, im4), pyres(im4.validate), pyres(im4.export)
            so.expect(pyres(len, node) == ("ok", want), inp, "after `image.size = n` the reported size is not n rounded up to the alignment (as the constructor does)", pyres(len, node), want)
            so.expect(len_mismatch(im4) is None, inp, "after a size assignment len() of a node differs from the length restated from the description", len_mismatch(im4))
            so.expect((va4[0] != "ok") == ref_geometry_error(im4) and va4[0] in ("ok", "E:spsdk"), inp,
                      "after a size assignment validate() does not report an error exactly when the geometry (with the rounded size) is wrong", va4[0], ref_geometry_error(im4))
            if fits(im4):
                so.expect(ex4[0] == "ok" and len(ex4[1]) == ref_len(im4), inp, "after a size assignment export() fails or its length differs from the reported length (nothing sticks out)",
                          ex4[0] if ex4[0] != "ok" else len(ex4[1]), ref_len(im4))
            reqs.append((inp, f"setsize {','.join(map(str, pth)) if pth else '-'} {nn} {toks4}",
                         canon(pyres(lambda: f"{ln[1]} {len(node)} " + ("ok" if va4[0] == "ok" else "E:overlap" if va4[0] == "E:spsdk" else va4[0]) + " "
                                     + ((hexs(ex4[1])) if ex4[0] == "ok" else ex4[0])))))
        SIZE_ASSIGNED.clear()
        # ---- find_sub_image with duplicate names (oracle only; the model is `findSub` over the list of names)
        if img.sub_images:
            names = [rng.choice(["a", "b", "c"]) for _ in img.sub_images]
            for c, nm in zip(img.sub_images, names):
                c.name = nm
            for nm in ("a", "b", "c", "zz"):
                r = pyres(img.find_sub_image, nm)
                so.note(("find", nm, names), cls="find")
                if nm in names:
                    so.expect(r[0] == "ok" and r[1] is img.sub_images[names.index(nm)], ("find", nm, names), "find_sub_image does not return the first sub-image with that name")
                else:
                    so.expect(r[0] == "E:spsdk", ("find", nm, names), "find_sub_image does not raise SPSDKValueError for an unknown name", r[0])
        # ---- the 'rand' pattern: same tree, every pattern replaced by rand
        if valid and k % 3 == 0:
            def rand_copy(tt):
                d = dict(tt)
                d["pattern"] = "rand" if tt["pattern"] else None
                d["children"] = [rand_copy(c) for c in tt["children"]]
                return d
            ir = pyres(build, rand_copy(t))
            inp = ("rand", toks)
            so.note(inp, cls="rand")
            if ir[0] != "ok":
                so.expect(False, inp, "building the tree with the rand pattern raised", ir)
                continue
            ir = ir[1]
            ir.offset = base
            e1, e2, e0 = pyres(ir.export), pyres(ir.export), pyres(img.export)
            ok = pyres(len, ir) == pyres(len, img) and pyres(ir.validate)[0] == "ok" and e1[0] == e2[0] == e0[0] == "ok" and len(e1[1]) == len(e0[1]) == len(e2[1])
            so.expect(ok, inp, "with the rand pattern length / validation / export length differ from the same tree with deterministic patterns")
            if ok:
                mem = {}
                paint_data_only(ir, 0, mem)
                bad = [a for a, b in mem.items() if a - base < len(e1[1]) and (e1[1][a - base] != b or e0[1][a - base] != b)]
                so.expect(not bad, inp, "with the rand pattern a byte that belongs to a binary (not covered by a later sub-image) changed", bad[:4])
    if drv is not None:
        for (inp, line, real), ans in zip(reqs, drv.batch([r[1] for r in reqs])):
            so.compare(inp, real, ans)


def paint_data_only(img, base, mem):
    """absolute address -> byte for every byte that comes from a binary; a sub-image covers (removes or overwrites) what lies under its whole extent"""
    a = base + img.offset
    for k, b in enumerate(img.binary or b""):
        mem[a + k] = b
    for c in img.sub_images:
        for k in range(len(c)):
            mem.pop(a + c.offset + k, None)
        paint_data_only(c, a, mem)


def paint(img, base, mem):
    """independent statement of what HEX / S19 of a tree store: node by node (parents before children, children in order) the fill pattern over
    len(node), then the own binary, at the absolute address; later writes win.  mem: dict address -> byte"""
    a = base + img.offset
    if img.pattern is not None:
        for k, b in enumerate(ref_block(img.pattern, len(img))):
            mem[a + k] = b
    for k, b in enumerate(img.binary or b""):
        mem[a + k] = b
    for c in img.sub_images:
        paint(c, a, mem)


def mem_segments(mem):
    """dict address -> byte  ->  maximal runs [(addr, bytes)] ascending"""
    out = []
    for a in sorted(mem):
        if out and out[-1][0] + len(out[-1][1]) == a:
            out[-1][1].append(mem[a])
        else:
            out.append((a, bytearray([mem[a]])))
    return [(a, bytes(d)) for a, d in out]


def segs_line(segs):
    return "ok:" + " ".join(f"{a}:{hexs(d)}" for a, d in segs)


def hexfmt_trees(ck, drv, scratch):
    import bincopy
    from spsdk.utils.images import BinaryImage
    rng = ck.rng
    sw = ck.stream("hexfmt_trees", "bincopy's overwrite path as save_binary_image uses it, vs the Lean model (Model/HexFmtOw.lean): (i) random sequences of 1-9 "
                   "add_binary(.., overwrite=True) calls whose data touch / overlap / contain / precede each other (window of 0..200 bytes at bases incl. 0xFFxx, "
                   "0xFFFFFFxx): the BinFile's segments; (ii) random image trees - valid AND overlapping / sticking-out ones, patterns, explicit sizes, alignment, "
                   "nesting, zero-length nodes - at random base addresses: the BinFile's segments and the HEX and S19 TEXT save_binary_image writes, byte for byte; "
                   "oracle: segments / loaded bytes = 'last write wins' memory painted independently; non-trivial = distinct case")
    reqs = []
    # (i) write sequences
    for k in range(ck.budget(400, 6000)):
        base = rng.choice([0, 0, 0x10, 0xFF80, 0xFFFF, 0x1_0000, 0x2000_0000, 0xFFFF_FF00, rng.getrandbits(31)])
        ws = []
        for _ in range(rng.randint(1, 9)):
            ln = rng.choice([1, 1, 2, 3, 8, 16, 32, 33, rng.randrange(1, 80)])
            if ws and rng.random() < 0.5:
                pa, pd = rng.choice(ws)           # relative to an earlier write: touching behind / before, overlapping, inside, around, same start
                off = rng.choice([pa + len(pd), pa - ln, pa + len(pd) - 1, pa - ln + 1, pa, pa + 1, pa - 1, pa + len(pd) // 2])
                off = max(base, off)
            else:
                off = base + rng.randrange(0, 200)
            if off + ln > 0x1_0000_0000:
                off = 0x1_0000_0000 - ln
            ws.append((off, bytes(rng.getrandbits(8) for _ in range(ln))))
        inp = [(a, hexs(d)) for a, d in ws]
        sw.note(("writes", inp), cls="writes:%d" % min(len(ws), 4))

        def real_writes(ws=ws):
            bf = bincopy.BinFile()
            for a, d in ws:
                bf.add_binary(d, address=a, overwrite=True)
            return [(sg.address, bytes(sg.data)) for sg in bf.segments]
        rw = pyres(real_writes)
        mem = {}
        for a, d in ws:
            for j, b in enumerate(d):
                mem[a + j] = b
        if rw[0] != "ok":
            sw.expect(False, ("writes", inp), "bincopy add_binary(overwrite=True) raised", rw)
            reqs.append(((("writes", inp)), "ow_segs " + " ".join(f"{a}:{hexs(d)}" for a, d in ws), rw[0]))
            continue
        sw.expect(rw[1] == mem_segments(mem), ("writes", inp), "overwriting writes do not leave 'last write wins' memory as maximal ascending segments",
                  segs_line(rw[1])[:300], segs_line(mem_segments(mem))[:300])
        reqs.append(((("writes", inp)), "ow_segs " + " ".join(f"{a}:{hexs(d)}" for a, d in ws), segs_line(rw[1])))
    # (ii) whole trees
    done = 0
    for k in range(ck.budget(160, 2500)):
        t = gen_tree(rng, 0, rng.choice([0.0, 0.15, 0.5]))
        try:
            img = build(t)
        except Exception:  # noqa: BLE001
            continue
        mem0 = {}
        pr = pyres(paint, img, 0, mem0)
        if pr[0] != "ok":
            continue   # len() raised: reported by the `trees` stream
        top = max(mem0) + 1 if mem0 else 0
        base = rng.choice([0, 0x10, 0xFFF0, 0xFFFF, 0x1_0000, 0x0800_0000, 0x2000_1000, 0xFFFF_0000, rng.getrandbits(32)])
        if base + top > 0x1_0000_0000:
            base = 0x1_0000_0000 - top
        img.offset = base
        ex = rng.choice([None, None, 0, 0x2000_0401, rng.getrandbits(32)])
        img.execution_start_address = ex
        toks = " ".join(tokens(img))
        etok = "N" if ex is None else str(ex)
        mem = {a + base: b for a, b in mem0.items()}
        valid = pyres(img.validate)[0] == "ok"
        done += 1
        for fmt, op in (("HEX", "ihex"), ("S19", "srec")):
            inp = (fmt, etok, toks)
            sw.note(inp, cls=f"tree:{fmt}:" + ("valid" if valid else "invalid-geometry") + (":empty" if not mem else ""))
            path = os.path.join(scratch, f"ht_{k}.{fmt.lower()}")
            sv = pyres(img.save_binary_image, path, fmt)
            if sv[0] != "ok":
                sw.expect(False, inp, "save_binary_image raised", sv)
                reqs.append(((inp, "text"), f"save_{op} {etok} {toks}", sv[0]))
                continue
            with open(path, "rb") as fh:
                raw = fh.read()
            reqs.append(((inp, "text"), f"save_{op} {etok} {toks}", "ok:" + raw.hex()))
            if mem:
                ld = pyres(BinaryImage.load_binary_image, path)
                if ld[0] != "ok":
                    sw.expect(False, inp, "load_binary_image does not load the HEX/S19 file SPSDK wrote for this tree", ld)
                else:
                    got = pyres(lambda im=ld[1]: [(c.absolute_address, bytes(c.binary or b"")) for c in im.sub_images])
                    sw.expect(got[0] == "ok" and got[1] == mem_segments(mem), inp,
                              "the file does not hold, at every address, the last of the tree's writes (pattern, binary, sub-images in order) covering it",
                              None if got[0] != "ok" else segs_line(got[1])[:300], segs_line(mem_segments(mem))[:300])
                    sw.expect(ld[1].execution_start_address == ex, inp, "execution start address not preserved", ld[1].execution_start_address, ex)
            os.unlink(path)
        reqs.append((("segs", toks), f"save_segs {toks}", segs_line(mem_segments(mem))))
    if drv is not None:
        for (inp, line, real), ans in zip(reqs, drv.batch([r[1] for r in reqs])):
            sw.compare(inp, real, ans)


def replay(ck, data):
    run(ck)
