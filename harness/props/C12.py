"""C12 - per-device configuration areas: template, config and binary round trip.

Complete enumeration of (family, revision, area, sub-feature / memory type) from the LIVE device database
(PFR CMPA/CFPA, IFR ROMCFG/CMACTABLE, BCA, FCF, FCB per memory type, XMCD per memory/config type, TrustZone
preset, OTP fuse map, memory-configuration option words per peripheral).  For every case, on the real code:

  template -> YAML (PyYAML safe_load, the loader SPSDK itself uses) -> the area's own validation schemas
  (check_config) -> load -> export -> documented size -> the area's own parser (and verifier) -> export again
  (identity) -> get_config -> load again -> export equality;
  then value vectors (all-zero, all-ones = both boundary values of every register and bit-field, and random
  in-range values) through the same chain, read-back of every configured value, computed fields (inverse
  half-words / inverse bytes, seal words, ROTKH from keys, XMCD size word and CRC) re-computed independently.

Correspondence: the compact register layouts generated statically from the register JSON files
(tools/extract/gen_C12.py -> Generated/RegLayouts*.lean) are compared with the live `Registers` objects
(a mismatch is an infrastructure error, not a verdict), and the Lean model's export / parse / computed-field
functions (drv_c12) are compared byte-for-byte / value-for-value with the real ones.

A thin CLI stream drives the click entry points (pfr, ifr, nxpimage bca|fcf|tz, nxpimage bootable-image fcb|xmcd):
get-template -> generate/export -> parse -> generate/export again.

The work is spread over a process pool (fork); every case derives its own PRNG from (VERIF_SEED, case id), so the
result does not depend on scheduling.  Quick tier: every row gets the template chain and one random vector, the full
vector set runs on one seed-chosen row per distinct generated layout; thorough: everything on every row.
"""
from __future__ import annotations

import hashlib
import json
import os
import random
import time
import traceback

from vcore import Infra, pyres

SEAL = b"SEAL"
MAX_FAIL_PER_CASE = 6


# ====================================================================== enumeration of the finite domain
def enumerate_cases():
    """Every (kind, feature, sub, family, revision) the live database offers.  `sub` is a tuple key path."""
    from spsdk.utils.database import get_db, get_device, get_families

    cases = []

    def revs(fam):
        return list(get_device(fam).revisions.revision_names())

    for kind, feat, sub in (("cmpa", "pfr", "cmpa"), ("cfpa", "pfr", "cfpa"), ("romcfg", "ifr", "romcfg"), ("cmactable", "ifr", "cmactable")):
        for fam in get_families(feat, sub):
            for rev in revs(fam):
                fd = get_db(fam, rev).features.get(feat, {})
                if sub in fd and "reg_spec" in fd[sub]:
                    cases.append((kind, feat, (sub,), fam, rev))
    for kind, feat in (("bca", "bca"), ("fcf", "fcf"), ("tz", "tz"), ("fuses", "fuses")):
        for fam in get_families(feat):
            for rev in revs(fam):
                if feat in get_db(fam, rev).features:
                    cases.append((kind, feat, (), fam, rev))
    for fam in get_families("fcb"):
        for rev in revs(fam):
            fd = get_db(fam, rev).features.get("fcb")
            for mt in (fd or {}).get("mem_types", {}):
                cases.append(("fcb", "fcb", (mt,), fam, rev))
    for fam in get_families("xmcd"):
        for rev in revs(fam):
            fd = get_db(fam, rev).features.get("xmcd")
            for mt, cts in (fd or {}).get("mem_types", {}).items():
                for ct in cts:
                    cases.append(("xmcd", "xmcd", (mt, ct), fam, rev))
    for fam in get_families("memcfg"):
        for rev in revs(fam):
            fd = get_db(fam, rev).features.get("memcfg")
            for per, v in (fd or {}).get("peripherals", {}).items():
                if len(v.get("instances", [])):
                    cases.append(("memcfg", "memcfg", (per,), fam, rev))
    return cases


def live_group_key(case):
    """rows that resolve, in the live database, to the same register specification file with the same database entry of the
    (sub-)feature share one register layout: key for the quick-tier choice of the row that gets the full vector set"""
    from spsdk.utils.database import get_db
    kind, feat, sub, fam, rev = case
    try:
        db = get_db(fam, rev)
        fd = db.features.get(feat, {})
        if kind in ("cmpa", "cfpa", "romcfg", "cmactable"):
            ent, key = fd.get(sub[0], {}), [sub[0], "reg_spec"]
        elif kind == "fcb":
            ent, key = fd.get("mem_types", {}).get(sub[0], {}), ["mem_types", sub[0], "reg_spec"]
        elif kind == "xmcd":
            ent = [fd.get("header", {}), fd.get("mem_types", {}).get(sub[0], {}).get(sub[1], {})]
            key = ["mem_types", sub[0], sub[1], "reg_spec"]
        elif kind == "memcfg":
            ent, key = fd.get("peripherals", {}).get(sub[0], {}), ["peripherals", sub[0], "reg_spec"]
        else:
            ent, key = fd, "reg_spec"
        path = db.get_file_path(feat, key)
        return json.dumps([kind, path, ent], sort_keys=True, default=str)
    except Exception:  # noqa: BLE001
        return case_id(case)


def case_id(case):
    kind, feat, sub, fam, rev = case
    return "/".join([kind, fam, rev, *sub])


# ====================================================================== independent reference computations
def crc32_mpeg(data: bytes) -> int:
    crc = 0xFFFFFFFF
    for b in data:
        crc ^= b << 24
        for _ in range(8):
            crc = ((crc << 1) ^ 0x04C11DB7) & 0xFFFFFFFF if crc & 0x80000000 else (crc << 1) & 0xFFFFFFFF
    return crc


def ref_rkth(rot_type, keys):
    """keys: list of ('rsa', n, e) | ('ecc', bits, x, y)"""
    hs = []
    for k in keys:
        if k[0] == "rsa":
            n, e = k[1], k[2]
            hs.append(hashlib.sha256(n.to_bytes((n.bit_length() + 7) // 8, "big") + e.to_bytes((e.bit_length() + 7) // 8, "big")).digest())
        else:
            bits, x, y = k[1], k[2], k[3]
            h = hashlib.sha256 if bits == 256 else hashlib.sha384
            hs.append(h(x.to_bytes(bits // 8, "big") + y.to_bytes(bits // 8, "big")).digest())
    if rot_type == "cert_block_1":
        table = b"".join(hs) + bytes(32 * (4 - len(hs)))
        return hashlib.sha256(table).digest()
    if len(hs) == 1:
        return hs[0]
    h = hashlib.sha256 if len(hs[0]) == 32 else hashlib.sha384
    return h(b"".join(hs)).digest()


def make_keys(rng):
    """Deterministic public keys (public numbers only; no private key is needed for a key hash)."""
    from cryptography.hazmat.primitives.asymmetric import ec
    out = {"rsa": [], "ecc256": [], "ecc384": []}
    for _ in range(4):
        n = rng.getrandbits(2048) | (1 << 2047) | 1
        out["rsa"].append(("rsa", n, 65537))
    for name, curve, bits in (("ecc256", ec.SECP256R1(), 256), ("ecc384", ec.SECP384R1(), 384)):
        for _ in range(4):
            pn = ec.derive_private_key(rng.getrandbits(bits - 8) + 2, curve).public_key().public_numbers()
            out[name].append(("ecc", bits, pn.x, pn.y))
    return out


def spsdk_key(k):
    from cryptography.hazmat.primitives.asymmetric import ec, rsa
    from spsdk.crypto.keys import PublicKeyEcc, PublicKeyRsa
    if k[0] == "rsa":
        return PublicKeyRsa(rsa.RSAPublicNumbers(k[2], k[1]).public_key())
    curve = ec.SECP256R1() if k[1] == 256 else ec.SECP384R1()
    return PublicKeyEcc(ec.EllipticCurvePublicNumbers(k[2], k[3], curve).public_key())


# ====================================================================== helpers on live register files
def live_layout(regs):
    """Compact layout of a live Registers object: what the generated Lean table must contain."""
    out = []
    for r in regs._registers:
        out.append([r.offset, r.width, 1 if r.hidden else 0, [[b.offset, b.width] for b in r._bitfields]])
    return out


ACC_ID = {"NONE": 0, "RO": 1, "RW": 2, "WO": 3}


def live_details(regs_list):
    """details of FRESH live registers in the format of meta/RegDetails.json"""
    out = []
    for r in regs_list:
        fs = []
        for b in r._bitfields:
            fs.append([b.reset_value, 1 if b.hidden else 0, ACC_ID[b.access.label.upper()], b.config_width - b.width, b.name, b.uid,
                       [[e.get_value_int(), e.name] for e in b.get_enums()]])
        subs = list(r.sub_regs)
        grp = [subs[0].width if subs else 0, len(subs), 1 if (subs and r.reverse_subregs_order) else 0,
               sorted(int(a) for a in (r.alt_widths or [])) if subs else [], [k for sub in subs for k in (sub.name, sub.uid)]]
        out.append([r.get_value(raw=True), r.name, r.uid, ACC_ID[r.access.label.upper()], 1 if r.reverse else 0, fs, grp])
    return out


def raw_values(regs):
    return [r.get_value(raw=True) for r in regs._registers]


def is_fixed(fixed, reg_name, bf_name=None):
    return (reg_name, bf_name) in fixed or (reg_name, None) in fixed


def make_vector(rng, regs, template_settings, mode, fixed):
    """A configuration (same shape as the template's settings) with in-range values for every register/bit-field.

    Returns (settings, expectations) where expectations = list of (reg_name, bitfield_name|None, int value)."""
    settings, expect = {}, []
    k = 0  # running index of the configured items (for the alternating patterns)
    for reg_name, tval in template_settings.items():
        reg = regs.find_reg(reg_name, include_group_regs=True)
        if isinstance(tval, dict) and mode == "regvals" and not any(is_fixed(fixed, reg_name, b) for b in tval):
            # "all registers is possible to define also as one value although the bitfields are used" (TEMPLATE_NOTE)
            # (bits of the register that no bit-field - named or gap - covers have no representation in a configuration
            #  by design: the value is drawn inside the covered bits)
            cover = 0
            for b in reg._bitfields:
                cover |= ((1 << b.width) - 1) << b.offset
            v = rng.getrandbits(reg.width) & cover
            settings[reg_name] = hex(v)
            expect.append((reg_name, None, v))
            continue
        if isinstance(tval, dict):
            d = {}
            for bf_name, bval in tval.items():
                if is_fixed(fixed, reg_name, bf_name):
                    d[bf_name] = bval
                    continue
                bf = reg.find_bitfield(bf_name)
                shift = bf.config_width - bf.width  # SHIFT_RIGHT processor: the configuration carries value << count
                k += 1
                raw = {"zeros": 0, "ones": (1 << bf.width) - 1, "even": ((1 << bf.width) - 1) * (k % 2), "odd": ((1 << bf.width) - 1) * ((k + 1) % 2)}.get(mode)
                if raw is None:
                    raw = rng.getrandbits(bf.width)
                v = raw << shift
                names = {e.get_value_int(): e.name for e in bf.get_enums()}
                style = rng.randrange(3)
                if v in names and style == 0 and pyres(bf.get_enum_constant, names[v]) == ("ok", v):
                    d[bf_name] = names[v]  # (a name shared by several values denotes the first of them: not used for the others)
                elif style == 1:
                    d[bf_name] = v
                else:
                    d[bf_name] = hex(v)
                expect.append((reg_name, bf_name, v))
            settings[reg_name] = d
        else:
            if is_fixed(fixed, reg_name):
                settings[reg_name] = tval
                continue
            w = reg.width
            k += 1
            v = {"zeros": 0, "ones": (1 << w) - 1, "even": ((1 << w) - 1) * (k % 2), "odd": ((1 << w) - 1) * ((k + 1) % 2)}.get(mode)
            if v is None:
                v = rng.getrandbits(w)
                if reg.alt_widths:  # keep the value unambiguous for alternative-width registers (both end bytes non-zero)
                    v |= (1 << (w - 1)) | 1
            if reg.config_as_hexstring:
                settings[reg_name] = f"{v:0{w // 4}X}"
            else:
                settings[reg_name] = hex(v) if rng.random() < 0.7 or v >= 1 << 63 else v
            expect.append((reg_name, None, v))
    return settings, expect


def readback(regs, expect, optional=()):
    """-> list of (reg, bitfield, expected, got) that differ."""
    bad = []
    for reg_name, bf_name, v in expect:
        r = pyres(regs.find_reg, reg_name, include_group_regs=True)
        if r[0] != "ok":
            if reg_name not in optional:
                bad.append((reg_name, bf_name, v, "register not found"))
            continue
        reg = r[1]
        got = reg.find_bitfield(bf_name).get_value() if bf_name is not None else reg.get_value(raw=False)
        if got != v:
            bad.append((reg_name, bf_name, v, got))
    return bad


# ====================================================================== area adapters
class AreaBase:
    """One (family, revision, area, sub) case on the real code."""

    fixed = frozenset()
    optional = frozenset()   # registers that exist only for some settings (by design)
    has_binary = True
    img_size = 0             # `size` / prefill byte handed to image_info by the area's export
    img_fill = 0
    settings_key = "settings"

    def __init__(self, case):
        self.kind, self.feature, self.sub, self.family, self.rev = case

    # -- to be provided
    def template(self): raise NotImplementedError
    def schemas(self): raise NotImplementedError
    def load(self, cfg): raise NotImplementedError
    def export(self, obj): raise NotImplementedError
    def parse(self, data): raise NotImplementedError
    def config(self, obj): raise NotImplementedError
    def regs(self, obj): raise NotImplementedError
    def doc_size(self, obj): return None
    def verify(self, obj): return None
    def observable(self, obj): return self.export(obj)
    def settings(self, cfg): return cfg[self.settings_key]
    def fresh_regs(self): return None   # list of the registers of a freshly constructed object
    def fresh_registers(self): return None   # the Registers object of a freshly constructed area (None: not a single register file)

    def with_settings(self, cfg, settings):
        c = dict(cfg)
        c[self.settings_key] = settings
        return c


class PfrArea(AreaBase):
    def __init__(self, case):
        super().__init__(case)
        from spsdk.pfr import pfr
        self.cls = {"cmpa": pfr.CMPA, "cfpa": pfr.CFPA, "romcfg": pfr.ROMCFG, "cmactable": pfr.CMACTABLE}[self.kind]
        self.base = pfr.BaseConfigArea
        self.img_size = self.cls.BINARY_SIZE
        self.img_fill = int(self.cls.IMAGE_PREFILL_PATTERN, 0)

    def template(self):
        from spsdk.utils.schema_validator import CommentedConfig
        return CommentedConfig(f"{self.kind.upper()} configuration template", self.schemas()).get_template()

    def schemas(self): return self.cls.get_validation_schemas(family=self.family, revision=self.rev)
    def load(self, cfg): return self.base.load_from_config(cfg)
    def export(self, obj): return obj.export(draw=False)
    def doc_size(self, obj): return self.cls.BINARY_SIZE

    def parse(self, data):
        o = self.cls(family=self.family, revision=self.rev)
        o.parse(data)
        return o

    def config(self, obj): return obj.get_config()
    def regs(self, obj): return obj.registers
    def fresh_regs(self): return self.cls(family=self.family, revision=self.rev).registers._registers
    def fresh_registers(self): return self.cls(family=self.family, revision=self.rev).registers


class SegArea(AreaBase):
    """BCA / FCF"""

    def __init__(self, case):
        super().__init__(case)
        from spsdk.image.bca.bca import BCA
        from spsdk.image.fcf.fcf import FCF
        self.cls = {"bca": BCA, "fcf": FCF}[self.kind]
        self.settings_key = self.kind
        self.fixed = frozenset({("TAG", None)}) if self.kind == "bca" else frozenset()

    def template(self): return self.cls.generate_config_template(self.family, self.rev)
    def schemas(self): return self.cls.get_validation_schemas(self.family, self.rev)
    def load(self, cfg): return self.cls.load_from_config(cfg)
    def export(self, obj): return obj.export()
    def doc_size(self, obj): return self.cls.SIZE
    def parse(self, data): return self.cls.parse(data, family=self.family, revision=self.rev)
    def config(self, obj): return obj.get_config()
    def regs(self, obj): return obj.registers
    def fresh_regs(self): return self.cls(self.family, self.rev).registers._registers
    def fresh_registers(self): return self.cls(self.family, self.rev).registers


class FcbArea(AreaBase):
    settings_key = "fcb_settings"
    fixed = frozenset({("tag", None)})

    def __init__(self, case):
        super().__init__(case)
        from spsdk.image.fcb.fcb import FCB
        from spsdk.image.mem_type import MemoryType
        self.cls = FCB
        self.mt = MemoryType.from_label(self.sub[0])

    def template(self): return self.cls.generate_config_template(self.family, self.mt, self.rev)
    def schemas(self): return self.cls.get_validation_schemas(self.family, self.mt, self.rev)
    def load(self, cfg): return self.cls.load_from_config(cfg)
    def export(self, obj): return obj.export()

    def doc_size(self, obj):
        # the documented size of the block is what the bootable-image layout reserves for it where it says so,
        # otherwise the class constant
        return None

    def parse(self, data): return self.cls.parse(data, family=self.family, mem_type=self.mt, revision=self.rev)

    def config(self, obj):
        import yaml
        return yaml.safe_load(obj.create_config())

    def regs(self, obj): return obj.registers
    def fresh_regs(self): return self.cls(self.family, self.mt, self.rev).registers._registers
    def fresh_registers(self): return self.cls(self.family, self.mt, self.rev).registers


class XmcdArea(AreaBase):
    settings_key = "xmcd_settings"
    # the header word describes the block itself (tag, version, size, block type, interface): structural
    fixed = frozenset({("header", None)})
    optional = frozenset({"configOption1"})  # present iff configOption0.optionSize != 0

    def __init__(self, case):
        super().__init__(case)
        from spsdk.image.mem_type import MemoryType
        from spsdk.image.xmcd.xmcd import XMCD, ConfigurationBlockType
        self.cls = XMCD
        self.mt = MemoryType.from_label(self.sub[0])
        self.ct = ConfigurationBlockType.from_label(self.sub[1])

    def template(self): return self.cls.generate_config_template(self.family, self.mt, self.ct, self.rev)
    def schemas(self): return self.cls.get_validation_schemas(self.family, self.mt, self.ct, self.rev)
    def load(self, cfg): return self.cls.load_from_config(json.loads(json.dumps(cfg)))  # load pops "header" from the dict
    def export(self, obj): return obj.export()
    def doc_size(self, obj): return obj.header.xmcd_size
    def parse(self, data): return self.cls.parse(data, family=self.family, revision=self.rev)
    def verify(self, obj): return not obj.verify().has_errors

    def config(self, obj):
        import yaml
        return yaml.safe_load(obj.create_config())

    def regs(self, obj): return obj.registers

    def fresh_regs(self):
        # (the XMCD constructor writes interface / block type / size into the header word: the specification state is the one of
        #  the two register files before that)
        from spsdk.image.xmcd.xmcd import XMCDConfigBlock, XMCDHeader
        hdr = XMCDHeader._init_registers(self.family, self.rev)._registers
        blk = XMCDConfigBlock._init_registers(self.family, self.mt, self.ct, self.rev).get_registers()
        return list(hdr) + list(blk)


class TzArea(AreaBase):
    settings_key = "trustZonePreset"

    def __init__(self, case):
        super().__init__(case)
        from spsdk.image.trustzone import TrustZone
        self.cls = TrustZone

    def template(self):
        t = self.cls.generate_config_template(self.family, self.rev)
        assert len(t) == 1
        return next(iter(t.values()))

    def schemas(self): return self.cls.get_validation_schemas(self.family, self.rev)
    def load(self, cfg): return self.cls.from_config(json.loads(json.dumps(cfg)))
    def export(self, obj): return obj.export()
    def doc_size(self, obj): return self.cls.get_preset_data_size(self.family, self.rev)
    def parse(self, data): return self.cls.from_binary(self.family, data, self.rev)

    def config(self, obj):
        return {"family": self.family, "revision": self.rev, "trustZonePreset": dict(obj.customs)}

    def regs(self, obj): return None


class FuseArea(AreaBase):
    settings_key = "registers"
    has_binary = False

    def __init__(self, case):
        super().__init__(case)
        from spsdk.fuses.fuses import Fuses
        self.cls = Fuses

    def template(self): return self.cls.generate_config_template(self.family, self.rev)
    def schemas(self): return self.cls.get_validation_schemas(self.family, self.rev)
    def load(self, cfg): return self.cls.load_from_config(cfg)
    def config(self, obj): return obj.get_config()
    def regs(self, obj): return obj.fuse_regs
    def fresh_regs(self): return self.cls(self.family, self.rev).fuse_regs._registers
    def fresh_registers(self): return self.cls(self.family, self.rev).fuse_regs

    def observable(self, obj):
        # the fuse map has no binary form in SPSDK (fuses are burnt word by word): the observable is the value of
        # every register and sub-register
        out = []
        for r in obj.fuse_regs._registers:
            out.append((r.uid, r.get_value(raw=True)))
            for s in r.sub_regs:
                out.append((s.uid, s.get_value(raw=True)))
        return out


class MemcfgArea(AreaBase):
    def __init__(self, case):
        super().__init__(case)
        from spsdk.memcfg.memcfg import MemoryConfig
        self.cls = MemoryConfig
        self.per = self.sub[0]

    def _obj(self): return self.cls(family=self.family, peripheral=self.per, revision=self.rev)

    def template(self):
        from spsdk.utils.registers import Registers
        from spsdk.utils.schema_validator import CommentedConfig
        return CommentedConfig(main_title=f"Option Words Configuration template for {self.family}, {self.per}.",
                               schemas=self.schemas(), note="Note for settings:\n" + Registers.TEMPLATE_NOTE).get_template()

    def schemas(self): return self._obj().get_validation_schemas()
    def load(self, cfg): return self.cls.load_config(cfg)
    def export(self, obj): return obj.export()
    def doc_size(self, obj): return 4 * len(obj.regs.get_registers())

    def parse(self, data):
        return self.cls.parse(data, family=self.family, peripheral=self.per, revision=self.rev)

    def config(self, obj): return obj.get_config()
    def regs(self, obj): return obj.regs
    def fresh_regs(self): return self._obj().regs._registers
    def fresh_registers(self): return self._obj().regs

    def observable(self, obj):
        # the configuration carries (by design) only the option words that count for the current settings
        return list(obj.option_words)


ADAPTERS = {"cmpa": PfrArea, "cfpa": PfrArea, "romcfg": PfrArea, "cmactable": PfrArea, "bca": SegArea, "fcf": SegArea,
            "fcb": FcbArea, "xmcd": XmcdArea, "tz": TzArea, "fuses": FuseArea, "memcfg": MemcfgArea}


# ====================================================================== one case (runs in a worker process)
class Rec:
    """Collected results of one case (picklable)."""

    def __init__(self, cid):
        self.cid = cid
        self.evals = []      # (input, cls)
        self.fails = []      # (input, what, observed, expected, finding)
        self.model = []      # correspondence requests: dict
        self.layout = None
        self.details = None
        self.infra = None
        self.t = 0.0

    def note(self, inp, cls):
        self.evals.append((inp, cls))

    def expect(self, cond, inp, what, observed=None, expected=None, finding=None):
        if not cond and len(self.fails) < MAX_FAIL_PER_CASE:
            self.fails.append((inp, what, _short(observed), _short(expected), finding))
        return bool(cond)


def _short(x):
    if isinstance(x, (bytes, bytearray)):
        return bytes(x).hex()
    if isinstance(x, tuple) and len(x) == 2 and x[0] == "ok":
        return ("ok", _short(x[1]))
    s = repr(x) if not isinstance(x, (str, int, type(None), list, dict, tuple)) else x
    if isinstance(s, str) and len(s) > 600:
        return s[:600] + "..."
    return s


def first_diff(a: bytes, b: bytes):
    if len(a) != len(b):
        return f"length {len(a)} vs {len(b)}"
    for i, (x, y) in enumerate(zip(a, b)):
        if x != y:
            return f"first difference at byte {i} (0x{i:X}): {a[i:i + 8].hex()} vs {b[i:i + 8].hex()}"
    return "equal"


_compile_cache = {}


def _install_compile_cache():
    """check_config compiles the merged schema on every call (0.2-0.7 s); the compiled validator is a pure function
    of the schema, so it is memoised per schema text.  The real check_config code path is otherwise untouched."""
    import fastjsonschema
    if getattr(fastjsonschema.compile, "_verif_cached", False):
        return
    orig = fastjsonschema.compile

    def cached(schema, *a, **kw):
        try:
            key = hashlib.blake2b(json.dumps(schema, sort_keys=True, default=repr).encode(), digest_size=16).digest()
        except Exception:  # noqa: BLE001
            return orig(schema, *a, **kw)
        v = _compile_cache.get(key)
        if v is None:
            if len(_compile_cache) > 8:
                _compile_cache.clear()
            v = _compile_cache[key] = orig(schema, *a, **kw)
        return v

    cached._verif_cached = True
    fastjsonschema.compile = cached


def _install_fast_registers_copy():
    """XMCD's `registers` property deep-copies its Registers objects on every access, and a Registers object drags the whole
    device-database entry (`self.db`) along: 0.2-0.6 s per access, ~20 s per case.  The database object is read-only for
    Registers, so inside the workers a deep copy shares it (speed only; everything else is copied as before)."""
    import copy

    from spsdk.utils.registers import _RegistersBase
    if getattr(_RegistersBase, "_verif_fast_copy", False):
        return

    def _deepcopy(self, memo):
        db = self.__dict__.get("db")
        if db is not None:
            memo[id(db)] = db
        new = self.__class__.__new__(self.__class__)
        memo[id(self)] = new
        for k, v in self.__dict__.items():
            setattr(new, k, copy.deepcopy(v, memo))
        return new

    _RegistersBase.__deepcopy__ = _deepcopy
    _RegistersBase._verif_fast_copy = True


def _crash(rec, cid):
    """An exception that escaped: raised by the real code (a frame of /repo/spsdk is the innermost one) = the implementation
    fails where it did not before -> an oracle failure with the case attached; raised by the harness itself = infrastructure."""
    tb = traceback.format_exc()
    frames = [ln for ln in tb.splitlines() if ln.strip().startswith("File ")]
    repo = str(os.environ.get("SPSDK_REPO", "/repo")) + "/spsdk"
    if frames and repo in frames[-1]:
        rec.fails.append(((cid, "unexpected-exception"), "the implementation raised an unexpected exception while the harness inspected the area",
                          tb[-900:], None, None))
    else:
        rec.infra = tb[-3000:]


def run_case(args):
    case, seed, modes, keys = args
    cid = case_id(case)
    rec = Rec(cid)
    t0 = time.time()
    try:
        _run_case(case, seed, modes, keys, rec)
    except Exception:  # noqa: BLE001
        _crash(rec, cid)
    rec.t = time.time() - t0
    return rec


def _run_case(case, seed, modes, keys, rec):
    import logging

    import yaml
    from spsdk.utils.schema_validator import check_config
    logging.disable(logging.CRITICAL)
    _install_compile_cache()
    _install_fast_registers_copy()
    kind, feat, sub, fam, rev = case
    cid = rec.cid
    rng = random.Random(f"C12/{seed}/{cid}")
    A = ADAPTERS[kind](case)
    E = rec.expect

    # ---------------------------------------------------------------- template -> YAML -> schema -> load
    rec.note((cid, "template"), f"{kind}:template")
    r = pyres(A.template)
    if not E(r[0] == "ok" and isinstance(r[1], str) and r[1].strip() != "", (cid, "template"), "template generation fails", r):
        return
    tpl = r[1]
    try:
        cfg = yaml.safe_load(tpl)
    except yaml.YAMLError as exc:
        E(False, (cid, "template"), "generated template is not valid YAML", str(exc)[:300])
        return
    if not E(isinstance(cfg, dict) and A.settings_key in cfg, (cid, "template"), "template does not parse to a configuration with the area's settings",
             sorted(cfg) if isinstance(cfg, dict) else type(cfg).__name__):
        return
    r = pyres(A.schemas)
    if not E(r[0] == "ok", (cid, "schemas"), "validation schemas cannot be built", r):
        return
    schemas = r[1]
    r = pyres(check_config, cfg, schemas)
    E(r[0] == "ok", (cid, "template"), "generated template does not satisfy the area's own validation schema", r)
    r = pyres(A.load, json.loads(json.dumps(cfg)))
    if not E(r[0] == "ok", (cid, "template"), "generated template does not load", r):
        return
    obj = r[1]
    tsettings = A.settings(cfg)
    regs0 = A.regs(obj)
    if regs0 is not None:
        fr = A.fresh_regs()
        if fr is not None:
            rec.details = live_details(fr)
            if len(modes) > 1:  # (rows that get the full vector set)
                _enum_items(A, rec, rng)
        rec.layout = live_layout(regs0)
        E(len(regs0._registers) > 0, (cid, "registers"), "the area has no registers")
        _check_spec_complete(A, regs0, rec)

    # ---------------------------------------------------------------- value vectors through the whole chain
    vectors = [("template", tsettings, [])]
    if kind == "tz":
        names = list(tsettings)
        for mode in modes:
            d = {}
            for j, n in enumerate(names):
                v = {"zeros": 0, "ones": 0xFFFFFFFF, "even": 0xFFFFFFFF * (j % 2), "odd": 0xFFFFFFFF * ((j + 1) % 2)}.get(mode)
                v = rng.getrandbits(32) if v is None else v
                d[n] = rng.choice([f"0x{v:08x}", f"0x{v:08X}", v])
            if mode == "rand":  # a sparse customisation: only some registers given, the rest comes from the family presets
                for n in rng.sample(names, k=len(names) // 2):
                    if rng.random() < 0.5:
                        del d[n]
            vectors.append((mode, d, []))
    else:
        for mode in modes:
            s, ex = make_vector(rng, regs0, tsettings, mode, A.fixed)
            vectors.append((mode, s, ex))

    for vi, (mode, settings, expect) in enumerate(vectors):
        inp = (cid, mode, vi)
        rec.note(inp, f"{kind}:{mode}")
        c = A.with_settings(cfg, settings)
        if mode != "template":
            r = pyres(check_config, c, schemas)
            E(r[0] == "ok", inp + (_cfg_excerpt(settings),), "a configuration with in-range values is refused by the area's validation schema", r)
        r = pyres(A.load, json.loads(json.dumps(c)))
        if not E(r[0] == "ok", inp + (_cfg_excerpt(settings),), "a configuration with in-range values does not load", r):
            continue
        o1 = r[1]
        regs1 = A.regs(o1)
        if expect:
            bad = readback(regs1, expect, A.optional)
            E(not bad, inp, "a configured in-range value is not the value the loaded object holds (lost or truncated)", bad[:4],
              finding=_finding_readback(A, regs1, bad))
        _chain(A, o1, inp, rec, kind, expect, settings, c, rng, keys)
    _alt_width_checks(A, cfg, tsettings, regs0, rec, rng)
    _hexstring_checks(A, cfg, tsettings, regs0, rec, rng)


def _hexstring_values(rng, width):
    """value classes for a register whose configuration value is a hex string WITHOUT the 0x prefix (config_as_hexstring): strings
    that consist of the digits 0-9 only and denote a value >= 0x10 (they read differently as decimal numbers), a string that starts
    with '0B' followed by 0/1 digits only (reads as a binary literal), besides small and ordinary values as controls"""
    nd = width // 4
    m = (1 << width) - 1
    pat = int(("1122334455667788" * (nd // 16 + 1))[:nd], 16)
    rnd = int("".join(rng.choice("0123456789") for _ in range(nd)), 16)
    rnd |= 0x10
    out = [("small-9", 0x9), ("digits-0x10", 0x10), ("digits-0x99", 0x99), ("digits-pattern", pat & m), ("digits-all-nines", int("9" * nd, 16)),
           ("digits-random", rnd & m), ("letters", int(("EFCDAB89" * (nd // 8 + 1))[:nd], 16) & m)]
    if nd >= 4:
        out.append(("0b-binary-look", int("0B" + "1" * (nd - 2), 16)))
    return out


def _hexstring_checks(A, cfg, tsettings, regs0, rec, rng):
    """EVERY run, EVERY row with registers marked config_as_hexstring (FCF BACKDOOR_COMPARISON_KEY, CMPA ROTKH, fuse key groups, ...):
    get_config writes them as hex WITHOUT prefix; for the digit-only classes the string must still be read as hexadecimal.  Oracle from
    the input alone: x = load(template with the register given as 0x-prefixed literal); export(load(get_config(x))) == export(x) (values
    for the fuse map), the configuration is a fixed point, and the register of the reloaded object holds the number the string denotes
    in base 16."""
    if regs0 is None:
        return
    E = rec.expect
    cid = rec.cid
    cand = [reg for reg in regs0._registers if reg.config_as_hexstring and not reg._bitfields and reg.name in tsettings
            and not isinstance(tsettings[reg.name], dict) and not is_fixed(A.fixed, reg.name)]
    if len(cand) > 3:
        cand = rng.sample(cand, 3)
    for reg in cand:
        W = reg.width
        for label, v in _hexstring_values(rng, W):
            if reg.sub_regs and len(reg.sub_regs) * reg.sub_regs[0].width != W:
                continue   # open finding C12-group-wider-than-subregs
            inp = (cid, "hexstring", reg.name, label, f"{v:X}")
            rec.note(inp, f"{A.kind}:hexstring:{label}")
            settings = dict(tsettings)
            settings[reg.name] = "0x" + f"{v:0{W // 4}X}"
            c = A.with_settings(cfg, settings)
            r = pyres(A.load, json.loads(json.dumps(c)))
            if not E(r[0] == "ok", inp, "a configuration with an in-range 0x-prefixed value for a hex-string register does not load", r):
                continue
            o1 = r[1]
            g = A.regs(o1).find_reg(reg.name)
            gv = pyres(g.get_value)
            if not E(gv == ("ok", v), inp, "the register does not hold the configured value", gv, v):
                continue
            c2 = pyres(A.config, o1)
            if not E(c2[0] == "ok", inp, "get_config fails", c2):
                continue
            shown = None
            try:
                shown = A.settings(c2[1]).get(reg.name)
            except Exception:  # noqa: BLE001
                shown = None
            if isinstance(shown, str):
                # what the configuration text denotes (format description: hex digits, optional 0x prefix) must be the value
                try:
                    den = int(shown, 16)
                except ValueError:
                    den = None
                E(den == v, inp, "get_config shows a hex-string register with a text that does not denote its value in base 16", shown, f"{v:X}")
                # correspondence item: the scalar decoding of the model (generated rule of _load_yml_config) on exactly this text
                fresh = pyres(A.fresh_registers)
                if fresh[0] == "ok" and fresh[1] is not None:
                    for text in (shown, "0x" + shown if not shown.lower().startswith("0x") else shown, v):
                        fr = pyres(A.fresh_registers)
                        if fr[0] != "ok" or fr[1] is None:
                            break
                        lr = pyres(fr[1].load_yml_config, {reg.name: text})
                        res = "err"
                        if lr[0] == "ok":
                            rv = pyres(fr[1].find_reg(reg.name).get_value)
                            res = f"ok:{rv[1]}" if rv[0] == "ok" else "err"
                        rec.model.append({"op": "scalar", "hx": 1, "text": text, "width": W, "res": res, "inp": list(map(str, inp)) + [str(text)]})
            l2 = pyres(A.load, json.loads(json.dumps(c2[1])))
            if not E(l2[0] == "ok", inp, "the configuration produced by get_config does not load back", l2, _cfg_excerpt({reg.name: shown})):
                continue
            g2 = pyres(lambda: A.regs(l2[1]).find_reg(reg.name).get_value())
            E(g2 == ("ok", v), inp, "load_from_config(get_config(x)): a hex-string register does not get its value back (the text of the "
              "configuration is read in another base)", (hex(g2[1]) if g2[0] == "ok" else g2, shown), hex(v))
            if A.has_binary:
                b1, b2 = pyres(A.export, o1), pyres(A.export, l2[1])
                E(b1[0] == "ok" and b2 == ("ok", b1[1]), inp, "export(load_from_config(get_config(x))) differs from export(x)",
                  first_diff(bytes(b1[1]), bytes(b2[1])) if b1[0] == "ok" and b2[0] == "ok" else (b1[0], b2[0]))
            else:
                o3, o1v = pyres(A.observable, l2[1]), pyres(A.observable, o1)
                E(o3 == o1v, inp, "load(get_config(x)) does not hold the same values as x", _obs_diff(o1v, o3))
            c3 = pyres(A.config, l2[1])
            E(c3[0] == "ok" and c2[0] == "ok" and json.dumps(c3[1], sort_keys=True, default=str) == json.dumps(c2[1], sort_keys=True, default=str), inp,
              "get_config(load_from_config(get_config(x))) differs from get_config(x)")


def _ref_field(v, width, alts, reverse):
    """Documented placement of a wide register value, written from the format description (independent of registers.py):
    a byte-reversed register (ROTKH / RKTH: the configuration shows the hash as the byte string it is) holds the value as a
    big-endian byte string of the SMALLEST alternative width that holds it (else the full width), left-justified in the field
    and zero padded; a plain register is little endian over its whole width."""
    nbytes = max(1, (v.bit_length() + 7) // 8)
    if not reverse:
        return v.to_bytes(width // 8, "little")
    a = next((x for x in sorted(alts) if nbytes <= x // 8), width)
    return v.to_bytes(a // 8, "big").ljust(width // 8, b"\0")


def _alt_width_values(rng, width, alts):
    """boundary class 'value with leading zero byte(s)' for every alternative width and the full width (as byte strings of that
    width): 1, 2, 16 leading zero bytes, the value 1, all ones but the top byte, plus an ordinary value as control"""
    out = []
    for w in sorted(set(alts)) + [width]:
        n = w // 8

        def rnd(k):
            b = bytearray(rng.getrandbits(8) for _ in range(k))
            if k:
                b[0] |= 0x01
                b[-1] |= 0x01
            return bytes(b)
        out += [("lead1", bytes(1) + rnd(n - 1)), ("lead2", bytes(2) + rnd(n - 2)), ("lead16", bytes(16) + rnd(n - 16)),
                ("one", bytes(n - 1) + b"\x01"), ("ones-but-top", bytes(1) + b"\xff" * (n - 1)), ("ordinary", rnd(n))]
    return out


def _alt_width_checks(A, cfg, tsettings, regs0, rec, rng):
    """EVERY run, EVERY row with alternative-width registers (ROTKH of lpc55s3x/mcxn CMPA, RKTH / CUST_MK_SK fuse groups): the
    leading-zero-byte boundary class through all entry paths - YAML value, export(rotkh=...), parse -> get_config -> load - with the
    oracle on the exported bytes (documented byte order at the documented offset) and the identity round trips."""
    if regs0 is None:
        return
    E = rec.expect
    cid = rec.cid
    for reg in list(regs0._registers):
        if not reg.alt_widths or reg.name not in tsettings or isinstance(tsettings[reg.name], dict):
            continue
        W, alts, rev = reg.width, list(reg.alt_widths), bool(reg.reverse)
        sw = reg.sub_regs[0].width if reg.sub_regs else 0
        plain_order = not reg.reverse_subregs_order
        for label, h in _alt_width_values(rng, W, alts):
            v = int.from_bytes(h, "big")
            F = _ref_field(v, W, alts, rev)
            raw = int.from_bytes(F, "little")
            for spelling in (("padded", h.hex() if reg.config_as_hexstring else "0x" + h.hex()),
                             ("unpadded", f"{v:X}" if reg.config_as_hexstring else hex(v))):
                inp = (cid, "altwidth", reg.name, label, f"{len(h) * 8}bit", spelling[0], h.hex())
                rec.note(inp, f"{A.kind}:altwidth:{label}")
                settings = dict(tsettings)
                settings[reg.name] = spelling[1]
                c = A.with_settings(cfg, settings)
                r = pyres(A.load, json.loads(json.dumps(c)))
                if not E(r[0] == "ok", inp, "a configuration with an in-range value for an alternative-width register does not load", r):
                    continue
                o1 = r[1]
                g = A.regs(o1).find_reg(reg.name)
                if plain_order:
                    got_raw = pyres(g.get_value, True)
                    E(got_raw == ("ok", raw), inp, "the register does not hold the configured value in the documented byte order (raw value / "
                      "sub-register words)", hex(got_raw[1]) if got_raw[0] == "ok" else got_raw, hex(raw))
                    if sw == 32 and g.sub_regs:
                        words = [s_.get_value(True) for s_ in g.sub_regs]
                        want = [int.from_bytes(F[4 * k:4 * k + 4], "little") for k in range(len(words))]
                        E(words == want, inp, "the sub-register (fuse / PFR word) values are not the configured value in the documented byte order",
                          [hex(x) for x in words], [hex(x) for x in want])
                if A.has_binary:
                    b = pyres(A.export, o1)
                    if not E(b[0] == "ok", inp, "export fails", b):
                        continue
                    b1 = bytes(b[1])
                    field = b1[g.offset:g.offset + W // 8]
                    E(field == F, inp, "the exported field is not the configured value in the documented byte order at the documented offset",
                      field.hex(), F.hex())
                    # binary -> parse -> export, and binary -> parse -> get_config -> load -> export
                    p = pyres(A.parse, b1)
                    if E(p[0] == "ok", inp, "the area's own parser rejects the exported binary", p):
                        E(pyres(A.export, p[1]) == ("ok", b1), inp, "export(parse(export(x))) differs from export(x)")
                        c2 = pyres(A.config, p[1])
                        if E(c2[0] == "ok", inp, "get_config fails", c2):
                            l2 = pyres(A.load, json.loads(json.dumps(c2[1])))
                            if E(l2[0] == "ok", inp, "the configuration produced by get_config does not load back", l2):
                                b3 = pyres(A.export, l2[1])
                                E(b3 == ("ok", b1), inp, "parse -> get_config -> load -> export is not the identity",
                                  first_diff(b1, bytes(b3[1])) if b3[0] == "ok" else b3)
                else:
                    c2 = pyres(A.config, o1)
                    if E(c2[0] == "ok", inp, "get_config fails", c2):
                        l2 = pyres(A.load, json.loads(json.dumps(c2[1])))
                        if E(l2[0] == "ok", inp, "the configuration produced by get_config does not load back", l2):
                            o3, o1v = pyres(A.observable, l2[1]), pyres(A.observable, o1)
                            E(o3 == o1v, inp, "load(get_config(x)) does not hold the same values as x", _obs_diff(o1v, o3))
            # export(rotkh=<bytes>) (the CLI's --rot-config / binary ROTKH path)
            if isinstance(A, PfrArea) and A.kind == "cmpa" and reg.name == getattr(A.cls, "ROTKH_REGISTER", "ROTKH") and len(h) * 8 in alts + [W]:
                inp = (cid, "altwidth", reg.name, label, f"{len(h) * 8}bit", "export(rotkh=)", h.hex())
                rec.note(inp, f"{A.kind}:altwidth:rotkh=")
                o = pyres(A.load, json.loads(json.dumps(cfg)))
                if o[0] == "ok":
                    b = pyres(lambda: o[1].export(rotkh=h, draw=False))
                    if E(b[0] == "ok", inp, "export(rotkh=...) fails", b):
                        g = o[1].registers.find_reg(reg.name)
                        field = b[1][g.offset:g.offset + W // 8]
                        # (the register is integer based: a full-width hash with >= 16 leading zero bytes IS the shorter value - same rule
                        #  as for the configuration value; for every h of an alternative width this is h left-justified and zero padded)
                        E(field == F, inp, "export(rotkh=h): the ROTKH field is not the value in the documented byte order (h left-justified, "
                          "zero padded)", field.hex(), F.hex())


def _cfg_excerpt(settings):
    s = json.dumps(settings, default=str)
    return s if len(s) < 400 else s[:400] + "..."


def _finding_readback(A, regs, bad):
    """C12-group-wider-than-subregs: every lost value belongs to a grouped register whose sub-registers hold fewer bits
    than the declared width of the group (mcxn54x/94x revision a0: CUST_MK_SK_KEY_BLOB, DICE_Certificate)."""
    if not bad or regs is None:
        return None
    if A.kind == "cmactable":
        # C12-cmactable-...: the lost values belong to registers that other registers of the CMACTABLE specification overlap
        iv = [(r.offset, r.offset + r.width // 8, r.name) for r in regs._registers]
        names = {b[0] for b in bad}
        over = {n for (a0, a1, n) in iv for (b0, b1, m) in iv if (a0, a1, n) != (b0, b1, m) and a0 < b1 and b0 < a1}
        return "C12-cmactable-duplicate-register-names" if names <= over else None
    for reg_name, bf_name, _v, _got in bad:
        r = pyres(regs.find_reg, reg_name, include_group_regs=True)
        if bf_name is not None or r[0] != "ok":
            return None
        reg = r[1]
        if not reg.sub_regs or len(reg.sub_regs) * reg.sub_regs[0].width >= reg.width:
            return None
    return "C12-group-wider-than-subregs"


def _dup_field_mask(reg):
    names = [b.name for b in reg._bitfields]
    m = 0
    for b in reg._bitfields:
        if names.count(b.name) > 1:
            m |= ((1 << b.width) - 1) << b.offset
    return m


def _finding_cfg_roundtrip(A, regs_a, regs_b):
    """C12-duplicate-bitfield-names: the two objects differ only inside bit-fields whose name occurs twice in their register."""
    if regs_a is None or regs_b is None or len(regs_a._registers) != len(regs_b._registers):
        return None
    seen = False
    for ra, rb in zip(regs_a._registers, regs_b._registers):
        va, vb = pyres(ra.get_value, True), pyres(rb.get_value, True)
        if va != vb:
            if va[0] != "ok" or vb[0] != "ok" or (va[1] ^ vb[1]) & ~_dup_field_mask(ra):
                return None
            seen = True
    return "C12-duplicate-bitfield-names" if seen else None


def _check_spec_complete(A, regs, rec):
    """every register of the area's specification file is present in the loaded register file"""
    path = None
    try:
        key = regs._create_key("reg_spec")
        path = regs.db.get_file_path(regs.feature, key)
        with open(path, encoding="utf-8") as fh:
            spec = json.load(fh)
    except Exception:  # noqa: BLE001
        return
    uids = set()
    for r in regs._registers:
        uids.add(r.uid)
        for s in r.sub_regs:
            uids.add(s.uid)
    n_spec = sum(len(g.get("registers", [])) for g in spec.get("groups", []))
    offs = {}
    merged = 0
    for g in spec.get("groups", []):
        for r in g.get("registers", []):
            pass
    n_loaded = len(uids)
    n_alias = sum(len(r._alias_names) for r in regs._registers)
    rec.expect(n_loaded + n_alias >= len({r.get("id", "") for g in spec.get("groups", []) for r in g.get("registers", [])}),
               (rec.cid, "registers", os.path.basename(path)),
               "registers of the area's specification are missing from the loaded register file (the loader gave up silently)",
               n_loaded + n_alias, n_spec, finding=_finding_incomplete(A, path, spec))


def _finding_incomplete(A, path, spec):
    """C12-fuses-subbyte-width: a fuse specification with registers whose width is not a multiple of 8 bits."""
    if A.kind != "fuses":
        return None
    for g in spec.get("groups", []):
        for r in g.get("registers", []):
            try:
                if int(str(r.get("reg_width", 32)), 0) % 8:
                    return "C12-fuses-subbyte-width"
            except ValueError:
                return None
    return None


def _chain(A, o1, inp, rec, kind, expect, settings, cfg, rng, keys):
    E = rec.expect
    cid = rec.cid
    obs1 = pyres(A.observable, o1)
    if not E(obs1[0] == "ok", inp, "export of a loaded configuration fails", obs1):
        return
    if A.has_binary:
        r = pyres(A.export, o1)
        if not E(r[0] == "ok" and isinstance(r[1], (bytes, bytearray)), inp, "export fails", r):
            return
        b1 = bytes(r[1])
        size = A.doc_size(o1)
        if size is not None:
            E(len(b1) == size, inp, "exported binary does not have the documented size", len(b1), size)
        regs1 = A.regs(o1)
        lay1 = None
        if regs1 is not None:
            lay1 = live_layout(regs1)
            lay1 = None if lay1 == rec.layout else lay1
            if lay1 is None and kind != "xmcd":
                _cfg_item(A, regs1, inp, rec)
            rec.model.append({"op": "export", "vals": raw_values(regs1), "bytes": b1.hex(), "inp": list(map(str, inp)), "layout": lay1,
                              "size": A.img_size, "fill": A.img_fill})
        # own parser (+ verifier), export again
        r = pyres(A.parse, b1)
        if E(r[0] == "ok", inp, "the area's own parser rejects the exported binary", r):
            o2 = r[1]
            v = pyres(A.verify, o2)
            E(v[0] == "ok" and v[1] in (None, True), inp, "the area's own verifier rejects the parsed export", v)
            r2 = pyres(A.export, o2)
            E(r2 == ("ok", b1) or (r2[0] == "ok" and bytes(r2[1]) == b1), inp, "export(parse(export(x))) differs from export(x)",
              first_diff(b1, bytes(r2[1])) if r2[0] == "ok" else r2)
            regs2 = A.regs(o2)
            if regs2 is not None and expect:
                bad = readback(regs2, expect, A.optional)
                E(not bad, inp, "a value is not restored by parse(export(x))", bad[:4], finding=_finding_readback(A, regs2, bad))
            if regs2 is not None and regs1 is not None:
                lay2 = live_layout(regs2)
                rec.model.append({"op": "parse", "bytes": b1.hex(), "vals": raw_values(regs2), "inp": list(map(str, inp)),
                                  "layout": None if lay2 == rec.layout else lay2, "size": A.img_size, "fill": A.img_fill})
            src = o2
        else:
            src = o1
        _area_specific(A, o1, b1, inp, rec, kind, settings, cfg, rng, keys)
    else:
        src = o1
    # configuration round trip
    r = pyres(A.config, src)
    if not E(r[0] == "ok" and isinstance(r[1], dict), inp, "get_config fails", r):
        return
    cfg2 = r[1]
    r = pyres(A.load, json.loads(json.dumps(cfg2)))
    if not E(r[0] == "ok", inp + (_cfg_excerpt(cfg2.get(A.settings_key, {})),), "the configuration produced by get_config does not load back", r,
             finding=_finding_cfg_load(A, src)):
        return
    obs3 = pyres(A.observable, r[1])
    if obs3 != obs1:
        E(False, inp, "load(get_config(x)) does not export the same as x",
          first_diff(obs1[1], obs3[1]) if obs3[0] == "ok" and isinstance(obs1[1], bytes) else _obs_diff(obs1, obs3),
          finding=_finding_cfg_roundtrip(A, A.regs(o1), A.regs(r[1])))


def _finding_cfg_load(A, obj):
    """C12-cmactable-duplicate-register-names: IFR CMACTABLE, several (reserved) registers share one name."""
    if A.kind != "cmactable":
        return None
    names = [r.name for r in A.regs(obj)._registers]
    return "C12-cmactable-duplicate-register-names" if len(set(names)) < len(names) else None


def _obs_diff(a, b):
    if a[0] == "ok" and b[0] == "ok" and isinstance(a[1], list) and isinstance(b[1], list):
        d = [(x, y) for x, y in zip(a[1], b[1]) if x != y]
        return d[:4] or f"lengths {len(a[1])} vs {len(b[1])}"
    return (a[0], b[0])


def _area_specific(A, o1, b1, inp, rec, kind, settings, cfg, rng, keys):
    E = rec.expect
    if isinstance(A, PfrArea):
        _pfr_specific(A, o1, b1, inp, rec, settings, cfg, rng, keys)
    elif kind == "xmcd":
        r = pyres(lambda: o1.crc)
        E(r == ("ok", crc32_mpeg(b1).to_bytes(4, "big")), inp, "XMCD CRC is not CRC-32/MPEG-2 of the exported block", r, crc32_mpeg(b1).to_bytes(4, "big").hex())
        if r[0] == "ok":
            rec.model.append({"op": "crc", "bytes": b1.hex(), "crc": int.from_bytes(r[1], "big"), "inp": list(map(str, inp))})
        hdr = int.from_bytes(b1[:4], "little")
        E(len(b1) >= 4 and (hdr >> 28) == 0xC and ((hdr >> 24) & 0xF) == 0 and (hdr & 0xFFF) == len(b1), inp,
          "XMCD header word: tag 0xC / version 0 / configurationBlockSize = total size do not hold in the exported binary", hex(hdr), len(b1))
        from spsdk.image.xmcd.xmcd import MEMORY_INTERFACE_TO_VALUE
        E(((hdr >> 20) & 0xF) == MEMORY_INTERFACE_TO_VALUE[A.mt] and ((hdr >> 12) & 0xF) == A.ct.tag, inp,
          "XMCD header word does not name the memory interface / block type of the configuration", hex(hdr))
        _xmcd_sequence(A, b1, inp, rec, rng)
        rec.model.append({"op": "xmcdhdr", "args": [len(b1), A.ct.tag, (hdr >> 16) & 0xF, MEMORY_INTERFACE_TO_VALUE[A.mt]], "hdr": hdr,
                          "inp": list(map(str, inp))})
    elif kind == "fcb":
        E(b1[:4] == b"FCFB", inp, "FCB does not start with the FCFB tag", b1[:4])
        _parser_items(A, b1, inp, rec, rng, "fcbparse", lambda x: A.cls.parse(x, family=A.family, mem_type=A.mt, revision=A.rev))
        from spsdk.utils.misc import swap_bytes
        r = pyres(lambda: A.export(A.cls.parse(swap_bytes(b1), family=A.family, mem_type=A.mt, revision=A.rev)))
        E(r == ("ok", b1), inp, "a byte-swapped FCB is not parsed back to the same block", r if r[0] != "ok" else first_diff(b1, r[1]))
    elif kind == "bca":
        E(b1[:4] == b"kcfg", inp, "BCA does not start with the kcfg tag", b1[:4])
        _parser_items(A, b1, inp, rec, rng, "bcaparse", lambda x: A.cls.parse(x, family=A.family, revision=A.rev))
    elif kind == "fcf":
        _parser_items(A, b1, inp, rec, rng, "fcfparse", lambda x: A.cls.parse(x, family=A.family, revision=A.rev))
    elif kind == "memcfg":
        ow = pyres(lambda: list(o1.option_words))
        rec.model.append({"op": "ow", "vals": raw_values(o1.regs), "res": ("ok:" + _csv(ow[1])) if ow[0] == "ok" else ow[0], "inp": list(map(str, inp))})
        if E(ow[0] == "ok", inp, "option_words fails", ow):
            words = [int.from_bytes(b1[i:i + 4], "little") for i in range(0, len(b1), 4)]
            E(ow[1] == words[:len(ow[1])] and 1 <= len(ow[1]) <= len(words), inp, "option words are not the leading words of the exported registers", ow[1], words)
            # how many option words count, restated from the database rule name and the bits of word 0 (not from option_words_count):
            # "All" = every register; "OptionSize" = 1 + the OptionSize field; "AcTimingMode" = every register iff the field's value is the
            # enum member named UserDefined, else the first word only  (seeded change C12h compared the raw value with the wrong constant)
            exp = pyres(lambda: _expected_ow_count(A, o1, words[0]))
            if exp[0] == "ok" and exp[1] is not None:
                E(len(ow[1]) == exp[1], inp, "the number of option words is not what the database's ow_counts_rule says for these register values "
                  "(the configuration and the words sent to the device drop / add option words)", len(ow[1]), exp[1])
            # the option words alone (what blhost receives) parse back to the same option words
            r = pyres(lambda: list(A.cls.parse(A.cls.option_words_to_bytes(ow[1]), family=A.family, peripheral=A.per, revision=A.rev).option_words))
            E(r == ("ok", ow[1]), inp, "parse(option words) does not give the same option words", r, ow[1])
    elif kind == "tz":
        names = list(o1.presets) if hasattr(o1, "presets") else []
        words = [int.from_bytes(b1[i:i + 4], "little") for i in range(0, len(b1), 4)]
        from spsdk.utils.misc import value_to_int
        bad = [(n, settings[n], words[i]) for i, n in enumerate(names) if n in settings and i < len(words) and value_to_int(settings[n]) != words[i]]
        E(not bad and len(words) == len(names), inp, "a TrustZone preset word in the binary is not the configured value", bad[:4])
        vals = pyres(lambda: [value_to_int(v) for v in o1.presets.values()])
        if vals[0] == "ok":
            rec.model.append({"op": "tz", "vals": vals[1], "bytes": b1.hex(), "n": len(names), "inp": list(map(str, inp))})



def _expected_ow_count(A, obj, word0):
    from spsdk.utils.database import get_db
    rule = get_db(A.family, A.rev).get_str("memcfg", ["peripherals", A.per, "ow_counts_rule"])
    regs = obj.regs.get_registers()
    if rule == "All":
        return len(regs)
    if rule in ("OptionSize", "AcTimingMode"):
        bf = regs[0].find_bitfield(rule)
        v = (word0 >> bf.offset) & ((1 << bf.width) - 1)
        if rule == "OptionSize":
            return min(1 + v, len(regs))     # only the words that exist (a random OptionSize can name more than the peripheral has)
        names = {int(e.value): e.name for e in bf.get_enums()}
        return len(regs) if names.get(v) == "UserDefined" else 1
    return None


def _xmcd_sequence(A, b1, inp, rec, rng):
    """parse(export) -> change one option field on the same object -> export: the CRC follows the new bytes, the header still gives
    the size, only that register changes."""
    E = rec.expect
    r = pyres(A.parse, b1)
    if r[0] != "ok":
        return
    o = r[1]
    blk = o.config_block._registers
    present = pyres(lambda: {x.name for x in o.config_block.registers._registers})  # configOption1 exists only when optionSize != 0
    present = present[1] if present[0] == "ok" else set()
    cands = [(rg, b) for rg in blk._registers if not rg.hidden and rg.name in present for b in rg._bitfields
             if not b.hidden and b.name not in ("optionSize", "tag") and [x.name for x in rg._bitfields].count(b.name) == 1 and b.config_width == b.width]
    if not cands:
        return
    rg, bf = rng.choice(cands)
    v = bf.get_value() ^ 1
    sinp = inp + ("seq:parse+partial_load", rg.name, bf.name, v)
    rec.note(sinp, "xmcd:seq:parse-set")
    r1 = pyres(o.config_block.load_from_config, {rg.name: {bf.name: v}})
    if not E(r1[0] == "ok", sinp, "partial load on a parsed XMCD fails", r1):
        return
    r2 = pyres(o.export)
    if not E(r2[0] == "ok" and len(r2[1]) == len(b1), sinp, "export after parse + partial load fails or changes the size", r2):
        return
    b2 = r2[1]
    off = 4 + rg.offset  # the block registers follow the 4-byte header
    w = int.from_bytes(b1[off:off + rg.width // 8], "little")
    want = (w & ~(((1 << bf.width) - 1) << bf.offset)) | (v << bf.offset)
    exp = b1[:off] + want.to_bytes(rg.width // 8, "little") + b1[off + rg.width // 8:]
    E(b2 == exp, sinp, "parse -> partial load -> export: the binary is not the old one with just that field changed", first_diff(exp, b2))
    c = pyres(lambda: o.crc)
    E(c == ("ok", crc32_mpeg(b2).to_bytes(4, "big")), sinp, "XMCD CRC after a change on the same object is not the CRC of the new export", c)
    E((int.from_bytes(b2[:4], "little") & 0xFFF) == len(b2), sinp, "XMCD size field does not give the size after the change")


def _cfg_item(A, regs1, inp, rec):
    """Registers.get_config() of the loaded object in a neutral form (names, enum name or number) and the raw values after loading it
    into a fresh register file: for the correspondence with Regs.getConfig / nameCfg / resolveCfg / Regs.loadConfig on the generated tables"""
    from spsdk.utils.misc import value_to_int
    r = pyres(regs1.get_config)
    if r[0] != "ok":
        return
    out = []
    for reg_name, val in r[1].items():
        reg = regs1.find_reg(reg_name, include_group_regs=True)
        if isinstance(val, dict):
            fs = []
            for bf_name, bv in val.items():
                bf = reg.find_bitfield(bf_name)
                if isinstance(bv, str) and bv in bf.get_enum_names():
                    fs.append([bf_name, "n", bv])
                else:
                    fs.append([bf_name, "v", value_to_int(bv)])
            out.append([reg_name, "F", fs])
        else:
            out.append([reg_name, "V", int(val, 16) if isinstance(val, str) else int(val)])
    fresh = pyres(A.fresh_registers)
    rt = None
    if fresh[0] == "ok" and fresh[1] is not None:
        lr = pyres(fresh[1].load_yml_config, json.loads(json.dumps(r[1])))
        rt = ("ok:" + _csv(raw_values(fresh[1]))) if lr[0] == "ok" else lr[0]
    rec.model.append({"op": "cfg", "vals": raw_values(regs1), "cfg": out, "rt": rt, "inp": list(map(str, inp))})


def _parser_items(A, b1, inp, rec, rng, op, parse):
    """the area's own parser on the export, a byte-swapped / truncated / tag-damaged / odd-length variant: accept-or-reject class and
    parsed values for the correspondence with the Lean parser models (fcbParse / bcaParse / fcfParse)"""
    from spsdk.utils.misc import swap_bytes
    variants = [("export", b1)]
    if len(b1) % 2 == 0:
        variants.append(("swapped", bytes(swap_bytes(b1))))
    variants.append(("short", b1[:max(0, len(b1) - rng.choice([1, 2, 4, 255, 256]))]))
    variants.append(("tag-damaged", bytes([b1[0] ^ 0x20]) + b1[1:]))
    variants.append(("tail", b1 + bytes(rng.getrandbits(8) for _ in range(rng.choice([1, 2, 7])))))
    if len(b1) > 4:
        variants.append(("swapped-odd", bytes(swap_bytes(b1[:4])) + b1[4:] + b"\x00"))
    for name, x in variants:
        r = pyres(lambda: raw_values(parse(x).registers))
        rec.model.append({"op": op, "bytes": x.hex(), "res": ("ok:" + _csv(r[1])) if r[0] == "ok" else ("E:other" if r[0] == "E:other" else r[0]),
                          "inp": list(map(str, inp + (name,)))})


def _enum_items(A, rec, rng, n=12):
    """get_enum_value() of a few bit-fields with enum tables (every enum value and one other value) for the correspondence with the
    Lean `enumValue` over the generated enum tables"""
    fr = pyres(A.fresh_regs)
    if fr[0] != "ok" or fr[1] is None:
        return
    cands = [(ri, fi, b) for ri, r in enumerate(fr[1]) for fi, b in enumerate(r._bitfields) if b.get_enums() and not r.sub_regs]
    for ri, fi, b in rng.sample(cands, k=min(n, len(cands))):
        shift = b.config_width - b.width
        vals = sorted({e.get_value_int() for e in b.get_enums() if e.get_value_int() >> shift < 1 << b.width and not e.get_value_int() & ((1 << shift) - 1)})
        vals = vals[:6] + [rng.getrandbits(b.width) << shift]
        for v in vals:
            r1 = pyres(b.set_value, v, True)
            r2 = pyres(b.get_enum_value)
            if r1[0] == "ok" and r2[0] == "ok":
                rec.model.append({"op": "enumval", "ri": ri, "fi": fi, "v": v, "res": r2[1], "names": [e.name for e in b.get_enums()],
                                  "inp": [rec.cid, "enum", fr[1][ri].name, b.name, str(v)]})


def _le32(b, off):
    return int.from_bytes(b[off:off + 4], "little")



def _ref_rule(rid, w):
    """independent recomputation of a computed register from its source bits (the target field is rebuilt, never kept)"""
    if rid == 0:
        low = w & 0xFFFF
        return low | ((low ^ 0xFFFF) << 16)
    return (w & 0xFFFF00FF) | (((w & 0xFF) ^ 0xFF) << 8)


def _pfr_sequences(A, o1, b1, inp, rec, comp, settings, rng):
    """Multi-step histories on ONE object (a computed field must be rebuilt from the source bits, whatever it held before):
      A: parse(a page whose computed register already carries a non-zero computed field) -> partial set_config raising/clearing a
         source bit without giving the hidden field -> export (+ sealed export);
      B: set_config(full configuration) -> partial set_config on the same object -> export.
    Oracle: the final binary equals the previous one except for that register, which must be the INDEPENDENT recomputation."""
    E = rec.expect
    regs = o1.registers
    for reg_uid, fields in comp.items():
        reg = regs.get_reg(reg_uid)
        if reg not in regs._registers or reg.width != 32 or len(fields) != 1:
            continue
        bf_uid, method = next(iter(fields.items()))
        rid = {"pfr_reg_inverse_high_half": 0, "pfr_reg_inverse_lower_8_bits": 1}.get(method)
        if rid is None:
            continue
        src_bits = 16 if rid == 0 else 8
        cands = [b for b in reg._bitfields if not b.hidden and b.uid != bf_uid and b.offset + b.width <= src_bits and b.config_width == b.width]
        if not cands:
            continue
        bf = rng.choice(cands)
        off = reg.offset
        fmask = ((1 << bf.width) - 1) << bf.offset

        def step(obj, w_before):
            """partial set_config flipping the lowest bit of `bf`; -> (new field value, expected word)"""
            v = ((w_before & fmask) >> bf.offset) ^ 1
            r = pyres(obj.set_config, {reg.name: {bf.name: rng.choice([v, hex(v)])}})
            return v, _ref_rule(rid, (w_before & ~fmask) | (v << bf.offset)), r

        # ---- A: parse a page with a stale / foreign computed field, then a partial configuration
        kind = rng.choice(["consistent", "arbitrary"])
        w_a = _ref_rule(rid, rng.getrandbits(32)) if kind == "consistent" else rng.getrandbits(32)
        if rid == 0 and kind == "consistent" and rng.random() < 0.5:
            w_a = 0xFFFF0000  # the erased-source state: every inverse bit set
        page = b1[:off] + w_a.to_bytes(4, "little") + b1[off + 4:]
        sinp = inp + ("seq:parse+partial_set_config", reg.name, bf.name, hex(w_a))
        rec.note(sinp, f"{A.kind}:seq:parse-set")
        obj = A.cls(family=A.family, revision=A.rev)
        r0 = pyres(obj.parse, page)
        if E(r0[0] == "ok", sinp, "parse of a page fails", r0):
            v, want, r1 = step(obj, w_a)
            if E(r1[0] == "ok", sinp + (v,), "partial set_config on a parsed page fails", r1):
                r2 = pyres(lambda: obj.export(draw=False))
                exp = page[:off] + want.to_bytes(4, "little") + page[off + 4:]
                if E(r2[0] == "ok", sinp + (v,), "export after parse + set_config fails", r2):
                    got = _le32(r2[1], off)
                    E(got == want, sinp + (v,), "computed field is not rebuilt from the source bits after parse(page) -> partial set_config -> export",
                      hex(got), hex(want))
                    E(r2[1][:off] == exp[:off] and r2[1][off + 4:] == exp[off + 4:], sinp + (v,),
                      "parse(page) -> partial set_config -> export changed bytes outside the configured register", first_diff(exp, r2[1]))
                    rs = pyres(lambda: obj.export(add_seal=True, draw=False))
                    ok_seal = rs[0] == "ok" and len(rs[1]) == len(exp)
                    if ok_seal:
                        diff = [i for i in range(len(exp)) if rs[1][i] != r2[1][i]]
                        ok_seal = all(rs[1][i:i + 1] in (b"S", b"E", b"A", b"L") for i in diff)
                    E(ok_seal, sinp + (v, "seal"), "sealed export after the sequence differs from the plain export outside the seal words", rs if rs[0] != "ok" else None)
            w_in = (w_a & ~fmask) | (v << bf.offset)
            for x in (w_in, w_in | 0xFFFF0000, rng.getrandbits(32)):
                fn = getattr(A.cls, method, None)
                rr = pyres(fn, x) if fn else ("E:other", "missing")
                if rr[0] == "ok":
                    rec.model.append({"op": "rule", "rule": rid, "v": x, "out": rr[1], "inp": list(map(str, sinp))})
        # ---- B: set_config twice on one object
        sinp = inp + ("seq:set_config+partial_set_config", reg.name, bf.name)
        rec.note(sinp, f"{A.kind}:seq:set-set")
        obj = A.cls(family=A.family, revision=A.rev)
        r0 = pyres(obj.set_config, json.loads(json.dumps(settings)))
        if E(r0[0] == "ok", sinp, "set_config fails", r0):
            rb = pyres(lambda: obj.export(draw=False))
            if E(rb == ("ok", b1), sinp, "set_config on a fresh object does not give the export of load_from_config", None):
                w1 = _le32(b1, off)
                v, want, r1 = step(obj, w1)
                if E(r1[0] == "ok", sinp + (v,), "second (partial) set_config fails", r1):
                    r2 = pyres(lambda: obj.export(draw=False))
                    if E(r2[0] == "ok", sinp + (v,), "export after two set_config fails", r2):
                        got = _le32(r2[1], off)
                        E(got == want, sinp + (hex(w1), v), "computed field is not rebuilt from the source bits after set_config -> partial set_config -> export",
                          hex(got), hex(want))
                        E(r2[1][:off] == b1[:off] and r2[1][off + 4:] == b1[off + 4:], sinp + (v,),
                          "the second set_config changed bytes outside the configured register", first_diff(b1, r2[1]))


def _pfr_specific(A, o1, b1, inp, rec, settings, cfg, rng, keys):
    E = rec.expect
    regs = o1.registers
    # ---- computed fields: independent recomputation on the exported bytes
    comp = pyres(lambda: A.cls(A.family, A.rev).db.get_dict(A.cls.FEATURE_NAME, [A.cls.DB_SUB_FEATURE, "computed_fields"], {}))
    comp = comp[1] if comp[0] == "ok" else {}
    pre = A.cls(family=A.family, revision=A.rev)
    pre.registers.load_yml_config(json.loads(json.dumps(settings)))
    rules = []
    for reg_uid, fields in comp.items():
        reg = regs.get_reg(reg_uid)
        idx = regs._registers.index(reg) if reg in regs._registers else None
        if reg.name not in settings or not isinstance(settings[reg.name], dict):
            continue
        for bf_uid, method in fields.items():
            bfn = reg.get_bitfield(bf_uid).name
            if bfn in settings[reg.name]:
                continue
            w = _le32(b1, reg.offset)
            if method == "pfr_reg_inverse_high_half":
                ok = (w >> 16) == ((w & 0xFFFF) ^ 0xFFFF)
                rid = 0
            elif method == "pfr_reg_inverse_lower_8_bits":
                ok = ((w >> 8) & 0xFF) == ((w & 0xFF) ^ 0xFF)
                rid = 1
            else:
                E(False, inp + (reg.name,), f"unknown computed-field rule {method}")
                continue
            E(ok and reg.width == 32, inp + (reg.name, method), "computed field does not hold in the exported binary", hex(w))
            if idx is not None:
                rules.append([idx, rid])
    if comp:
        rec.model.append({"op": "compute", "before": raw_values(pre.registers), "after": raw_values(regs), "rules": rules, "inp": list(map(str, inp))})
        _pfr_sequences(A, o1, b1, inp, rec, comp, settings, rng)
    # ---- seal
    r = pyres(lambda: o1.export(add_seal=True, draw=False))
    if E(r[0] == "ok" and len(r[1]) == len(b1), inp, "export(add_seal=True) fails or changes the size", r):
        bs = r[1]
        try:
            start = regs.get_reg(o1.db.get_str(A.cls.FEATURE_NAME, [A.cls.DB_SUB_FEATURE, "seal_start"])).offset
            count = int(o1.db.get_int(A.cls.FEATURE_NAME, [A.cls.DB_SUB_FEATURE, "seal_count"]))
        except Exception:  # noqa: BLE001  (no seal for this area)
            start, count = None, 0
        if start is None:
            E(bs == b1, inp, "sealing changed an area that has no seal", first_diff(b1, bs))
        else:
            E(bs[start:start + 4 * count] == SEAL * count and bs[:start] == b1[:start] and bs[start + 4 * count:] == b1[start + 4 * count:]
              and start + 4 * count <= len(bs), inp, "seal marker words are not in place (or sealing disturbed other bytes)", bs[start:start + 4 * count].hex())
            rec.model.append({"op": "seal", "vals": raw_values(regs), "bytes": bs.hex(), "start": start, "count": count, "inp": list(map(str, inp))})
            p = pyres(lambda: A.parse(bs).export(draw=False))
            E(p == ("ok", bs), inp, "a sealed page does not parse/export back to itself", p if p[0] != "ok" else first_diff(bs, p[1]))
    # ---- ROTKH from keys (CMPA only, as the CLI does)
    if A.kind == "cmpa" and keys is not None:
        from spsdk.utils.database import get_db
        rot = pyres(lambda: get_db(A.family).get_str("cert_block", "rot_type"))
        has_rotkh = pyres(regs.find_reg, "ROTKH")[0] == "ok"
        if rot[0] == "ok" and has_rotkh and rot[1] in ("cert_block_1", "cert_block_21"):
            pools = ["rsa"] if rot[1] == "cert_block_1" else ["ecc256", "ecc384"]
            pool = rng.choice(pools)
            n = rng.randrange(1, 5)
            ks = keys[pool][:n]
            o = A.load(json.loads(json.dumps(cfg)))
            r = pyres(lambda: o.export(keys=[spsdk_key(k) for k in ks], draw=False))
            want = ref_rkth(rot[1], ks)
            reg = regs.find_reg("ROTKH")
            rec.note(inp + ("rotkh", pool, n), f"cmpa:rotkh:{pool}:{n}")
            if len(want) * 8 > reg.width:
                E(r[0] == "E:spsdk", inp + ("rotkh", pool, n), "a key hash wider than the ROTKH field is not refused", r)
            elif E(r[0] == "ok", inp + ("rotkh", pool, n), "export with keys fails", r):
                got = r[1][reg.offset:reg.offset + reg.width // 8]
                E(got == want.ljust(reg.width // 8, b"\0"), inp + ("rotkh", pool, n), "ROTKH in the exported binary is not the hash of the root keys", got.hex(), want.hex())
                rest_same = r[1][:reg.offset] == b1[:reg.offset] and r[1][reg.offset + reg.width // 8:] == b1[reg.offset + reg.width // 8:]
                E(rest_same, inp + ("rotkh", pool, n), "exporting with keys changed bytes outside ROTKH")
                p = pyres(lambda: A.parse(r[1]).export(draw=False))
                E(p == ("ok", r[1]), inp + ("rotkh", pool, n), "a page with ROTKH does not parse/export back to itself", p if p[0] != "ok" else first_diff(r[1], p[1]))
        elif not has_rotkh:
            o = A.load(json.loads(json.dumps(cfg)))
            r = pyres(lambda: o.export(rotkh=bytes(32), draw=False))
            # documented: SPSDKPfrRotkhIsNotPresent (an SPSDKError)
            E(r[0] == "E:spsdk" or r[0] == "ok", inp + ("rotkh", "absent"), "export with a ROTKH on a device without the register fails with a foreign exception", r)



# ====================================================================== thin CLI stream (latest revision, real click entry points)
def enumerate_cli_flows():
    from spsdk.utils.database import get_families
    flows = []
    for area in ("cmpa", "cfpa"):
        flows += [("pfr", area, f) for f in get_families("pfr", area)]
    for sector in ("ROMCFG", "CMACTable"):
        flows += [("ifr", sector, f) for f in get_families("ifr", sector.lower())]
    for tool in ("bca", "fcf", "fcb", "xmcd", "tz", "memcfg", "fuses"):
        flows += [(tool, "", f) for f in get_families(tool)]
    return flows


def run_cli(args):
    flow, seed = args
    rec = Rec("cli/" + "/".join(x for x in flow if x))
    t0 = time.time()
    try:
        _run_cli(flow, rec)
    except Exception:  # noqa: BLE001
        _crash(rec, rec.cid)
    rec.t = time.time() - t0
    return rec


def _run_cli(flow, rec):
    import logging
    import tempfile

    from click.testing import CliRunner
    logging.disable(logging.CRITICAL)
    _install_compile_cache()
    _install_fast_registers_copy()
    tool, sub, fam = flow
    cid = rec.cid
    E = rec.expect
    runner = CliRunner()
    base = os.environ.get("VERIF_SCRATCH") or tempfile.gettempdir()
    d = tempfile.mkdtemp(prefix="c12cli-", dir=base)

    def P(name):
        return os.path.join(d, name)

    def call(main, argv, what):
        r = runner.invoke(main, argv, catch_exceptions=True)
        rec.note((cid, what), f"cli:{tool}:{what}")
        ok = r.exit_code == 0
        E(ok, (cid, what, " ".join(argv[:6])), f"CLI step fails: {what}", (r.exit_code, (r.output or "")[-300:], repr(r.exception)[:200]))
        return ok

    def rd(path):
        with open(path, "rb") as fh:
            return fh.read()

    def same(b1, b2, what="the binary generated from the parsed configuration differs from the first one"):
        E(b1 == b2, (cid, "roundtrip"), what, first_diff(b1, b2))

    if tool in ("pfr", "ifr"):
        if tool == "pfr":
            from spsdk.apps.pfr import main
            sel = ["-t", sub]
            gen_extra = ["--ignore"]
            from spsdk.pfr.pfr import BaseConfigArea
            size = BaseConfigArea.BINARY_SIZE
        else:
            from spsdk.apps.ifr import main
            sel = ["-s", sub]
            gen_extra = ["-f", fam]  # (ifr generate-binary insists on the family option)
            from spsdk.pfr import pfr as _p
            size = (_p.ROMCFG if sub == "ROMCFG" else _p.CMACTABLE).BINARY_SIZE
        if not call(main, ["get-template", "-f", fam, *sel, "-o", P("t.yaml")], "get-template"):
            return
        if not call(main, ["generate-binary", "-c", P("t.yaml"), "-o", P("a.bin"), *gen_extra], "generate-binary"):
            return
        E(len(rd(P("a.bin"))) == size, (cid, "size"), "generated binary does not have the documented size", len(rd(P("a.bin"))), size)
        if not call(main, ["parse-binary", "-f", fam, *sel, "-b", P("a.bin"), "-o", P("p.yaml")], "parse-binary"):
            return
        if call(main, ["generate-binary", "-c", P("p.yaml"), "-o", P("b.bin"), *gen_extra], "generate-binary(parsed)"):
            same(rd(P("a.bin")), rd(P("b.bin")))
    elif tool in ("bca", "fcf"):
        from spsdk.apps.nxpimage import main
        if not call(main, [tool, "get-template", "-f", fam, "-o", P("t.yaml")], "get-template"):
            return
        if not call(main, [tool, "export", "-c", P("t.yaml"), "-o", P("a.bin")], "export"):
            return
        if not call(main, [tool, "parse", "-b", P("a.bin"), "-f", fam, "-o", P("p.yaml")], "parse"):
            return
        if call(main, [tool, "export", "-c", P("p.yaml"), "-o", P("b.bin")], "export(parsed)"):
            same(rd(P("a.bin")), rd(P("b.bin")))
    elif tool in ("fcb", "xmcd"):
        from spsdk.apps.nxpimage import main
        if not call(main, ["bootable-image", tool, "get-templates", "-f", fam, "-o", P("tpl")], "get-templates"):
            return
        files = sorted(os.listdir(P("tpl")))
        E(len(files) > 0, (cid, "get-templates"), "no template written")
        for i, fn in enumerate(files):
            t = os.path.join(P("tpl"), fn)
            if not call(main, ["bootable-image", tool, "export", "-c", t, "-o", P(f"a{i}.bin")], "export"):
                continue
            extra = []
            if tool == "fcb":
                import yaml
                with open(t, encoding="utf-8") as fh:
                    extra = ["-m", yaml.safe_load(fh)["type"]]
            if not call(main, ["bootable-image", tool, "parse", "-f", fam, *extra, "-b", P(f"a{i}.bin"), "-o", P(f"p{i}.yaml")], "parse"):
                continue
            if call(main, ["bootable-image", tool, "export", "-c", P(f"p{i}.yaml"), "-o", P(f"b{i}.bin")], "export(parsed)"):
                same(rd(P(f"a{i}.bin")), rd(P(f"b{i}.bin")))
    elif tool == "memcfg":
        import re

        from spsdk.apps.nxpmemcfg import main
        if not call(main, ["get-templates", "-f", fam, "-o", P("tpl")], "get-templates"):
            return
        files = sorted(os.listdir(P("tpl")))
        E(len(files) > 0, (cid, "get-templates"), "no template written")

        def words_of(argv, what):
            r = runner.invoke(main, argv, catch_exceptions=True)
            rec.note((cid, what), f"cli:{tool}:{what}")
            m = re.search(r"Exported config options: (.*)", r.output or "")
            if not E(r.exit_code == 0 and m is not None, (cid, what, " ".join(argv[:4])), f"CLI step fails: {what}",
                     (r.exit_code, (r.output or "")[-300:], repr(r.exception)[:200])):
                return None
            return [int(x, 16) for x in m.group(1).replace(",", " ").split()]

        for i, fn in enumerate(files):
            per = fn[len("ow_"):-len(".yaml")]
            w1 = words_of(["export", "-c", os.path.join(P("tpl"), fn)], "export")
            if not w1:
                continue
            argv = ["parse", "-f", fam, "-p", per]
            for w in w1:
                argv += ["-w", hex(w)]
            if not call(main, argv + ["-o", P(f"p{i}.yaml")], "parse"):
                continue
            w2 = words_of(["export", "-c", P(f"p{i}.yaml")], "export(parsed)")
            if w2 is not None:
                E(w1 == w2, (cid, "roundtrip", per), "the option words exported from the parsed configuration differ from the first ones", w2, w1)
    elif tool == "fuses":
        from spsdk.apps.nxpfuses import main
        if not call(main, ["get-template", "-f", fam, "-o", P("t.yaml")], "get-template"):
            return
        if call(main, ["fuses-script", "-c", P("t.yaml"), "-o", P("s.txt")], "fuses-script"):
            txt = rd(P("s.txt")).decode("utf-8", "replace")
            E(len(txt.strip()) > 0, (cid, "fuses-script"), "empty fuse script")
    elif tool == "tz":
        from spsdk.apps.nxpimage import main
        from spsdk.image.trustzone import TrustZone
        if not call(main, ["tz", "get-template", "-f", fam, "-o", P("t.yaml")], "get-template"):
            return
        import yaml
        with open(P("t.yaml"), encoding="utf-8") as fh:
            out = yaml.safe_load(fh).get("tzpOutputFile")
        if not call(main, ["tz", "export", "-c", P("t.yaml")], "export"):
            return
        b = rd(os.path.join(d, out))
        E(len(b) == TrustZone.get_preset_data_size(fam), (cid, "size"), "TrustZone binary does not have the documented size", len(b))
        r = pyres(lambda: TrustZone.from_binary(fam, b).export())
        same(b, r[1] if r[0] == "ok" else b"", "from_binary(export) does not export the same binary")


# ====================================================================== run
def run(ck):
    import multiprocessing as mp

    from spsdk.utils.database import DatabaseManager
    ck.max_fail_per_stream = 40
    ck.spec_ops = set()   # drv_c12 has no Spec-only op: every answer depends on Model/ConfigArea or the generated tables.  All oracle
    #                       expectations and finding predicates of this file are computed from the input and the real code alone.
    gen_names = ["RegLayouts", "RegDetails", "PfrRules", "ScalarRule"]
    ck.lean_obligations(generated=gen_names)
    drv = ck.driver()
    ck.assume("YAML parsing (PyYAML safe_load, as SPSDK's load_configuration), YAML emission (ruamel.yaml) and JSON-schema validation "
              "(fastjsonschema) are third-party code: the clauses 'template is valid YAML, satisfies the schema and loads' are decided by the "
              "exhaustive enumeration on the real code only (a complete finite sweep, not a theorem)",
              "hashlib SHA-256/384 is the reference for ROTKH; the key-hash table rules are re-implemented in the harness from the format description",
              "fastjsonschema.compile is memoised per schema text inside the workers (pure function of the schema; speed only)",
              "inside the workers a deep copy of a Registers object shares the read-only database entry instead of copying it (XMCD.registers "
              "copies on every access: 20 s per case otherwise; speed only)",
              "the OTP fuse map has no binary form in SPSDK (fuses are burnt word by word): its round trip is template/config/values only",
              "structural fields (BCA/FCB tag, XMCD header word) keep their template values in the random value vectors; every other register and bit-field gets in-range values")
    DatabaseManager()  # load the database once in the parent; workers inherit it through fork
    cases = enumerate_cases()
    nrand = ck.budget(1, 10)
    modes = ["zeros", "ones"] + ck.budget([], ["even", "odd"]) + ["regvals"] + ["rand"] * nrand
    keys = make_keys(random.Random(f"C12/keys/{ck.seed}"))
    only = os.environ.get("VERIF_C12_ONLY")
    if only:
        cases = [c for c in cases if any(o in case_id(c) for o in only.split(","))]
    # quick tier: the full vector set runs on one (seed-chosen) row per DISTINCT generated layout; the other rows that resolve to the
    # same layout (e.g. 57 FCB rows share 4 layouts, 281 memcfg rows 8) get the template and one random vector.  Thorough: everything.
    light = set()
    if ck.quick:
        # (the grouping is computed from the LIVE database - never from generated parts: which oracle runs must not depend on the model)
        groups = {}
        for c in cases:
            groups.setdefault(live_group_key(c), []).append(case_id(c))
        rr = random.Random(f"C12/repr/{ck.seed}")
        for _k, members in sorted(groups.items(), key=lambda kv: str(kv[0])):
            keep = rr.choice(sorted(members))
            light.update(m for m in members if m != keep)
    ck.extra["quick_light_rows"] = len(light)
    jobs = [(c, ck.seed, (["rand"] if case_id(c) in light else modes), keys) for c in cases]
    # big cases first for a better makespan
    order = {"fcb": 0, "fuses": 1, "cmpa": 2, "cfpa": 3, "xmcd": 4, "romcfg": 5}
    jobs.sort(key=lambda j: (order.get(j[0][0], 9), case_id(j[0])))
    nproc = int(os.environ.get("VERIF_C12_PROCS", str(min(16, os.cpu_count() or 4))))
    t0 = time.time()
    flows = enumerate_cli_flows()
    if only:
        flows = [f for f in flows if any(o in "cli/" + "/".join(x for x in f if x) for o in only.split(","))]
    elif ck.quick:  # quick: three flows per tool, thorough: every family
        rr = random.Random(f"C12/cli/{ck.seed}")
        by_tool = {}
        for f in flows:
            by_tool.setdefault((f[0], f[1]), []).append(f)
        flows = [f for _k, fs in sorted(by_tool.items()) for f in rr.sample(fs, k=min(3, len(fs)))]
    cjobs = [(f, ck.seed) for f in flows]
    if nproc <= 1:
        recs = [run_case(j) for j in jobs]
        crecs = [run_cli(j) for j in cjobs]
    else:
        with mp.get_context("fork").Pool(nproc) as pool:
            ares = pool.map_async(run_case, jobs, chunksize=1)
            cres = pool.map_async(run_cli, cjobs, chunksize=1)
            recs, crecs = ares.get(), cres.get()
    recs.sort(key=lambda r: r.cid)
    ck.extra["sweep_wall_s"] = round(time.time() - t0, 1)
    ck.extra["cases_by_area"] = {}
    for c in cases:
        ck.extra["cases_by_area"][c[0]] = ck.extra["cases_by_area"].get(c[0], 0) + 1

    s = ck.stream("area_sweep", f"COMPLETE enumeration of the live database: {len(cases)} (family, revision, area, sub-feature/memory type) cases "
                  f"({', '.join(f'{k}={v}' for k, v in sorted(ck.extra['cases_by_area'].items()))}); per case the template plus the value vectors "
                  f"{'/'.join(dict.fromkeys(modes))} (all-zeros, all-ones{', alternating max/0' if 'even' in modes else ''}, every register as one whole value, "
                  f"{nrand} random in-range vectors" + (f"; quick tier: the full vector set on one row per distinct layout ({len(cases) - len(light)} rows), "
                  f"template + one random vector on the other {len(light)} rows that resolve to an identical layout" if light else "") +
                  ") over every visible register and bit-field go through "
                  "template/YAML/schema/load/export/size/parse/verify/export/get_config/load/export and the independent computed-field checks; "
                  "non-trivial = distinct (case, vector)")
    s.exhaustive = True
    infra = [r for r in recs if r.infra]
    if infra:
        raise Infra(f"harness worker crashed on {infra[0].cid}:\n{infra[0].infra}")
    for r in recs:
        for inp, cls in r.evals:
            s.note(inp, cls=cls)
        for inp, what, obs, exp, finding in r.fails:
            s.expect(False, inp, what, obs, exp, finding=finding)
    ck.extra["slowest_cases"] = [(r.cid, round(r.t, 2)) for r in sorted(recs, key=lambda r: -r.t)[:5]]
    sc = ck.stream("cli_flow", f"{len(flows)} tool/family flows through the real click entry points (pfr, ifr, nxpimage bca|fcf|tz, nxpimage bootable-image "
                   "fcb|xmcd, nxpmemcfg, nxpfuses; latest revision): get-template -> generate/export -> parse -> generate/export again, binaries "
                   "(option words) equal and of the documented size; nxpfuses: get-template -> fuses-script" + ("; quick = three random families per tool" if ck.quick else "; every supported family") + "; non-trivial = distinct (flow, step)")
    cinfra = [r for r in crecs if r.infra]
    if cinfra:
        raise Infra(f"harness worker crashed on {cinfra[0].cid}:\n{cinfra[0].infra}")
    for r in sorted(crecs, key=lambda r: r.cid):
        for inp, cls in r.evals:
            sc.note(inp, cls=cls)
        for inp, what, obs, exp, finding in r.fails:
            sc.expect(False, inp, what, obs, exp, finding=finding)
    _correspondence(ck, drv, cases, recs)
    # the evidence keeps the size of the generated tables, not the tables themselves (several MB)
    for n in ("RegLayouts", "RegDetails"):
        m = ck.generated_meta.get(n)
        if m:
            ck.generated_meta[n] = {"counts": m.get("counts"), "problems": m.get("problems", []),
                                    "files": sorted({x["file"] for x in m.get("layouts", m.get("details", []))})}


def _csv(vals):
    return ",".join(str(v) for v in vals) if vals else "-"


def _regs_txt(layout, cov=None):
    """live/meta layout [[off,width,hidden,[[o,w]..]]..] -> driver text (cov = width unless given)"""
    out = []
    for i, r in enumerate(layout):
        c = r[1] if cov is None else cov[i]
        out.append(",".join(map(str, [r[0], r[1], r[2], c] + [x for f in r[3] for x in f])))
    return ";".join(out) if out else "-"


KIND_NO = {"cmpa": 0, "cfpa": 1, "romcfg": 2, "cmactable": 3, "bca": 4, "fcf": 5, "fcb": 6, "xmcd": 7, "fuses": 8, "memcfg": 9}


def _correspondence(ck, drv, cases, recs):
    """generated table vs live objects (infrastructure check) and Lean model vs real code (correspondence)."""
    meta = ck.generated_meta.get("RegLayouts")
    if not meta or "rows" not in meta or "layouts" not in meta:
        ck.broken.append("generated register-layout table is missing or unreadable (the static replica of the database/loader could not be built)")
        return
    for pr in (meta.get("problems") or [])[:5]:
        ck.broken.append("generator could not resolve part of the database (static replica of the loader): " + str(pr)[:300])
    rows, tz_rows, layouts = meta["rows"], meta.get("tz_rows", {}), meta["layouts"]
    live_ids = {r.cid for r in recs}
    gen_ids = set(rows) | set(tz_rows)
    only = os.environ.get("VERIF_C12_ONLY")
    if only:  # debugging aid / replay: a sub-set of the cases
        gen_ids = {g for g in gen_ids if any(o in g for o in only.split(","))}
        rows = {k: v for k, v in rows.items() if k in gen_ids}
    if live_ids != gen_ids:
        # the generated model part no longer describes the code (restructured database / loader): a broken tie, decided by the
        # failing-input search of the sweep - not an infrastructure error
        ck.broken.append("the statically generated list of (area, family, revision, sub-feature) rows differs from the live database enumeration: "
                         f"only live {sorted(live_ids - gen_ids)[:5]} only generated {sorted(gen_ids - live_ids)[:5]}")
    by_id = {r.cid: r for r in recs}
    rows = {k: v for k, v in rows.items() if k in by_id and isinstance(v, int) and 0 <= v < len(layouts)}
    mism = []
    for cid, idx in rows.items():
        r = by_id[cid]
        if r.layout is not None and r.layout != layouts[idx]["regs"]:
            a, b = r.layout, layouts[idx]["regs"]
            k = next((i for i, (x, y) in enumerate(zip(a, b)) if x != y), min(len(a), len(b)))
            mism.append((cid, layouts[idx]["file"], f"register #{k}: live {a[k] if k < len(a) else None} generated {b[k] if k < len(b) else None}; "
                         f"{len(a)} vs {len(b)} registers"))
    ck.extra["layout_table"] = {"distinct_layouts": len(layouts), "rows": len(rows), "tz_rows": len(tz_rows),
                                "registers": (meta.get("counts") or {}).get("registers"), "bitfields": (meta.get("counts") or {}).get("bitfields"),
                                "rows_compared_with_live_objects": sum(1 for cid in rows if by_id[cid].layout is not None)}
    for m_ in mism[:5]:
        ck.broken.append("generated register layout differs from the live Registers object (the generated table no longer describes the code): " + json.dumps(m_)[:400])
    mism_ids = {m_[0] for m_ in mism}
    dmeta = (ck.generated_meta.get("RegDetails") or {}).get("details")
    if dmeta is None or len(dmeta) != len(layouts):
        ck.broken.append("generated register-details table is missing or not aligned with the layout table")
        dmeta = None
    dm = []
    for cid, idx in (rows.items() if dmeta is not None else ()):
        r = by_id[cid]
        if r.details is None:
            continue
        want = json.loads(json.dumps(dmeta[idx]["regs"]))
        got = json.loads(json.dumps(r.details))
        if got != want:
            k = next((i for i, (x, y) in enumerate(zip(got, want)) if x != y), min(len(got), len(want)))
            g, w = (got[k] if k < len(got) else None), (want[k] if k < len(want) else None)
            if g and w and g[:5] == w[:5]:
                j = next((i for i, (x, y) in enumerate(zip(g[5], w[5])) if x != y), 0)
                g, w = (g[1], g[5][j] if j < len(g[5]) else None), (w[1], w[5][j] if j < len(w[5]) else None)
            dm.append((cid, dmeta[idx]["file"], f"register #{k}: live {json.dumps(g)[:300]} generated {json.dumps(w)[:300]}"))
    ck.extra["layout_table"]["rows_details_compared_with_live_objects"] = sum(1 for cid in rows if by_id[cid].details is not None) if dmeta is not None else 0
    ck.extra["layout_table"]["enum_values"] = ((ck.generated_meta.get("RegDetails") or {}).get("counts") or {}).get("enums")
    for d_ in dm[:5]:
        ck.broken.append("generated register details (initial values, names, access, enums) differ from the live Registers object: " + json.dumps(d_)[:400])
    mism_ids |= {d_[0] for d_ in dm}
    if dmeta is None:
        dmeta = [{"names": [], "regs": [], "computed": [], "aux": [], "file": l.get("file", "?")} for l in layouts]
    if drv is None:
        return
    sm = ck.stream("model_vs_code", "Lean model (drv_c12) against the real code on every vector of the sweep: exported bytes, values after parse, "
                   "computed-field recomputation, sealed export, TrustZone words, XMCD CRC; plus the Lean layout table against the generator's "
                   "meta data; non-trivial = distinct request")
    # ---- Lean table == meta (ties the .lean file to what was compared with the live objects)
    lines, expect, inputs = [], [], []
    sm.note(("count",), cls="table")
    sm.compare(("count",), f"{len(layouts)} {len(meta.get('tz_files', {}))}", " ".join(str(drv.ask("count")).split()), "number of generated layouts")
    for i, l in enumerate(layouts):
        comp = ",".join(f"{a}:{b}" for a, b in l["computed"]) or "-"
        want = (f"{l['file']} {KIND_NO[l['kind']]} {l['size']} {l['fill']} {l['doc']} {1 if l['binary'] else 0} {comp} {l['seal'][0]} {l['seal'][1]} "
                + _regs_txt(l["regs"], l["cov"]))
        lines += [f"sel {i}", "dump"]
        expect += [f"ok {l['nregs']}", want]
        inputs += [("sel", i), ("dump", i, l["file"])]
    lines.append("tzwords")
    expect.append(_csv([v for _k, v in sorted(meta["tz_files"].items())]))
    inputs.append(("tzwords",))
    # the checker, executed natively over the whole table (the same statement is kernel-checked in Properties/C12.lean)
    lines.append("wfall")
    expect.append(None)
    inputs.append(("wfall",))
    lines.append("dcheck")
    expect.append(None)
    inputs.append(("dcheck",))
    # ---- model vs real code
    for r in recs:
        cid = r.cid
        idx = rows.get(cid)
        cur = None
        off_table = idx is None or cid in mism_ids   # this row's generated entry does not describe the live object (recorded as broken above)
        for it in r.model:
            inp = (cid, it["op"], *it["inp"][1:])
            if off_table:
                if it["op"] in ("cfg", "enumval", "ow", "fcbparse", "bcaparse", "fcfparse", "seal"):
                    continue   # these need the generated entry of the row
                if it["op"] in ("export", "parse") and it.get("layout") is None:
                    if r.layout is None:
                        continue
                    it = dict(it, layout=r.layout, size=it.get("size", 0), fill=it.get("fill", 0))
            if it["op"] == "tz":
                lines.append(f"tzexport {_csv(it['vals'])}")
                expect.append("ok:" + it["bytes"] if it["bytes"] else "ok:")
                inputs.append(inp)
                lines.append(f"tzparse {it['n']} {it['bytes'] or '-'}")
                expect.append("ok:" + _csv(it["vals"]))
                inputs.append(inp + ("parse",))
                continue
            want_sel = ("use", json.dumps(it["layout"])) if it.get("layout") is not None else ("sel", idx)
            if want_sel != cur and it["op"] in ("export", "parse", "seal"):
                if want_sel[0] == "sel":
                    lines.append(f"sel {idx}")
                    expect.append(f"ok {layouts[idx]['nregs']}")
                else:
                    lines.append(f"use {it['size']} {it['fill']} {_regs_txt(it['layout'])}")
                    expect.append(f"ok {len(it['layout'])}")
                inputs.append((cid, "select"))
                cur = want_sel
            if it["op"] == "export":
                lines.append(f"export {_csv(it['vals'])}")
                expect.append("ok:" + it["bytes"])
            elif it["op"] in ("fcbparse", "bcaparse", "fcfparse"):
                if idx is None or cur != ("sel", idx):
                    lines.append(f"sel {idx}")
                    expect.append(f"ok {layouts[idx]['nregs']}")
                    inputs.append((cid, "select"))
                    cur = ("sel", idx)
                lines.append(f"{it['op']} {it['bytes'] or '-'}")
                expect.append(it["res"])
            elif it["op"] == "ow":
                if cur != ("sel", idx):
                    lines.append(f"sel {idx}")
                    expect.append(f"ok {layouts[idx]['nregs']}")
                    inputs.append((cid, "select"))
                    cur = ("sel", idx)
                lines.append(f"ow {_csv(it['vals'])}")
                expect.append(it["res"])
            elif it["op"] == "cfg":
                det = dmeta[idx]
                names = det["names"]
                # byte-reversed / alternative-width GROUPS are modelled (sub-register structure in the details table); not modelled:
                # a reversed plain register, a group that is not exactly as wide as its sub-registers (open finding), a group with
                # bit-fields of its own, a register name that is also the name / uid of a sub-register
                lw = layouts[idx]["regs"]
                subkeys = {k for r in det["regs"] for k in r[6][4]}
                eligible = (all((r[4] == 0 and not r[6][3]) if r[6][0] == 0 else
                                (k < len(lw) and r[6][0] * r[6][1] == lw[k][1] and not r[5]) for k, r in enumerate(det["regs"]))
                            and not any(r[1] in subkeys for r in det["regs"])
                            and len({r[1] for r in det["regs"]}) == len(det["regs"])
                            and all(len({f[4] for f in r[5]}) == len(r[5]) for r in det["regs"]))
                if not eligible:
                    continue
                if cur != ("sel", idx):
                    lines.append(f"sel {idx}")
                    expect.append(f"ok {layouts[idx]['nregs']}")
                    inputs.append((cid, "select"))
                    cur = ("sel", idx)
                ents = []
                try:
                    for reg_name, k, v in it["cfg"]:
                        if k == "V":
                            ents.append(f"{names.index(reg_name)}=V{v}")
                        else:
                            ents.append(f"{names.index(reg_name)}=" + "{" + ",".join(
                                f"{names.index(fn)}:" + (f"n{names.index(x)}" if t == "n" else f"v{x}") for fn, t, x in v) + "}")
                except ValueError:   # a name the generated table does not know: the table mismatch is already recorded
                    ents = ["<name missing in the generated table>"]
                lines.append(f"getcfg {_csv(it['vals'])}")
                expect.append("ok:" + ";".join(ents))
                inputs.append(inp + ("get_config",))
                if it["rt"] is not None:
                    lines.append(f"rtcfg {_csv(it['vals'])}")
                    expect.append(it["rt"])
                    inputs.append(inp + ("load(get_config)",))
                continue
            elif it["op"] == "enumval":
                if cur != ("sel", idx):
                    lines.append(f"sel {idx}")
                    expect.append(f"ok {layouts[idx]['nregs']}")
                    inputs.append((cid, "select"))
                    cur = ("sel", idx)
                names = dmeta[idx]["names"]
                res = it["res"]
                want = f"n{names.index(res)}" if res in it["names"] and res in names else None
                if want is None:
                    try:
                        want = f"v{int(res, 16)}"
                    except (TypeError, ValueError):
                        want = f"?{res}"
                lines.append(f"enumval {it['ri']} {it['fi']} {it['v']}")
                expect.append(want)
            elif it["op"] == "scalar":
                t = it["text"]
                if isinstance(t, int):
                    req = f"scalar {it['hx']} i {t}"
                elif isinstance(t, str) and t.lower().startswith("0x"):
                    req = f"scalar {it['hx']} p {t[2:] or '-'}"
                else:
                    req = f"scalar {it['hx']} d {t or '-'}"
                lines.append(req)
                expect.append(it["res"])
                inputs.append(inp)
                continue
            elif it["op"] == "rule":
                lines.append(f"compute 0:{it['rule']} 0 {it['v']}")
                expect.append(str(it["out"]))
                inputs.append(inp)
                # the generated bit-expression tree of the source function (ties the generator's translation to the real function)
                lines.append(f"evalrule {it['rule']} {it['v']}")
                expect.append(str(it["out"]))
                inputs.append(inp + ("generated-tree",))
                continue
            elif it["op"] == "xmcdhdr":
                lines.append("xmcdhdr " + " ".join(map(str, it["args"])))
                expect.append(str(it["hdr"]))
            elif it["op"] == "crc":
                lines.append(f"crc {it['bytes']}")
                expect.append(str(it["crc"]))
            elif it["op"] == "parse":
                lines.append(f"parse {it['bytes']} {_csv(it['vals'])}")
                expect.append(_csv(it["vals"]))
            elif it["op"] == "seal":
                lines.append(f"seal {it['start']} {it['count']} {_csv(it['vals'])}")
                expect.append("ok:" + it["bytes"])
            elif it["op"] == "compute":
                rules = ",".join(f"{a}:{b}" for a, b in it["rules"]) or "-"
                ment = _csv(sorted({a for a, _b in it["rules"]}))
                lines.append(f"compute {rules} {ment} {_csv(it['before'])}")
                expect.append(_csv(it["after"]))
            inputs.append(inp)
    ans = drv.batch(lines)
    for ln, want, got, inp in zip(lines, expect, ans, inputs):
        if inp == ("wfall",):
            try:
                bad = [layouts[int(i)]["file"] for i in got.split(",")] if got not in ("-", "") else []
            except (ValueError, IndexError, KeyError, AttributeError):
                sm.note(inp, cls="wfall")
                sm.compare(inp, "<comma separated layout indices>", got, "the native layout checker gave an unreadable answer")
                continue
            known_ill = {"devices/kw45b41z8/ifr_cmactable_a0.json", "devices/kw47b42zb7/ifr_cmactable_a0.json", "devices/kw47b42zb7/ifr_romcfg_a0.json",
                         "devices/mcxn946/pfr_cmpa_a0.json", "devices/mcxn946/pfr_cfpa_a0.json"}
            for f in bad:
                if f not in known_ill:
                    i = next(k for k, l in enumerate(layouts) if l["file"] == f)
                    users = sorted(c for c, ix in rows.items() if ix == i)[:3]
                    ck.broken.append(f"generated layout is ill-formed (overlapping / out-of-page registers, bit-fields outside the register, size): {f}; used by {', '.join(users)}")
            ck.extra["layout_checker"] = {"ill_formed_layouts": bad, "how": "layoutWFb executed natively by drv_c12 over the whole generated table; "
                                          "the same statement is kernel-checked (decide +kernel) by gen_layouts_wf_partial in Properties/C12.lean"}
            continue
        if inp == ("dcheck",):
            bad = {}
            try:
                for ent in ([] if got in ("-", "") else got.split(",")):
                    i, cl = ent.split(":")
                    bad[layouts[int(i)]["file"]] = cl.split("+")
            except (ValueError, IndexError, KeyError, AttributeError):
                sm.note(inp, cls="dcheck")
                sm.compare(inp, "<index:clause+clause,...>", got, "the native details checker gave an unreadable answer")
                continue
            expected_bad = {"devices/kw45b41z8/ifr_cmactable_a0.json", "devices/kw47b42zb7/ifr_cmactable_a0.json", "common/xmcd/flexspi_ram_simplified.json",
                            "common/xmcd/xspi_ram_simplified.json", "devices/mimx9131/fuses.json", "devices/mimx9596/fuses.json"}
            # groups wider than their sub-registers: the two mcxn946 a0 pages of knownIllFormed (open finding C12-group-wider-than-subregs)
            expected_groups = {"devices/mcxn946/pfr_cmpa_a0.json", "devices/mcxn946/pfr_cfpa_a0.json"}
            for f, cl in bad.items():
                if f in expected_bad and set(cl) <= {"regnames", "findreg", "fieldnames"}:
                    continue
                if f in expected_groups and set(cl) <= {"groups"}:
                    continue
                i = next(k for k, l in enumerate(layouts) if l["file"] == f)
                drv.ask(f"sel {i}")
                where = drv.ask("dwhere")
                detail = ""
                try:
                    if where not in ("-", ""):
                        ri, fi, what = where.split(":")
                        regd = dmeta[i]["regs"][int(ri)]
                        detail = f" register '{regd[1]}'" + (f" bit-field '{regd[5][int(fi)][4]}'" if fi != "-" else "") + f" ({what})"
                except (ValueError, IndexError, KeyError, TypeError):
                    detail = ""
                users = sorted(c for c, ix in rows.items() if ix == i)[:3]
                ck.broken.append(f"generated database table fact fails [{'+'.join(cl)}]: {f}{detail}; used by {', '.join(users)}")
            ck.extra["details_checker"] = {"failing": bad, "how": "the clauses of gen_details_ok / gen_fcb_table / gen_bca_fcf_table / gen_memcfg_table evaluated "
                                           "natively per layout (names the database file and the fact when one of these theorems stops checking; the "
                                           "files listed here on a green run are the named exceptions knownDuplicateRegNames / knownDuplicateFieldNames and, for clause 'groups' of gen_groups_ok_partial, knownIllFormed)"}
            continue
        sm.note(inp, cls=inp[1] if len(inp) > 1 and isinstance(inp[1], str) else str(inp[0]))
        sm.compare(inp, want, got, "Lean model differs from the implementation" if inp[0] not in ("sel", "dump", "tzwords", "count")
                   else "Lean layout table differs from the generator's meta data")


def replay(ck, data):
    """re-run the cases named in a replay file (all of them when none can be identified)"""
    cids = set()
    for c in data.get("cases", []) + data.get("disagreements", []):
        inp = c.get("input")
        if isinstance(inp, list) and inp and isinstance(inp[0], str) and "/" in inp[0]:
            cids.add(inp[0])
    if cids:
        os.environ["VERIF_C12_ONLY"] = ",".join(sorted(cids))
    run(ck)
