"""C09 - ciphers, MACs, hashes, CRCs and KDFs match their standards and invert.

Obligations   : Properties/C09.lean - inversion theorems of every mode for EVERY CryptoOps instance satisfying the block
                laws (all keys/IVs/messages/lengths), wrapper-level round trips incl. defaulted IVs, Counter arithmetic
                incl. 32-bit wrap, generated-constant agreements (CRC table, key-store constants, default-IV lengths).
Correspondence: every wrapper of spsdk.crypto.{symmetric,cmac,spsdk_hmac,hkdf,hash,crc}, KeyStore.derive_*, the SB3.1 KDF
                vs the Lean model (Model/SymWrappers.lean over the executable FIPS-197/FIPS-180/SM4/CRC reference),
                byte for byte, including which exception class refuses an input.
Oracle        : (on the real code, independent of the wrapper model) decrypt(encrypt(m)) == m / zero-padded m with IVs given
                or defaulted on either side; ciphertext/MAC/digest == the standard as computed by the Lean reference
                primitives or by Python's hashlib/hmac/zlib/binascii; Counter advances exactly by the stated number of blocks.
Stream `reference` checks the Lean reference itself against hashlib / cryptography / crcmod called directly and against
standard known-answer vectors: these are TESTS OF THE REFERENCE (labelled so), not theorems.
"""
from __future__ import annotations

import binascii
import hashlib
import hmac as pyhmac
import zlib

from vcore import canon, hexs, pyres

M32 = 1 << 32


class Batch:
    """Collect (input, request line, expected canonical answer, kind) and flush through the driver."""

    def __init__(self, drv):
        self.drv = drv
        self.items = []

    def corr(self, stream, inp, line, real):
        """correspondence: real wrapper vs wrapper model"""
        self.items.append(("corr", stream, inp, line, real, None))

    def ref(self, stream, inp, line, real, what):
        """oracle: real result vs the standard as computed by a Spec-only Lean reference op (Crypto/*.lean; never a `w_*` model op)"""
        assert line.split(" ", 1)[0] in stream.ck.spec_ops, "oracle expectations may only come from Spec-only driver ops"
        self.items.append(("ref", stream, inp, line, real, what))

    def flush(self):
        if self.drv is None or not self.items:
            self.items = []
            return
        answers = self.drv.batch([it[3] for it in self.items])
        for (kind, stream, inp, _line, real, what), ans in zip(self.items, answers):
            if kind == "corr":
                stream.compare(inp, real, ans)
            else:
                stream.expect(real == ans, inp, what, real, ans)
        self.items = []


def opt(iv):
    return "none" if iv is None else hexs(iv)


def run(ck):
    import crcmod
    from cryptography.hazmat.primitives import cmac as c_cmac
    from cryptography.hazmat.primitives import hashes as c_hashes
    from cryptography.hazmat.primitives import keywrap as c_keywrap
    from cryptography.hazmat.primitives.ciphers import Cipher, aead, algorithms, modes
    from cryptography.hazmat.primitives.kdf.hkdf import HKDF

    from spsdk.crypto import symmetric as S
    from spsdk.crypto.cmac import cmac, cmac_validate
    from spsdk.crypto.crc import CRC_ALGORITHMS, CrcAlg, from_crc_algorithm
    from spsdk.crypto.hash import EnumHashAlgorithm, Hash, get_hash, get_hash_length
    from spsdk.crypto.hkdf import hkdf
    from spsdk.crypto.spsdk_hmac import hmac, hmac_validate
    from spsdk.image.keystore import KeyStore
    from spsdk.sbfile.sb31 import functions as sb31
    from spsdk.utils.misc import Endianness

    # Driver ops that evaluate ONLY Crypto/*.lean over `execOps` (Driver/C09.lean `stepRef`): the standards' reference, independent of /repo,
    # of Generated/ and of Model/.  Oracle expectations (`B.ref`) use these ops only; every `w_*` op (wrapper model, generated tables) feeds
    # `s.compare` only.  (VERIF_FAULT=badmodel keeps exactly these answers intact.)
    ck.spec_ops = {"hash", "aes_enc", "aes_dec", "sm4_enc", "sm4_dec", "ecb_enc", "ecb_dec", "cbc_enc", "cbc_dec", "sm4cbc_enc", "sm4cbc_dec",
                   "ctr", "xts_enc", "xts_dec", "ccm_enc", "ccm_dec", "kw_wrap", "kw_unwrap", "cmac", "hmac", "hkdf", "crc"}
    ck.lean_obligations(generated=["CrcTable", "SymConsts", "Sb31Kdf", "CounterConsts"])
    drv = ck.driver()
    ck.assume(
        "cryptography/OpenSSL implements AES (ECB/CBC/CTR/XTS/CCM, RFC 3394), SM4-CBC, CMAC, HMAC, HKDF, SHA-1/2 as the Lean "
        "reference (Crypto/*.lean) defines them; differential test on every run (stream `reference`), no theorem can speak about OpenSSL",
        "crcmod.mkCrcFun(poly, initCrc, rev, xorOut) is the Rocksoft CRC with register init = initCrc ^ xorOut; differential test on every run",
        "algorithms.AES.block_size == algorithms.SM4.block_size == 128 and AES.key_sizes == {128,192,256,512}, SM4.key_sizes == {128} "
        "(values the generator and the model assume; re-checked against the live module by this harness)",
        "CCM messages longer than 2^(8*(15-len(nonce))) and inputs above 4 KiB are outside the sampled domain",
        "CryptoLaws of the executable AES/SM4 (dec(enc b) = b) are proved in Lean (Proofs/AesInv.lean, Proofs/Sm4Inv.lean); "
        "the theorems about modes hold for every instance with those laws",
        "MD5 and SM3 (reachable through get_hash_algorithm's getattr) are checked against hashlib by the oracle only (not modelled)",
    )
    # live re-check of the environment constants the generator folds in (a mismatch is infrastructure, not a verdict)
    from vcore import Infra
    if algorithms.AES.block_size != 128 or algorithms.SM4.block_size != 128 or \
            set(algorithms.AES.key_sizes) != {128, 192, 256, 512} or set(algorithms.SM4.key_sizes) != {128}:
        raise Infra("cryptography's AES/SM4 class constants differ from what tools/extract/gen_C09.py assumes")
    meta = ck.generated_meta.get("SymConsts", {})
    ck.extra["generated_fallbacks"] = dict(meta.get("fallback", {}))
    if ck.generated_meta.get("Sb31Kdf", {}).get("fallback"):
        ck.extra["generated_fallbacks"]["Sb31Kdf.table"] = ck.generated_meta["Sb31Kdf"]["fallback"]
    for k_, v_ in (ck.generated_meta.get("CounterConsts", {}).get("fallback") or {}).items():
        ck.extra["generated_fallbacks"]["CounterConsts." + k_] = v_
    # live cross-check of the generated tables (a disagreement is extractor trouble = infrastructure, never a verdict)
    live_enum = [[m.name, m.tag, m.label] for m in EnumHashAlgorithm]
    if meta.get("values", {}).get("hashEnum") != live_enum and "hashEnum" not in meta.get("fallback", {}):
        raise Infra(f"generated EnumHashAlgorithm {meta.get('values', {}).get('hashEnum')} disagrees with the live enum {live_enum}")
    import re as _re
    from vcore import GEN
    kdf_rows = 0
    for mm in _re.finditer(r"^\s*\((\d+), (\d+), (true|false), (\d+), (\d+), (none|some \[([0-9, ]*)\])\)", (GEN / "Sb31Kdf.lean").read_text(), _re.M):
        dc, rights, kdk, kl, it = int(mm.group(1)), int(mm.group(2)), mm.group(3) == "true", int(mm.group(4)), int(mm.group(5))
        want = ("E:spsdk",) if mm.group(6) == "none" else ("ok", bytes(int(x) for x in mm.group(7).split(",")))
        got = pyres(sb31._get_key_derivation_data, dc, rights, sb31.KeyDerivationMode.KDK if kdk else sb31.KeyDerivationMode.BLK, kl, it)
        kdf_rows += 1
        if got != want:
            raise Infra(f"generated SB3.1 KDF table row {(dc, rights, kdk, kl, it)} disagrees with the live function (extractor trouble)")
    ck.extra["sb31_kdf_table_rows_crosschecked"] = kdf_rows

    rng = ck.rng
    rb = rng.randbytes
    reps = ck.budget(4, 60)
    B = Batch(drv)
    LE, BE = Endianness.LITTLE, Endianness.BIG

    def raw_cipher(alg, mode, dec, data):
        c = Cipher(alg, mode)
        o = c.decryptor() if dec else c.encryptor()
        return o.update(data) + o.finalize()

    sampled = [255, 256, 257, 1000, 4095, 4096] + [rng.randrange(81, 4097) for _ in range(ck.budget(4, 60))]
    lens_all = list(range(0, 81)) + sampled

    # =============================================================== tests of the reference (not theorems)
    s = ck.stream("reference", "TESTS OF THE LEAN REFERENCE (not of SPSDK): standard known-answer vectors (FIPS-197 C.1-C.3, RFC 3394 4.1-4.6, "
                  "RFC 4493, RFC 4231, RFC 5869 A.1-A.3, RFC 3610 #1, GB/T 32907 A.1, CRC catalogue check values) + random inputs vs "
                  "hashlib/cryptography/crcmod called directly: all key sizes, lengths 0..80 and around block boundaries")
    kat = [
        ("aes_enc 000102030405060708090a0b0c0d0e0f 00112233445566778899aabbccddeeff", "ok:69c4e0d86a7b0430d8cdb78070b4c55a"),
        ("aes_enc 000102030405060708090a0b0c0d0e0f1011121314151617 00112233445566778899aabbccddeeff", "ok:dda97ca4864cdfe06eaf70a0ec0d7191"),
        ("aes_enc 000102030405060708090a0b0c0d0e0f101112131415161718191a1b1c1d1e1f 00112233445566778899aabbccddeeff", "ok:8ea2b7ca516745bfeafc49904b496089"),
        ("aes_dec 000102030405060708090a0b0c0d0e0f 69c4e0d86a7b0430d8cdb78070b4c55a", "ok:00112233445566778899aabbccddeeff"),
        ("kw_wrap 000102030405060708090a0b0c0d0e0f 00112233445566778899aabbccddeeff", "ok:1fa68b0a8112b447aef34bd8fb5a7b829d3e862371d2cfe5"),
        ("kw_wrap 000102030405060708090a0b0c0d0e0f101112131415161718191a1b1c1d1e1f 00112233445566778899aabbccddeeff000102030405060708090a0b0c0d0e0f",
         "ok:28c9f404c4b810f4cbccb35cfb87f8263f5786e2d80ed326cbc7f0e71a99f43bfb988b9b7a02dd21"),
        ("kw_unwrap 000102030405060708090a0b0c0d0e0f 1fa68b0a8112b447aef34bd8fb5a7b829d3e862371d2cfe5", "ok:00112233445566778899aabbccddeeff"),
        ("cmac 2b7e151628aed2a6abf7158809cf4f3c -", "ok:bb1d6929e95937287fa37d129b756746"),
        ("cmac 2b7e151628aed2a6abf7158809cf4f3c 6bc1bee22e409f96e93d7e117393172a", "ok:070a16b46b4d4144f79bdd9dd04a287c"),
        ("cmac 2b7e151628aed2a6abf7158809cf4f3c 6bc1bee22e409f96e93d7e117393172aae2d8a571e03ac9c9eb76fac45af8e5130c81c46a35ce411",
         "ok:dfa66747de9ae63030ca32611497c827"),
        ("hmac sha256 0b0b0b0b0b0b0b0b0b0b0b0b0b0b0b0b0b0b0b0b 4869205468657265", "ok:b0344c61d8db38535ca8afceaf0bf12b881dc200c9833da726e9376c2e32cff7"),
        ("hmac sha512 4a656665 7768617420646f2079612077616e7420666f72206e6f7468696e673f",
         "ok:164b7a7bfcf819e2e395fbe73b56e0a387bd64222e831fd610270cd7ea2505549758bf75c05a994a6d034f65f8f0e6fdcaeab1a34d4a6b4b636e070a38bce737"),
        ("hkdf sha256 000102030405060708090a0b0c 0b0b0b0b0b0b0b0b0b0b0b0b0b0b0b0b0b0b0b0b0b0b f0f1f2f3f4f5f6f7f8f9 42",
         "ok:3cb25f25faacd57a90434f64d0362f2a2d2d0a90cf1a5a4c5db02d56ecc4c5bf34007208d5b887185865"),
        ("hkdf sha256 - 0b0b0b0b0b0b0b0b0b0b0b0b0b0b0b0b0b0b0b0b0b0b - 42",
         "ok:8da4e775a563c18f715f802a063c5a31b8a11f5c5ee1879ec3454e5f3c738d2d9d201395faa4b61a96c8"),
        ("hkdf sha1 000102030405060708090a0b0c 0b0b0b0b0b0b0b0b0b0b0b f0f1f2f3f4f5f6f7f8f9 42",
         "ok:085a01ea1b10f36933068b56efa5ad81a4f14b822f5b091568a9cdd4f155fda2c22e422478d305f3f896"),
        ("ccm_enc c0c1c2c3c4c5c6c7c8c9cacbcccdcecf 00000003020100a0a1a2a3a4a5 0001020304050607 8 08090a0b0c0d0e0f101112131415161718191a1b1c1d1e",
         "ok:588c979a61c663d2f066d0c2c0f989806d5f6b61dac38417e8d12cfdf926e0"),
        ("sm4_enc 0123456789abcdeffedcba9876543210 0123456789abcdeffedcba9876543210", "ok:681edf34d206965e86b3e94f536e4246"),
        ("sm4_dec 0123456789abcdeffedcba9876543210 681edf34d206965e86b3e94f536e4246", "ok:0123456789abcdeffedcba9876543210"),
        ("hash sha1 616263", "ok:a9993e364706816aba3e25717850c26c9cd0d89d"),
        ("hash sha256 616263", "ok:ba7816bf8f01cfea414140de5dae2223b00361a396177a9cb410ff61f20015ad"),
        ("hash sha384 616263", "ok:cb00753f45a35e8bb5a03d699ac65007272c32ab0eded1631a8b605a43ff5bed8086072ba1e7cc2358baeca134c825a7"),
        ("hash sha512 616263", "ok:ddaf35a193617abacc417349ae20413112e6fa4e89a97ea20a9eeee64b55d39a2192992a274fc1a836ba3c23a3feebbd454d4423643ce80e2a9ac94fa54ca49f"),
        ("crc 32 79764919 4294967295 4294967295 1 1 313233343536373839", "ok:3421780262"),   # CRC-32 check 0xCBF43926
        ("crc 32 79764919 4294967295 0 0 0 313233343536373839", "ok:58124007"),               # CRC-32/MPEG-2 check 0x0376E6E7
        ("crc 16 4129 0 0 0 0 313233343536373839", "ok:12739"),                                # CRC-16/XMODEM check 0x31C3
        ("xts_enc 00000000000000000000000000000000 00000000000000000000000000000000 00000000000000000000000000000000 "
         "0000000000000000000000000000000000000000000000000000000000000000", "ok:917cf69ebd68b2ec9b9fe9a3eadda692cd43d2f59598ed858c02c2652fbf922e"),
    ]
    for line, want in kat:
        s.note(("kat", line[:60]), cls="known-answer")
        B.corr(s, ("kat", line), line, want)
    hnames = ("sha1", "sha256", "sha384", "sha512")
    chash = {"sha1": c_hashes.SHA1, "sha256": c_hashes.SHA256, "sha384": c_hashes.SHA384, "sha512": c_hashes.SHA512}
    for _ in range(ck.budget(1, 20)):
        for kl in (16, 24, 32):
            k = rb(kl)
            for _i in range(4):
                b = rb(16)
                s.note(("aes_blk", kl), cls="aes-block")
                B.corr(s, ("aes_enc", k, b), f"aes_enc {hexs(k)} {hexs(b)}", "ok:" + raw_cipher(algorithms.AES(k), modes.ECB(), 0, b).hex())
                B.corr(s, ("aes_dec", k, b), f"aes_dec {hexs(k)} {hexs(b)}", "ok:" + raw_cipher(algorithms.AES(k), modes.ECB(), 1, b).hex())
            for n in (0, 16, 48, 160):
                m, iv = rb(n), rb(16)
                s.note(("cbc", kl, n), cls="aes-cbc/ecb")
                B.corr(s, ("ecb_enc", k, m), f"ecb_enc {hexs(k)} {hexs(m)}", "ok:" + raw_cipher(algorithms.AES(k), modes.ECB(), 0, m).hex())
                B.corr(s, ("cbc_enc", k, iv, m), f"cbc_enc {hexs(k)} {hexs(iv)} {hexs(m)}", "ok:" + raw_cipher(algorithms.AES(k), modes.CBC(iv), 0, m).hex())
                B.corr(s, ("cbc_dec", k, iv, m), f"cbc_dec {hexs(k)} {hexs(iv)} {hexs(m)}", "ok:" + raw_cipher(algorithms.AES(k), modes.CBC(iv), 1, m).hex())
            for n in (0, 1, 15, 16, 17, 33, 100):
                m = rb(n)
                iv = rng.choice([rb(16), b"\xff" * 16, rb(8) + b"\xff" * 8, rb(12) + b"\xff\xff\xff\xfe"])
                s.note(("ctr", kl, n), cls="aes-ctr")
                B.corr(s, ("ctr", k, iv, m), f"ctr {hexs(k)} {hexs(iv)} {hexs(m)}", "ok:" + raw_cipher(algorithms.AES(k), modes.CTR(iv), 0, m).hex())
            for n in (0, 1, 15, 16, 17, 31, 32, 33, 64, 70):
                m = rb(n)
                o = c_cmac.CMAC(algorithms.AES(k))
                o.update(m)
                s.note(("cmac", kl, n), cls="cmac")
                B.corr(s, ("cmac", k, m), f"cmac {hexs(k)} {hexs(m)}", "ok:" + o.finalize().hex())
            for n in (16, 24, 32, 40, 64):
                p = rb(n)
                w = c_keywrap.aes_key_wrap(k, p)
                s.note(("kw", kl, n), cls="keywrap")
                B.corr(s, ("kw_wrap", k, p), f"kw_wrap {hexs(k)} {hexs(p)}", "ok:" + w.hex())
                B.corr(s, ("kw_unwrap", k, w), f"kw_unwrap {hexs(k)} {hexs(w)}", "ok:" + p.hex())
            for nl in range(7, 14):
                tl = rng.choice((4, 6, 8, 10, 12, 14, 16))
                m, a, n = rb(rng.choice([0, 1, 15, 16, 17, 40])), rb(rng.choice([0, 1, 13, 14, 30, 40])), rb(nl)
                ct = aead.AESCCM(k, tag_length=tl).encrypt(n, m, a)
                s.note(("ccm", kl, nl, tl), cls="ccm")
                B.corr(s, ("ccm_enc", k, n, a, tl, m), f"ccm_enc {hexs(k)} {hexs(n)} {hexs(a)} {tl} {hexs(m)}", "ok:" + ct.hex())
                B.corr(s, ("ccm_dec", k, n, a, tl, ct), f"ccm_dec {hexs(k)} {hexs(n)} {hexs(a)} {tl} {hexs(ct)}", "ok:" + m.hex())
        for kl in (32, 64):
            k, t = rb(kl), rb(16)
            for n in (16, 32, 48, 160):
                m = rb(n)
                s.note(("xts", kl, n), cls="xts")
                B.corr(s, ("xts_enc", k, t, m), f"xts_enc {hexs(k[:kl // 2])} {hexs(k[kl // 2:])} {hexs(t)} {hexs(m)}",
                       "ok:" + raw_cipher(algorithms.AES(k), modes.XTS(t), 0, m).hex())
                B.corr(s, ("xts_dec", k, t, m), f"xts_dec {hexs(k[:kl // 2])} {hexs(k[kl // 2:])} {hexs(t)} {hexs(m)}",
                       "ok:" + raw_cipher(algorithms.AES(k), modes.XTS(t), 1, m).hex())
        for _i in range(4):
            k, b, iv, m = rb(16), rb(16), rb(16), rb(48)
            s.note(("sm4",), cls="sm4")
            B.corr(s, ("sm4_enc", k, b), f"sm4_enc {hexs(k)} {hexs(b)}", "ok:" + raw_cipher(algorithms.SM4(k), modes.ECB(), 0, b).hex())
            B.corr(s, ("sm4_dec", k, b), f"sm4_dec {hexs(k)} {hexs(b)}", "ok:" + raw_cipher(algorithms.SM4(k), modes.ECB(), 1, b).hex())
            B.corr(s, ("sm4cbc_enc", k, iv, m), f"sm4cbc_enc {hexs(k)} {hexs(iv)} {hexs(m)}", "ok:" + raw_cipher(algorithms.SM4(k), modes.CBC(iv), 0, m).hex())
        for a in hnames:
            for n in (0, 1, 55, 56, 63, 64, 65, 111, 112, 119, 120, 127, 128, 129, 1000):
                m = rb(n)
                s.note(("hash", a, n), cls="sha")
                B.corr(s, ("hash", a, m), f"hash {a} {hexs(m)}", "ok:" + hashlib.new(a, m).hexdigest())
            for kn in (0, 20, 64, 65, 128, 129):
                k, m = rb(kn), rb(rng.choice([0, 1, 64, 200]))
                s.note(("hmac", a, kn), cls="hmac")
                B.corr(s, ("hmac", a, k, m), f"hmac {a} {hexs(k)} {hexs(m)}", "ok:" + pyhmac.new(k, m, a).hexdigest())
            for L in (0, 1, 32, 33, 100):
                salt, ikm, info = rb(rng.choice([0, 1, 16, 200])), rb(rng.choice([0, 1, 22, 80])), rb(rng.choice([0, 10, 80]))
                s.note(("hkdf", a, L), cls="hkdf")
                B.corr(s, ("hkdf", a, salt, ikm, info, L), f"hkdf {a} {hexs(salt)} {hexs(ikm)} {hexs(info)} {L}",
                       "ok:" + HKDF(algorithm=chash[a](), length=L, salt=salt, info=info).derive(ikm).hex())
        for (poly, init, rev, xo) in [(0x104C11DB7, 0, True, 0xFFFFFFFF), (0x104C11DB7, 0xFFFFFFFF, False, 0), (0x11021, 0, False, 0),
                                      (0x18005, 0xFFFF, True, 0xFFFF), (0x107, 0, False, 0x55)]:
            f = crcmod.mkCrcFun(poly, initCrc=init, rev=rev, xorOut=xo)
            w = poly.bit_length() - 1
            for n in (0, 1, 2, 7, 8, 9, 33, 300):
                m = rb(n)
                s.note(("crc", poly, n), cls="crc")
                B.corr(s, ("crc", poly, init, rev, xo, m), f"crc {w} {poly - (1 << w)} {init ^ xo} {xo} {int(rev)} {int(rev)} {hexs(m)}", f"ok:{f(m)}")
    B.flush()

    # =============================================================== cipher wrappers
    s = ck.stream("ciphers", "aes_ecb/cbc/ctr/xts/ccm, aes_key_wrap, sm4_cbc wrappers: key sizes 16/24/32 (XTS 32/64), message lengths 0..80 "
                  "exhaustively + sampled to 4 KiB, IV in {None, b'', zeros, random} independently on the encrypt and the decrypt side, CCM nonce "
                  "7..13 x tag 4..16 x AAD 0..40, key wrap 16..64 B, XTS incl. stealing lengths; non-trivial = distinct accepted input")
    ivmodes = ["none", "empty", "zeros", "rand"]

    def mkiv(mode, r):
        return {"none": None, "empty": b"", "zeros": bytes(16), "rand": r}[mode]

    def cbc_family(tag, enc, dec, keylens, refop):
        fn = {"cbc": "aes_cbc", "sm4": "sm4_cbc"}[tag]
        for kl in keylens:
            for n in lens_all:
                for _ in range(reps if n <= 80 else 1):
                    k, m, r = rb(kl), rb(n), rb(16)
                    em, dm = rng.choice(ivmodes), rng.choice(ivmodes)
                    if n <= 80 and n % 5 == 0:
                        em, dm = "none", "none"           # the defaulted-on-both-sides path at every 5th length
                    elif n <= 80 and n % 5 == 1:
                        em, dm = rng.choice([("none", "zeros"), ("zeros", "none"), ("empty", "none"), ("rand", "rand")])
                    eiv, div = mkiv(em, r), mkiv(dm, r)
                    inp = (tag, k, m, em, dm, r if "rand" in (em, dm) else None)
                    re_ = pyres(enc, k, m, eiv)
                    s.note(inp, nontrivial=re_[0] == "ok", cls=f"{tag} iv={em}/{dm} len%16={'0' if n % 16 == 0 else 'x'}")
                    B.corr(s, inp, f"w_{tag}_enc {hexs(k)} {hexs(m)} {opt(eiv)}", canon(re_))
                    padded = m + bytes(-len(m) % 16)
                    eff_e = eiv or bytes(16)
                    if not s.expect(re_[0] == "ok" and len(re_[1]) == len(padded), inp, f"{fn}_encrypt refuses a legal input or returns the wrong length", re_):
                        continue
                    B.ref(s, inp, f"{refop}_enc {hexs(k)} {hexs(eff_e)} {hexs(padded)}", canon(re_),
                          f"{fn}_encrypt differs from CBC of the zero-padded message under the given / default all-zero IV (Lean reference)")
                    rd = pyres(dec, k, re_[1], div)
                    B.corr(s, inp + ("dec",), f"w_{tag}_dec {hexs(k)} {hexs(re_[1])} {opt(div)}", canon(rd))
                    eff_d = div or bytes(16)
                    if eff_e == eff_d:
                        s.expect(rd == ("ok", padded), inp, f"{fn}_decrypt(key, {fn}_encrypt(key, m, iv), iv) is not the zero-padded message (IV given or defaulted on either side)",
                                 rd, padded)
                    else:
                        s.expect(rd[0] == "ok" and rd[1][16:] == padded[16:] and (len(padded) == 0 or rd[1][:16] != padded[:16]), inp,
                                 f"{fn}_decrypt under a different IV must differ from the padded message in the first block only", rd)

    cbc_family("cbc", S.aes_cbc_encrypt, S.aes_cbc_decrypt, (16, 24, 32), "cbc")
    cbc_family("sm4", S.sm4_cbc_encrypt, S.sm4_cbc_decrypt, (16,), "sm4cbc")
    B.flush()

    for kl in (16, 24, 32):
        for n in lens_all:
            k, nonce = rb(kl), rb(16)
            # ECB (block multiples only are legal)
            m = rb(n - n % 16)
            inp = ("ecb", k, m)
            re_ = pyres(S.aes_ecb_encrypt, k, m)
            s.note(inp, cls="ecb")
            B.corr(s, inp, f"w_ecb_enc {hexs(k)} {hexs(m)}", canon(re_))
            if s.expect(re_[0] == "ok", inp, "aes_ecb_encrypt refuses a legal input", re_):
                B.ref(s, inp, f"ecb_enc {hexs(k)} {hexs(m)}", canon(re_), "aes_ecb_encrypt differs from FIPS-197 ECB (Lean reference)")
                rd = pyres(S.aes_ecb_decrypt, k, re_[1])
                B.corr(s, inp + ("dec",), f"w_ecb_dec {hexs(k)} {hexs(re_[1])}", canon(rd))
                s.expect(rd == ("ok", m), inp, "aes_ecb_decrypt(aes_ecb_encrypt(m)) != m", rd, m)
            # CTR (any length); nonce classes: random, low word about to carry, all ones, produced by Counter
            m = rb(n)
            cls = rng.choice(["rand", "carry32", "ones", "counter"])
            if cls == "carry32":
                nonce = rb(12) + (M32 - 1 - rng.randrange(3)).to_bytes(4, "big")
            elif cls == "ones":
                nonce = b"\xff" * 16
            elif cls == "counter":
                cn = S.Counter(rb(16), ctr_value=rng.randrange(1 << 20), ctr_byteorder_encoding=rng.choice([LE, BE]))
                nonce = cn.value
            inp = ("ctr", k, m, nonce)
            re_ = pyres(S.aes_ctr_encrypt, k, m, nonce)
            s.note(inp, cls="ctr nonce=" + cls)
            B.corr(s, inp, f"w_ctr {hexs(k)} {hexs(m)} {hexs(nonce)}", canon(re_))
            if s.expect(re_[0] == "ok" and len(re_[1]) == n, inp, "aes_ctr_encrypt refuses a legal input / changes the length", re_):
                B.ref(s, inp, f"ctr {hexs(k)} {hexs(nonce)} {hexs(m)}", canon(re_), "aes_ctr_encrypt differs from SP 800-38A CTR with a 128-bit big-endian counter (Lean reference)")
                rd = pyres(S.aes_ctr_decrypt, k, re_[1], nonce)
                s.expect(rd == ("ok", m), inp, "aes_ctr_decrypt(aes_ctr_encrypt(m)) != m", rd, m)
                B.corr(s, inp + ("dec",), f"w_ctr {hexs(k)} {hexs(re_[1])} {hexs(nonce)}", canon(rd))
    B.flush()

    # CTR keystream positioning with Counter: encrypting in two pieces with the counter advanced by the block count of the first
    for _ in range(ck.budget(100, 3000)):
        k = rb(rng.choice([16, 24, 32]))
        start = rng.choice([0, 1, M32 - 2, M32 - 1, rng.getrandbits(32)])
        nb1, nb2 = rng.randrange(0, 5), rng.randrange(1, 5)
        m = rb(16 * (nb1 + nb2))
        base = rb(12) + start.to_bytes(4, "big")
        inp = ("ctr-split", k, m, base, nb1)

        def split():
            cn = S.Counter(base, ctr_byteorder_encoding=BE)
            first = S.aes_ctr_encrypt(k, m[:16 * nb1], cn.value)
            cn.increment(nb1)
            return first + S.aes_ctr_encrypt(k, m[16 * nb1:], cn.value), cn.value
        r = pyres(split)
        s.note(inp, cls="ctr-split start=" + ("wrap" if start + nb1 + nb2 >= M32 else "plain"))
        # reference: per-block keystream with the last 32-bit word counting modulo 2^32 (what a Counter-positioned stream means)
        want = b"".join(raw_cipher(algorithms.AES(k), modes.CTR(base[:12] + ((start + i) % M32).to_bytes(4, "big")), 0, m[16 * i:16 * i + 16])
                        for i in range(nb1 + nb2)) if start + nb1 < M32 or nb1 == 0 else None
        ok = r[0] == "ok" and r[1][1] == base[:12] + ((start + nb1) % M32).to_bytes(4, "big")
        if want is not None and start + nb1 + nb2 <= M32:
            ok = ok and r[1][0] == want
        s.expect(ok, inp, "a CTR stream continued with Counter.increment(number of blocks) is not positioned exactly that many blocks further "
                          "(incl. 32-bit wrap of the counter word)", r if r[0] != "ok" else (r[1][0].hex(), r[1][1].hex()))

    # XTS
    for kl in (32, 64):
        xl = list(range(16, 81)) + [160, 512, 1024, 4096] + [rng.randrange(81, 4097) for _ in range(ck.budget(3, 40))]
        for n in xl:
            for _ in range(reps if n <= 80 else 1):
                k, t, m = rb(kl), rb(16), rb(n)
                inp = ("xts", k, m, t)
                re_ = pyres(S.aes_xts_encrypt, k, m, t)
                s.note(inp, cls="xts " + ("aligned" if n % 16 == 0 else "stealing"))
                B.corr(s, inp, f"w_xts_enc {hexs(k)} {hexs(m)} {hexs(t)}", canon(re_))
                if s.expect(re_[0] == "ok" and len(re_[1]) == n, inp, "aes_xts_encrypt refuses a legal input / changes the length", re_):
                    if n % 16 == 0:
                        B.ref(s, inp, f"xts_enc {hexs(k[:kl // 2])} {hexs(k[kl // 2:])} {hexs(t)} {hexs(m)}", canon(re_),
                              "aes_xts_encrypt differs from IEEE 1619 XTS (Lean reference)")
                    rd = pyres(S.aes_xts_decrypt, k, re_[1], t)
                    B.corr(s, inp + ("dec",), f"w_xts_dec {hexs(k)} {hexs(re_[1])} {hexs(t)}", canon(rd))
                    s.expect(rd == ("ok", m), inp, "aes_xts_decrypt(aes_xts_encrypt(m)) != m", rd, m)
    B.flush()

    # CCM
    for kl in (16, 24, 32):
        for nl in range(7, 14):
            for tl in (4, 6, 8, 10, 12, 14, 16):
                for _ in range(ck.budget(2, 40)):
                    k, n = rb(kl), rb(nl)
                    m = rb(rng.choice([0, 1, 15, 16, 17, 31, 32, 33, 80, rng.randrange(0, 81), rng.choice(sampled)]))
                    a = rb(rng.choice([0, 1, 13, 14, 15, 29, 30, 31, 40, rng.randrange(0, 41)]))
                    inp = ("ccm", k, m, n, a, tl)
                    dflt = tl == 16 and len(a) == 0 and rng.random() < 0.5
                    re_ = pyres(S.aes_ccm_encrypt, k, m, n) if dflt else pyres(S.aes_ccm_encrypt, k, m, n, a, tl)
                    s.note(inp, cls=f"ccm nonce={nl} tag={tl}" + (" defaults" if dflt else ""))
                    B.corr(s, inp, f"w_ccm_enc {hexs(k)} {hexs(m)} {hexs(n)} {hexs(a)} {tl}", canon(re_))
                    if not s.expect(re_[0] == "ok" and len(re_[1]) == len(m) + tl, inp, "aes_ccm_encrypt refuses a legal input / wrong length", re_):
                        continue
                    B.ref(s, inp, f"ccm_enc {hexs(k)} {hexs(n)} {hexs(a)} {tl} {hexs(m)}", canon(re_), "aes_ccm_encrypt differs from RFC 3610 (Lean reference)")
                    rd = pyres(S.aes_ccm_decrypt, k, re_[1], n, a) if dflt else pyres(S.aes_ccm_decrypt, k, re_[1], n, a, tl)
                    B.corr(s, inp + ("dec",), f"w_ccm_dec {hexs(k)} {hexs(re_[1])} {hexs(n)} {hexs(a)} {tl}", canon(rd))
                    s.expect(rd == ("ok", m), inp, "aes_ccm_decrypt(aes_ccm_encrypt(m)) != m", rd, m)
                    bad = bytearray(re_[1])
                    bad[rng.randrange(len(bad))] ^= 1 << rng.randrange(8)
                    rt = pyres(S.aes_ccm_decrypt, k, bytes(bad), n, a, tl)
                    B.corr(s, inp + ("tampered",), f"w_ccm_dec {hexs(k)} {hexs(bytes(bad))} {hexs(n)} {hexs(a)} {tl}", canon(rt))
    # key wrap
    for kl in (16, 24, 32):
        for n in range(16, 65, 8):
            for _ in range(ck.budget(3, 60)):
                k, p = rb(kl), rb(n)
                inp = ("keywrap", k, p)
                rw = pyres(S.aes_key_wrap, k, p)
                s.note(inp, cls="keywrap")
                B.corr(s, inp, f"w_kw_wrap {hexs(k)} {hexs(p)}", canon(rw))
                if not s.expect(rw[0] == "ok" and len(rw[1]) == n + 8, inp, "aes_key_wrap refuses a legal input / wrong length", rw):
                    continue
                B.ref(s, inp, f"kw_wrap {hexs(k)} {hexs(p)}", canon(rw), "aes_key_wrap differs from RFC 3394 (Lean reference)")
                ru = pyres(S.aes_key_unwrap, k, rw[1])
                B.corr(s, inp + ("unwrap",), f"w_kw_unwrap {hexs(k)} {hexs(rw[1])}", canon(ru))
                s.expect(ru == ("ok", p), inp, "aes_key_unwrap(aes_key_wrap(p)) != p", ru, p)
                bad = bytearray(rw[1])
                bad[rng.randrange(len(bad))] ^= 1 << rng.randrange(8)
                B.corr(s, inp + ("tampered",), f"w_kw_unwrap {hexs(k)} {hexs(bytes(bad))}", canon(pyres(S.aes_key_unwrap, k, bytes(bad))))
    B.flush()

    # =============================================================== refused inputs (which exception class)
    s = ck.stream("refusals", "illegal key / IV / nonce / tweak / tag lengths and non-block-multiple data for every wrapper: same accept/refuse "
                  "decision and exception class (SPSDKError vs other) as the model; oracle: an illegal key or IV length is never silently accepted")
    badk = [0, 1, 15, 17, 23, 25, 31, 33, 48, 64, 128]
    for kl in badk:
        k = rb(kl)
        m16 = rb(16)
        for nm, fn, line in (
            ("cbc_enc", lambda: S.aes_cbc_encrypt(k, m16), f"w_cbc_enc {hexs(k)} {hexs(m16)} none"),
            ("cbc_dec", lambda: S.aes_cbc_decrypt(k, m16, bytes(16)), f"w_cbc_dec {hexs(k)} {hexs(m16)} {'00' * 16}"),
            ("ecb_enc", lambda: S.aes_ecb_encrypt(k, m16), f"w_ecb_enc {hexs(k)} {hexs(m16)}"),
            ("ecb_dec", lambda: S.aes_ecb_decrypt(k, m16), f"w_ecb_dec {hexs(k)} {hexs(m16)}"),
            ("ctr", lambda: S.aes_ctr_encrypt(k, m16, bytes(16)), f"w_ctr {hexs(k)} {hexs(m16)} {'00' * 16}"),
            ("ccm_enc", lambda: S.aes_ccm_encrypt(k, m16, bytes(12)), f"w_ccm_enc {hexs(k)} {hexs(m16)} {'00' * 12} - 16"),
            ("kw_wrap", lambda: S.aes_key_wrap(k, m16), f"w_kw_wrap {hexs(k)} {hexs(m16)}"),
            ("kw_unwrap", lambda: S.aes_key_unwrap(k, bytes(24)), f"w_kw_unwrap {hexs(k)} {'00' * 24}"),
            ("cmac", lambda: cmac(k, m16), f"w_cmac {hexs(k)} {hexs(m16)}"),
            ("sm4_enc", lambda: S.sm4_cbc_encrypt(k, m16), f"w_sm4_enc {hexs(k)} {hexs(m16)} none"),
            ("sm4_dec", lambda: S.sm4_cbc_decrypt(k, m16, bytes(16)), f"w_sm4_dec {hexs(k)} {hexs(m16)} {'00' * 16}"),
        ):
            r = pyres(fn)
            inp = ("badkey", nm, kl)
            s.note(inp, cls="bad key " + r[0])
            B.corr(s, inp, line, canon(r))
            s.expect(r[0] != "ok", inp, f"{nm} accepts a key of {kl} bytes", r)
    for kl in (0, 16, 31, 33, 48, 63, 65):
        k = rb(kl)
        r = pyres(S.aes_xts_encrypt, k, bytes(16), bytes(16))
        s.note(("badkey", "xts", kl), cls="bad key " + r[0])
        B.corr(s, ("badkey", "xts", kl), f"w_xts_enc {hexs(k)} {'00' * 16} {'00' * 16}", canon(r))
        s.expect(r[0] != "ok", ("badkey", "xts", kl), f"aes_xts_encrypt accepts a key of {kl} bytes", r)
    dup = rb(16) * 2
    B.corr(s, ("xts-dup",), f"w_xts_enc {hexs(dup)} {'00' * 16} {'00' * 16}", canon(pyres(S.aes_xts_encrypt, dup, bytes(16), bytes(16))))
    s.note(("xts-dup",), cls="xts duplicated half keys")
    k16, k32 = rb(16), rb(32)
    for il in (1, 8, 15, 17, 32, 128):
        iv = rb(il)
        for nm, fn, line in (
            ("cbc_enc", lambda: S.aes_cbc_encrypt(k16, bytes(16), iv), f"w_cbc_enc {hexs(k16)} {'00' * 16} {hexs(iv)}"),
            ("cbc_dec", lambda: S.aes_cbc_decrypt(k16, bytes(16), iv), f"w_cbc_dec {hexs(k16)} {'00' * 16} {hexs(iv)}"),
            ("sm4_enc", lambda: S.sm4_cbc_encrypt(k16, bytes(16), iv), f"w_sm4_enc {hexs(k16)} {'00' * 16} {hexs(iv)}"),
            ("sm4_dec", lambda: S.sm4_cbc_decrypt(k16, bytes(16), iv), f"w_sm4_dec {hexs(k16)} {'00' * 16} {hexs(iv)}"),
            ("ctr", lambda: S.aes_ctr_encrypt(k16, bytes(16), iv), f"w_ctr {hexs(k16)} {'00' * 16} {hexs(iv)}"),
            ("xts", lambda: S.aes_xts_encrypt(k32, bytes(16), iv), f"w_xts_enc {hexs(k32)} {'00' * 16} {hexs(iv)}"),
        ):
            r = pyres(fn)
            inp = ("badiv", nm, il)
            s.note(inp, cls="bad iv " + r[0])
            B.corr(s, inp, line, canon(r))
            s.expect(r[0] != "ok", inp, f"{nm} accepts an IV/nonce/tweak of {il} bytes", r)
            if nm in ("cbc_enc", "cbc_dec", "sm4_enc", "sm4_dec"):
                s.expect(r[0] == "E:spsdk", inp, f"{nm} does not report a wrong IV length as SPSDKError", r)
    for n in (1, 15, 17, 31, 33):
        d = rb(n)
        for nm, fn, line in (
            ("ecb_enc", lambda: S.aes_ecb_encrypt(k16, d), f"w_ecb_enc {hexs(k16)} {hexs(d)}"),
            ("ecb_dec", lambda: S.aes_ecb_decrypt(k16, d), f"w_ecb_dec {hexs(k16)} {hexs(d)}"),
            ("cbc_dec", lambda: S.aes_cbc_decrypt(k16, d, bytes(16)), f"w_cbc_dec {hexs(k16)} {hexs(d)} {'00' * 16}"),
            ("sm4_dec", lambda: S.sm4_cbc_decrypt(k16, d, bytes(16)), f"w_sm4_dec {hexs(k16)} {hexs(d)} {'00' * 16}"),
            ("kw_wrap", lambda: S.aes_key_wrap(k16, d), f"w_kw_wrap {hexs(k16)} {hexs(d)}"),
            ("kw_unwrap", lambda: S.aes_key_unwrap(k16, d), f"w_kw_unwrap {hexs(k16)} {hexs(d)}"),
        ):
            r = pyres(fn)
            s.note(("badlen", nm, n), cls="bad data length " + r[0])
            B.corr(s, ("badlen", nm, n), line, canon(r))
            s.expect(r[0] != "ok", ("badlen", nm, n), f"{nm} accepts {n} bytes of data", r)
        if n < 16:
            r = pyres(S.aes_xts_encrypt, k32, d, bytes(16))
            s.note(("badlen", "xts", n), cls="bad data length " + r[0])
            B.corr(s, ("badlen", "xts", n), f"w_xts_enc {hexs(k32)} {hexs(d)} {'00' * 16}", canon(r))
    for n in (8, 24):   # key-wrap payload shorter than 16 / wrapped shorter than 24
        B.corr(s, ("kw-short", n), f"w_kw_wrap {hexs(k16)} {hexs(bytes(n))}", canon(pyres(S.aes_key_wrap, k16, bytes(n))))
        B.corr(s, ("kuw-short", n), f"w_kw_unwrap {hexs(k16)} {hexs(bytes(n - 8))}", canon(pyres(S.aes_key_unwrap, k16, bytes(n - 8))))
        s.note(("kw-short", n))
    for nl in (0, 6, 14, 16):
        r = pyres(S.aes_ccm_encrypt, k16, b"abc", bytes(nl))
        s.note(("ccm-nonce", nl), cls="bad ccm param " + r[0])
        B.corr(s, ("ccm-nonce", nl), f"w_ccm_enc {hexs(k16)} 616263 {hexs(bytes(nl))} - 16", canon(r))
        s.expect(r[0] != "ok", ("ccm-nonce", nl), "aes_ccm_encrypt accepts an illegal nonce length", r)
    for tl in (-2, 0, 2, 3, 5, 15, 17, 18, 32):
        r = pyres(S.aes_ccm_encrypt, k16, b"abc", bytes(12), b"", tl)
        s.note(("ccm-tag", tl), cls="bad ccm param " + r[0])
        B.corr(s, ("ccm-tag", tl), f"w_ccm_enc {hexs(k16)} 616263 {'00' * 12} - {tl}", canon(r))
        s.expect(r[0] != "ok", ("ccm-tag", tl), "aes_ccm_encrypt accepts an illegal tag length", r)
        r = pyres(S.aes_ccm_decrypt, k16, bytes(20), bytes(12), b"", tl)
        B.corr(s, ("ccm-tag-dec", tl), f"w_ccm_dec {hexs(k16)} {'00' * 20} {'00' * 12} - {tl}", canon(r))
    for n in (0, 3, 15, 16):   # ciphertext not longer than the tag / garbage
        r = pyres(S.aes_ccm_decrypt, k16, bytes(n), bytes(12), b"", 16)
        s.note(("ccm-short", n), cls="ccm garbage " + r[0])
        B.corr(s, ("ccm-short", n), f"w_ccm_dec {hexs(k16)} {hexs(bytes(n))} {'00' * 12} - 16", canon(r))
        s.expect(r[0] != "ok", ("ccm-short", n), "aes_ccm_decrypt accepts garbage", r)
    B.flush()

    # =============================================================== MACs, hashes, KDF
    s = ck.stream("mac_hash_kdf", "get_hash/Hash/update_int, hmac(+validate), cmac(+validate), hkdf: SHA-1/256/384/512, lengths 0..140 exhaustively for "
                  "hashes and around the block boundaries (55,56,63,64,65,111,112,119,120,127,128,129) for keys and messages; oracle vs hashlib/hmac "
                  "(independent of OpenSSL bindings of `cryptography`) and vs the Lean reference")
    algs = {"sha1": EnumHashAlgorithm.SHA1, "sha256": EnumHashAlgorithm.SHA256, "sha384": EnumHashAlgorithm.SHA384, "sha512": EnumHashAlgorithm.SHA512}
    edge = [0, 1, 55, 56, 63, 64, 65, 111, 112, 119, 120, 127, 128, 129, 200, 300]
    for a, ea in algs.items():
        for n in list(range(0, 141)) + sampled[:6]:
            m = rb(n)
            r = pyres(get_hash, m, ea)
            inp = ("hash", a, m)
            s.note(inp, cls="hash " + a)
            B.corr(s, inp, f"w_hash {a} {hexs(m)}", canon(r))
            s.expect(r == ("ok", hashlib.new(a, m).digest()), inp, f"get_hash({a}) differs from hashlib", r)
            if n % 7 == 0:
                cut = rng.randrange(0, n + 1)

                def inc():
                    h = Hash(ea)
                    h.update(m[:cut])
                    h.update(m[cut:])
                    return h.finalize()
                s.expect(pyres(inc) == r, inp + (cut,), "Hash.update in two pieces differs from one-shot get_hash", pyres(inc), r)
        s.expect(pyres(get_hash_length, ea) == ("ok", hashlib.new(a).digest_size), ("hash_len", a), "get_hash_length wrong", pyres(get_hash_length, ea))
        # streaming Hash object: EVERY split point of every message up to the tier's length, + random 3-way splits
        for n in range(0, ck.budget(72, 141)):
            m = rb(n)
            one = hashlib.new(a, m).digest()
            for cut in range(0, n + 1):
                def two():
                    h = Hash(ea)
                    h.update(m[:cut])
                    h.update(m[cut:])
                    return h.finalize()
                r2 = pyres(two)
                s.note(("hash-split", a, n, cut), cls="hash split " + a)
                s.expect(r2 == ("ok", one), ("hash-split", a, m, cut), "Hash.update(m[:i]); update(m[i:]); finalize() differs from the one-shot digest", r2, one)
                if cut in (0, n // 2, n) or (n in (55, 56, 63, 64, 65, 111, 112, 127, 128, 129) and cut % 8 == 0):
                    B.corr(s, ("hash-split", a, m, cut), f"w_hash_stream {a} {hexs(m[:cut])} {hexs(m[cut:])}", canon(r2))
        for _ in range(ck.budget(10, 100)):
            m = rb(rng.choice([0, 1, 64, 127, 128, 129, 300, 1000]))
            cuts = sorted(rng.randrange(0, len(m) + 1) for _ in range(rng.randrange(0, 4)))
            parts = [m[i:j] for i, j in zip([0] + cuts, cuts + [len(m)])]

            def multi():
                h = Hash(ea)
                for part in parts:
                    h.update(part)
                return h.finalize()
            rm = pyres(multi)
            s.note(("hash-multi", a, len(m), cuts), cls="hash split " + a)
            s.expect(rm == ("ok", hashlib.new(a, m).digest()), ("hash-multi", a, m, cuts), "Hash with several update() calls differs from the one-shot digest", rm)
            B.corr(s, ("hash-multi", a, m, cuts), f"w_hash_stream {a} " + " ".join(hexs(x) for x in parts), canon(rm))
        for v in (0, 1, 255, 256, 65535, 65536, -1, -256, rng.getrandbits(64), rng.getrandbits(521), -rng.getrandbits(100)):
            def hint():
                h = Hash(ea)
                h.update_int(v)
                return h.finalize()
            r = pyres(hint)
            s.note(("hash_int", a, v), cls="update_int")
            B.corr(s, ("hash_int", a, v), f"w_hash_int {a} {v}", canon(r))
            want = hashlib.new(a, abs(v).to_bytes((abs(v).bit_length() + 7) // 8, "big")).digest()
            s.expect(r == ("ok", want), ("hash_int", a, v), "Hash.update_int does not hash the minimal big-endian bytes of |value|", r, want)
        for kn in edge:
            for mn in rng.sample(edge, ck.budget(5, 16)):
                k, m = rb(kn), rb(mn)
                r = pyres(hmac, k, m, ea)
                inp = ("hmac", a, k, m)
                s.note(inp, cls="hmac " + a)
                B.corr(s, inp, f"w_hmac {a} {hexs(k)} {hexs(m)}", canon(r))
                want = pyhmac.new(k, m, a).digest()
                s.expect(r == ("ok", want), inp, f"hmac({a}) differs from RFC 2104 (Python's hmac module)", r, want)
                if r[0] == "ok":
                    sig = r[1] if rng.random() < 0.5 else bytes([r[1][0] ^ 1]) + r[1][1:]
                    if rng.random() < 0.15:
                        sig = r[1][:rng.randrange(0, len(r[1]))]
                    rv = pyres(hmac_validate, k, m, sig, ea)
                    B.corr(s, inp + ("validate", sig), f"w_hmac_validate {a} {hexs(k)} {hexs(m)} {hexs(sig)}", canon(rv))
                    s.expect(rv == ("ok", sig == want), inp + ("validate", sig), "hmac_validate answer wrong", rv, sig == want)
    for member in EnumHashAlgorithm:
        r = pyres(get_hash_length, member)
        s.note(("hash_len", member.label), cls="get_hash_length")
        B.corr(s, ("hash_len", member.label), f"w_hash_len {member.label}", canon(r))
        std = {"sha1": 20, "sha256": 32, "sha384": 48, "sha512": 64, "md5": 16, "sm3": 32}
        s.expect(r == (("ok", std[member.label]) if member.label in std else ("E:spsdk",)), ("hash_len", member.label),
                 "get_hash_length is not the digest size of the standard / an unsupported algorithm is not an SPSDK error", r)
    r = pyres(hmac, b"k", b"m")
    s.expect(r == ("ok", pyhmac.new(b"k", b"m", "sha256").digest()), ("hmac-default",), "hmac default algorithm is not SHA-256", r)
    r = pyres(get_hash, b"m")
    s.expect(r == ("ok", hashlib.sha256(b"m").digest()), ("hash-default",), "get_hash default algorithm is not SHA-256", r)
    for extra, ea in (("md5", EnumHashAlgorithm.MD5), ("sm3", EnumHashAlgorithm.SM3)):
        for n in (0, 1, 55, 56, 64, 100):
            m = rb(n)
            r = pyres(get_hash, m, ea)
            s.note(("hash", extra, m), cls="hash " + extra)
            try:
                want = hashlib.new(extra, m).digest()
            except ValueError:
                continue
            s.expect(r == ("ok", want), ("hash", extra, m), f"get_hash({extra}) differs from hashlib", r, want)
    for kl in (16, 24, 32):
        for n in list(range(0, 81)) + sampled[:4]:
            k, m = rb(kl), rb(n)
            r = pyres(cmac, k, m)
            inp = ("cmac", k, m)
            s.note(inp, cls="cmac")
            B.corr(s, inp, f"w_cmac {hexs(k)} {hexs(m)}", canon(r))
            if s.expect(r[0] == "ok" and len(r[1]) == 16, inp, "cmac refuses a legal input / tag is not 16 bytes", r):
                B.ref(s, inp, f"cmac {hexs(k)} {hexs(m)}", canon(r), "cmac differs from SP 800-38B (Lean reference)")
                sig = r[1] if rng.random() < 0.5 else bytes([r[1][0] ^ 0x80]) + r[1][1:]
                if rng.random() < 0.1:
                    sig = r[1][:8]
                rv = pyres(cmac_validate, k, m, sig)
                B.corr(s, inp + ("validate", sig), f"w_cmac_validate {hexs(k)} {hexs(m)} {hexs(sig)}", canon(rv))
                s.expect(rv == ("ok", sig == r[1]), inp + ("validate", sig), "cmac_validate answer wrong", rv, sig == r[1])
    for L in [0, 1, 16, 31, 32, 33, 64, 65, 100, 255, 256, 1000, 255 * 32, 255 * 32 + 1, 10000]:
        for _ in range(ck.budget(3, 60)):
            salt, ikm, info = rb(rng.choice([0, 1, 16, 32, 63, 64, 65, 200])), rb(rng.choice([0, 1, 16, 22, 32, 80])), rb(rng.choice([0, 1, 10, 80]))
            r = pyres(hkdf, salt, ikm, info, L)
            inp = ("hkdf", salt, ikm, info, L)
            s.note(inp, cls="hkdf " + ("ok" if L <= 255 * 32 else "too long"))
            B.corr(s, inp, f"w_hkdf {hexs(salt)} {hexs(ikm)} {hexs(info)} {L}", canon(r))
            if L <= 255 * 32:
                # RFC 5869 with Python's hmac module
                prk = pyhmac.new(salt or bytes(32), ikm, "sha256").digest()
                okm, t, i = b"", b"", 1
                while len(okm) < L:
                    t = pyhmac.new(prk, t + info + bytes([i]), "sha256").digest()
                    okm += t
                    i += 1
                s.expect(r == ("ok", okm[:L]), inp, "hkdf differs from RFC 5869 HKDF-SHA256 (computed with Python's hmac module)", r, okm[:L])
            else:
                s.expect(r[0] != "ok", inp, "hkdf accepts a length above 255 hash blocks", r)
    B.flush()

    # =============================================================== CRC
    s = ck.stream("crc", "from_crc_algorithm(CRC32 / CRC32_MPEG / CRC16_XMODEM).calculate/verify, by enum and by label: lengths 0..70 exhaustively + "
                  "sampled to 4 KiB; oracle vs zlib.crc32 / binascii.crc_hqx / a bitwise MPEG-2 loop (independent of crcmod)")

    def mpeg2(data):
        crc = 0xFFFFFFFF
        for b in data:
            crc ^= b << 24
            for _ in range(8):
                crc = ((crc << 1) ^ 0x04C11DB7) & 0xFFFFFFFF if crc & 0x80000000 else (crc << 1) & 0xFFFFFFFF
        return crc
    indep = {"CRC32": lambda d: zlib.crc32(d) & 0xFFFFFFFF, "CRC32_MPEG": mpeg2, "CRC16_XMODEM": lambda d: binascii.crc_hqx(d, 0)}
    names = sorted(m.name for m in CRC_ALGORITHMS)
    s.expect(names == sorted(indep), ("crc-names",), "CRC_ALGORITHMS no longer offers exactly CRC32, CRC32_MPEG, CRC16_XMODEM", names)
    crc_meta = ck.generated_meta.get("CrcTable", {})
    if crc_meta.get("error"):
        # the generator could not read the table: it emitted an empty (opaque) one, `crc_table_standard` is a broken obligation and
        # the oracle below searches the real code for a failing input - a verdict, never an infrastructure error
        ck.extra.setdefault("generated_fallbacks", {})["CrcTable.table"] = crc_meta["error"]
    else:
        gen_rows = {k: (int(v["polynomial"], 16), int(v["initial_value"], 16), int(v["final_xor"], 16), v["reverse"])
                    for k, v in (crc_meta.get("entries") or {}).items()}
        live_rows = {m.name: (c.polynomial, c.initial_value, c.final_xor, c.reverse) for m, c in CRC_ALGORITHMS.items()}
        if gen_rows != live_rows:
            raise Infra(f"generated CRC table {gen_rows} disagrees with the live CRC_ALGORITHMS {live_rows} (extractor read a wrong value)")
    for name in names:
        alg = getattr(CrcAlg, name)
        for n in list(range(0, 71)) + sampled[:8]:
            for _ in range(reps):
                d = rb(n)
                r = pyres(lambda: from_crc_algorithm(alg).calculate(d))
                inp = ("crc", name, d)
                s.note(inp, cls=name)
                B.corr(s, inp, f"w_crc {name} {hexs(d)}", canon(r))
                want = indep[name](d) if name in indep else None
                s.expect(want is None or r == ("ok", want), inp, f"{name} differs from its reference definition", r, want)
                if r[0] == "ok" and n % 9 == 0:
                    rl = pyres(lambda: from_crc_algorithm(alg.label).calculate(d))
                    s.expect(rl == r, inp + ("label",), "from_crc_algorithm(label) differs from from_crc_algorithm(enum)", rl, r)
                    cand = r[1] if rng.random() < 0.4 else r[1] ^ (1 << rng.randrange(16 if name == "CRC16_XMODEM" else 32))
                    rv = pyres(lambda: from_crc_algorithm(alg).verify(d, cand))
                    B.corr(s, inp + ("verify", cand), f"w_crc_verify {name} {hexs(d)} {cand}", canon(rv))
                    s.expect(rv == ("ok", cand == r[1]), inp + ("verify", cand), "Crc.verify answer wrong", rv)
    # algebraic facts proved for the model (Properties/C09 Part F), evaluated on the real code
    resid = {"CRC32": (4, "little", 0x2144DF1C), "CRC32_MPEG": (4, "big", 0), "CRC16_XMODEM": (2, "big", 0)}
    for name in names:
        if name not in resid:
            continue
        calc = from_crc_algorithm(getattr(CrcAlg, name)).calculate
        nb, order, const = resid[name]
        for _ in range(ck.budget(40, 600)):
            n = rng.choice([0, 1, 2, 7, 16, 33, rng.randrange(0, 200)])
            m = rb(n)
            r = pyres(lambda: calc(m + calc(m).to_bytes(nb, order)))
            s.note(("crc-residue", name, m), cls=name + " residue")
            s.expect(r == ("ok", const), ("crc-residue", name, m), f"{name}: message followed by its own CRC does not check to the residue constant", r, const)
            if n:
                i = rng.randrange(n)
                m2 = m[:i] + bytes([m[i] ^ rng.randrange(1, 256)]) + m[i + 1:]
                r1, r2 = pyres(calc, m), pyres(calc, m2)
                s.note(("crc-burst", name, m, i), cls=name + " single-byte change")
                s.expect(r1[0] == "ok" and r2[0] == "ok" and r1 != r2, ("crc-burst", name, m, m2), f"{name}: a change confined to one byte leaves the CRC unchanged", (r1, r2))
                a_, b_ = rb(n), rb(n)
                x3 = bytes(p ^ q ^ t for p, q, t in zip(m, a_, b_))
                ra = pyres(lambda: calc(m) ^ calc(a_) ^ calc(b_))
                s.expect(pyres(calc, x3) == ra, ("crc-affine", name, m, a_, b_), f"{name} is not an affine function of the message (crc(a^b^c) != crc(a)^crc(b)^crc(c))", pyres(calc, x3), ra)
    r = pyres(from_crc_algorithm, "crc-unknown")
    s.expect(r[0] == "E:spsdk", ("crc-unknown",), "unknown CRC algorithm name is not refused with an SPSDK error", r)
    B.flush()

    # =============================================================== key store + SB3.1 KDF
    s = ck.stream("derivations", "KeyStore.derive_hmac_key/enc_image_key/sb_kek_key/otfad_kek_key (key lengths 0,16,31,32,33,64) and SB3.1 "
                  "_get_key_derivation_data/derive_kdk/derive_block_key: key_length {128,256,other} x rights {-1..4} x mode x iteration, derivation "
                  "constants 0, 1, 2^32-1, 2^32, 2^96-1, 2^96, random; oracle: AES-ECB of the documented constants / the documented 32-byte layout "
                  "computed with `cryptography` directly")

    def ecb(k, d):
        return raw_cipher(algorithms.AES(k), modes.ECB(), 0, d)
    ks_docs = {"hmac": bytes(16), "enc_image": bytes([1] + [0] * 15 + [2] + [0] * 15), "sbkek": bytes([3] + [0] * 15 + [4] + [0] * 15)}
    ks_fn = {"hmac": KeyStore.derive_hmac_key, "enc_image": KeyStore.derive_enc_image_key, "sbkek": KeyStore.derive_sb_kek_key}
    for kl in [32] * ck.budget(10, 400) + [0, 16, 24, 31, 33, 64]:
        k = rb(kl)
        for nm, fn in ks_fn.items():
            r = pyres(fn, k)
            inp = ("keystore", nm, k)
            s.note(inp, nontrivial=kl == 32, cls="keystore " + r[0])
            B.corr(s, inp, f"w_ks_{nm} {hexs(k)}", canon(r))
            s.expect(r == (("ok", ecb(k, ks_docs[nm])) if kl == 32 else ("E:spsdk",)), inp, f"KeyStore.derive_{nm} is not AES-256-ECB of its documented constant "
                     "(or a wrong key length is not an SPSDK error)", r)
        for il in (16, 16, 0, 15, 17, 32):
            i = rb(il)
            r = pyres(KeyStore.derive_otfad_kek_key, k, i)
            inp = ("keystore", "otfad", k, i)
            s.note(inp, nontrivial=kl == 32 and il == 16, cls="keystore " + r[0])
            B.corr(s, inp, f"w_ks_otfad {hexs(k)} {hexs(i)}", canon(r))
            s.expect(r == (("ok", ecb(k, i)) if kl == 32 and il == 16 else ("E:spsdk",)), inp, "KeyStore.derive_otfad_kek_key is not AES-256-ECB of the OTFAD input", r)
    consts = [0, 1, 0x12345678, M32 - 1, M32, (1 << 96) - 1, 1 << 96, -1] + [rng.getrandbits(rng.choice([8, 32, 64, 96])) for _ in range(ck.budget(4, 60))]
    modes_ = {"kdk": sb31.KeyDerivationMode.KDK, "blk": sb31.KeyDerivationMode.BLK}
    for dc in consts:
        for rights in (-1, 0, 1, 2, 3, 4):
            for mname, mode in modes_.items():
                for kl in (128, 256, 0, 192, 512):
                    for it in (1, 2) + ((0, M32 - 1, M32) if dc == 1 else ()):
                        r = pyres(sb31._get_key_derivation_data, dc, rights, mode, kl, it)
                        inp = ("kdf_data", dc, rights, mname, kl, it)
                        legal = 0 <= rights <= 3 and kl in (128, 256) and 0 <= dc < (1 << 96) and 0 <= it < M32
                        s.note(inp, nontrivial=legal, cls="kdf_data " + r[0])
                        B.corr(s, inp, f"w_kdf_data {dc} {rights} {mname} {kl} {it}", canon(r))
                        if legal:
                            want = dc.to_bytes(12, "little") + bytes(8) + bytes([rights << 6, 1 if mname == "kdk" else 0x10, 0, 0x20 if kl == 128 else 0x21]) + \
                                kl.to_bytes(4, "big") + it.to_bytes(4, "big")
                            s.expect(r == ("ok", want), inp, "SB3.1 derivation data is not label(12 LE) | 8x00 | rights<<6 | mode | 00 | key option | length(4 BE) | i(4 BE)", r, want)
                        else:
                            s.expect(r[0] != "ok", inp, "SB3.1 derivation data accepts illegal parameters", r)
    for _ in range(ck.budget(30, 2000)):
        key = rb(rng.choice([16, 32, 32, 24]))
        dc, rights, kl = rng.choice(consts[:6] + consts[8:]), rng.randrange(4), rng.choice([128, 256])
        for mname, fn in (("kdk", sb31.derive_kdk), ("blk", sb31.derive_block_key)):
            r = pyres(fn, key, dc, kl, rights)
            inp = ("derive", mname, key, dc, kl, rights)
            s.note(inp, cls="derive_" + mname)
            B.corr(s, inp, f"w_derive_{mname} {hexs(key)} {dc} {kl} {rights}", canon(r))

            def data(it):
                return dc.to_bytes(12, "little") + bytes(8) + bytes([rights << 6, 1 if mname == "kdk" else 0x10, 0, 0x20 if kl == 128 else 0x21]) + \
                    kl.to_bytes(4, "big") + it.to_bytes(4, "big")

            def mac(d):
                o = c_cmac.CMAC(algorithms.AES(key))
                o.update(d)
                return o.finalize()
            want = mac(data(1)) + (mac(data(2)) if kl == 256 else b"")
            s.expect(r == ("ok", want), inp, "SB3.1 derived key is not CMAC(key, data(1)) [|| CMAC(key, data(2)) for 256-bit keys]", r, want)
        if rng.random() < 0.3:
            kd = sb31.KeyDerivator(key, dc, kl, rights)
            bn = rng.randrange(1 << 16)
            r = pyres(kd.get_block_key, bn)
            s.expect(r == pyres(sb31.derive_block_key, kd.kdk, bn, kl, rights) and kd.kdk == sb31.derive_kdk(key, dc, kl, rights),
                     ("derivator", key, dc, kl, rights, bn), "KeyDerivator is not derive_kdk followed by derive_block_key", r)
    B.flush()

    # =============================================================== Counter
    s = ck.stream("counter", "Counter(nonce, ctr_value, byteorder).increment()*.value: start words {0,1,2^32-2,2^32-1,random}, ctr_value {None,0,1,16,"
                  "2^32-1,2^32,random,-1}, both byte orders, increment sequences over {0,1,16,2^32,random,default}; oracle: value == nonce[:12] | enc32("
                  "(start + ctr_value + sum of increments) mod 2^32) after every step")
    starts = [0, 1, M32 - 2, M32 - 1]
    cvals = [None, 0, 1, 16, M32 - 1, M32, -1]
    incs = [0, 1, 16, M32, None]
    nwrap = 0
    for rep in range(ck.budget(3, 200)):
        for st in starts + [rng.getrandbits(32)]:
            for cv in cvals + [rng.getrandbits(rng.choice([8, 31, 33]))]:
                for order in (LE, BE):
                    seq = [rng.choice(incs + [rng.getrandbits(rng.choice([4, 20, 32]))]) for _ in range(rng.randrange(0, 5))]
                    nonce = rb(12) + st.to_bytes(4, order.value)

                    def runc():
                        cn = S.Counter(nonce, cv, order) if rep % 2 else S.Counter(nonce, ctr_value=cv, ctr_byteorder_encoding=order)
                        out = [cn.value]
                        for v in seq:
                            if v is None:
                                cn.increment()
                            else:
                                cn.increment(v)
                            out.append(cn.value)
                        return out
                    r = pyres(runc)
                    inp = ("counter", nonce, cv, order.value, seq)
                    total = st + (cv or 0)
                    exp = [total]
                    for v in seq:
                        total += 1 if v is None else v
                        exp.append(total)
                    wraps = any(not 0 <= t < M32 for t in exp)
                    nwrap += wraps
                    s.note(inp, cls="counter " + ("wrap" if wraps else "plain"))
                    want = [nonce[:12] + (t % M32).to_bytes(4, order.value) for t in exp]
                    line = f"w_counter {hexs(nonce)} {'none' if cv is None else cv} {int(order == LE)} " + " ".join(str(1 if v is None else v) for v in seq)
                    B.corr(s, inp, line.rstrip(), "ok:" + ",".join(x.hex() for x in r[1]) if r[0] == "ok" else r[0])
                    s.expect(r == ("ok", want), inp, "Counter does not advance exactly by the stated number of blocks (32-bit counter word, wrap-around included)",
                             r if r[0] != "ok" else [x.hex() for x in r[1]], [x.hex() for x in want])
    r = pyres(lambda: S.Counter(rb(12) + bytes(4)).value)
    s.expect(r[0] == "ok" and r[1][12:] == bytes(4), ("counter-default",), "Counter default ctr_value is not 0", r)
    for bad in (b"", rb(15), rb(17), bytearray(16), "0" * 16):
        r = pyres(S.Counter, bad)
        s.note(("counter-bad", repr(bad)[:20]), cls="counter refused")
        s.expect(r[0] == "E:spsdk", ("counter-bad", repr(bad)[:40]), "Counter accepts a nonce that is not 16 bytes", r)
        if isinstance(bad, bytes):
            B.corr(s, ("counter-bad", bad), f"w_counter {hexs(bad)} none 1", canon(r))
    B.flush()
    ck.extra["counter_wrap_cases"] = nwrap


    # =============================================================== phase 3: the incremental forms (Model/SymStream.lean, Properties/C09 Part H)
    s = ck.stream("hash_stream", "Hash(alg): arbitrary sequences of update(chunk) / update_int(v) then finalize() - chunk sizes around the block "
                  "boundaries (0,1,55,56,63,64,65,111,112,119,120,127,128,129,random to 600), empty chunks, 0..9 calls; correspondence with the "
                  "RUNNING SHA state machine of the Lean model (chaining value + buffer + count, theorem sha_stream_eq_oneshot); oracle vs hashlib "
                  "on the concatenation; spsdk hmac() vs the incremental HMAC model fed in random pieces")
    csz = [0, 0, 1, 3, 55, 56, 63, 64, 65, 111, 112, 119, 120, 127, 128, 129, 191, 192, 256]
    for a, ea in algs.items():
        for _ in range(ck.budget(45, 600)):
            calls = []
            for _k in range(rng.randrange(0, 10)):
                t = rng.random()
                if t < 0.15:
                    calls.append(("i", rng.choice([0, 1, 255, 256, -1, -65536, rng.getrandbits(rng.choice([7, 8, 64, 512, 1030])), -rng.getrandbits(72)])))
                else:
                    calls.append(("b", rb(rng.choice(csz) if t < 0.8 else rng.randrange(0, 601))))

            def runh():
                h = Hash(ea)
                for kind, v in calls:
                    if kind == "i":
                        h.update_int(v)
                    else:
                        h.update(v)
                return h.finalize()
            r = pyres(runh)
            whole = b"".join(abs(v).to_bytes((abs(v).bit_length() + 7) // 8, "big") if kind == "i" else v for kind, v in calls)
            inp = ("hash-calls", a, [v if kind == "i" else v.hex() for kind, v in calls])
            s.note(inp, nontrivial=len(whole) > 0, cls=f"{a} " + ("multi-block" if len(whole) >= (64 if a in ("sha1", "sha256") else 128) else "short") +
                   (" +int" if any(k == "i" for k, _ in calls) else "") + (" +empty" if any(k == "b" and not v for k, v in calls) else ""))
            want = hashlib.new(a, whole).digest()
            s.expect(r == ("ok", want), inp, "Hash.update*/update_int*/finalize differs from the one-shot digest of the concatenated data", r, want)
            B.corr(s, inp, f"w_sha_stream {a} " + " ".join(f"i:{v}" if kind == "i" else hexs(v) for kind, v in calls), canon(r))
        for _ in range(ck.budget(12, 150)):
            key = rb(rng.choice([0, 1, 16, 32, 63, 64, 65, 127, 128, 129, 200]))
            m = rb(rng.choice(csz + [rng.randrange(0, 400)]))
            cuts = sorted(rng.randrange(0, len(m) + 1) for _ in range(rng.randrange(0, 4)))
            parts = [m[i:j] for i, j in zip([0] + cuts, cuts + [len(m)])]
            r = pyres(hmac, key, m, ea)
            inp = ("hmac-stream", a, key, m, cuts)
            s.note(inp, cls=f"hmac {a}")
            s.expect(r == ("ok", pyhmac.new(key, m, a).digest()), inp, "hmac() differs from RFC 2104 (Python's hmac)", r)
            B.corr(s, inp, f"w_hmac_stream {a} {hexs(key)} " + " ".join(hexs(x) for x in parts), canon(r))
    B.flush()

    s = ck.stream("crc_resume", "CRC continuation as the code offers it (crc_obj.initial_value = crc_so_far; crc_obj.calculate(rest), the MBI CRC mixin's "
                  "pattern): 2..5 pieces, empty pieces included, all three algorithms - oracle: equals the independent CRC of the concatenation "
                  "(theorem crc_resume / crc_pieces); burst oracle: an error pattern confined to <= width consecutive bits at ANY bit offset changes "
                  "the CRC (theorem crc_burst_width)")
    rev8 = [int(f"{i:08b}"[::-1], 2) for i in range(256)]
    for name in names:
        if name not in indep:
            continue
        alg = getattr(CrcAlg, name)
        width = 16 if name == "CRC16_XMODEM" else 32
        for _ in range(ck.budget(60, 800)):
            pieces = [rb(rng.choice([0, 1, 2, 3, 4, 5, 8, 16, 33, rng.randrange(0, 300)])) for _k in range(rng.randrange(2, 6))]

            def runp():
                o = from_crc_algorithm(alg)
                c = o.calculate(pieces[0])
                mids = [c]
                for pc in pieces[1:]:
                    o.initial_value = c
                    c = o.calculate(pc)
                    mids.append(c)
                return mids
            r = pyres(runp)
            inp = ("crc-pieces", name, [x.hex() for x in pieces])
            s.note(inp, nontrivial=sum(map(len, pieces)) > 0, cls=name + " resume")
            want = [indep[name](b"".join(pieces[:i + 1])) for i in range(len(pieces))]
            s.expect(r == ("ok", want), inp, f"{name}: resuming through initial_value differs from the CRC of the concatenation", r, want)
            B.corr(s, inp, f"w_crc_pieces {name} " + " ".join(hexs(x) for x in pieces), ("ok:%d" % r[1][-1]) if r[0] == "ok" else r[0])
            if r[0] == "ok":
                B.corr(s, inp + ("last",), f"w_crc_resume {name} {r[1][-2]} {hexs(pieces[-1])}", "ok:%d" % r[1][-1])
        calc = from_crc_algorithm(alg).calculate
        for _ in range(ck.budget(150, 3000)):
            n = rng.choice([2, 3, 4, 5, 8, 9, 31, rng.randrange(2, 120)])
            m = rb(n)
            blen = rng.randrange(1, min(width, 8 * n) + 1)          # window length in bits
            bpat = (1 << (blen - 1)) | rng.getrandbits(blen - 1) | (1 if rng.random() < 0.7 else 0) if blen > 1 else 1
            j = rng.randrange(0, 8 * n - blen + 1)
            e = (bpat << j).to_bytes(n, "big")
            if name == "CRC32":                                     # reflected: the window is in transmission order (each byte LSB first)
                e = bytes(rev8[x] for x in e)
            m2 = bytes(x ^ y for x, y in zip(m, e))
            r1, r2 = pyres(calc, m), pyres(calc, m2)
            s.note(("crc-burst-w", name, n, blen, j), cls=name + (" burst across bytes" if (j % 8) + blen > 8 else " burst in a byte"))
            s.expect(r1[0] == "ok" and r2[0] == "ok" and r1 != r2, ("crc-burst-w", name, m, m2), f"{name}: an error burst of {blen} <= {width} bits is not detected", (r1, r2))
    B.flush()

    s = ck.stream("ctr_position", "the SB2 pattern `out += aes_ctr_encrypt(key, chunk, counter.value); counter.increment(len(chunk)//16)`: keys 16/24/32, "
                  "both counter byte orders, start words {0,1,2^32-4..2^32-1,random}, 0..5 block-aligned chunks (+ a ragged last one); correspondence with the "
                  "model's ctrChunks; oracle (independent): chunk i is AES-CTR under nonce[:12] | (start + blocks before it) mod 2^32 (raw cryptography), "
                  "and - big-endian, no 32-bit overflow before the last chunk - the whole equals ONE aes_ctr_encrypt call (theorem counter_positions_ctr)")
    nover = 0
    for _ in range(ck.budget(160, 2500)):
        key = rb(rng.choice([16, 24, 32]))
        order = BE if rng.random() < 0.7 else LE
        st = rng.choice([0, 1, M32 - 4, M32 - 3, M32 - 2, M32 - 1, rng.getrandbits(32)])
        cv = rng.choice([None, None, 0, 1, 3, rng.getrandbits(8)])
        nonce = rb(12) + st.to_bytes(4, order.value)
        chunks = [rb(16 * rng.choice([0, 1, 1, 2, 3, 5])) for _k in range(rng.randrange(0, 6))]
        if rng.random() < 0.3:
            chunks.append(rb(rng.randrange(1, 40)))

        def runctr():
            cn = S.Counter(nonce, cv, order)
            out = []
            for ch in chunks:
                out.append(S.aes_ctr_encrypt(key, ch, cn.value))
                cn.increment(len(ch) // 16)
            return out
        r = pyres(runctr)
        inp = ("ctr-chunks", key, nonce, cv, order.value, [x.hex() for x in chunks])
        pos, want, overflow = st + (cv or 0), [], False
        for i, ch in enumerate(chunks):
            overflow = overflow or pos >= M32
            want.append(raw_cipher(algorithms.AES(key), modes.CTR(nonce[:12] + (pos % M32).to_bytes(4, order.value)), False, ch))
            pos += len(ch) // 16
        nover += overflow
        s.note(inp, nontrivial=len(chunks) > 1, cls=("BE" if order == BE else "LE") + (" overflow" if overflow else " plain"))
        s.expect(r == ("ok", want), inp, "chunk-wise AES-CTR positioned by Counter: some chunk is not encrypted under nonce[:12] | (start + blocks before it) mod 2^32",
                 r if r[0] != "ok" else [x.hex() for x in r[1]], [x.hex() for x in want])
        if order == BE and not overflow and r[0] == "ok":
            one = pyres(S.aes_ctr_encrypt, key, b"".join(chunks), nonce[:12] + ((st + (cv or 0)) % M32).to_bytes(4, "big"))
            s.expect(one == ("ok", b"".join(r[1])), inp + ("one-call",), "chunk-wise AES-CTR with Counter.increment(len//16) differs from one call on the concatenation", one)
        B.corr(s, inp, f"w_ctr_chunks {hexs(key)} {hexs(nonce)} {'none' if cv is None else cv} {int(order == LE)} " + " ".join(hexs(x) for x in chunks),
               ("ok:" + b"".join(r[1]).hex()) if r[0] == "ok" else r[0])
    B.flush()
    ck.extra["ctr_overflow_cases"] = nover


def replay(ck, data):
    """All C09 domains are deterministic for a given seed and cheap: re-run the sweep of the recorded tier."""
    run(ck)
