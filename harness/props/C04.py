"""C04 - Secure Binary 2.0 / 2.1: the ROM decodes exactly the command list that was given.

Obligations   : Properties/C04.lean (command / section / image round trips through the independent ROM model,
                counter agreement, header describes the file, signed range, Generated = Spec constants).
Correspondence: SPSDK `export()` bytes vs the Lean builder model (commands, sections, V2.1 and V2.0 images; the
                signature bytes are taken from SPSDK's output), `parse_command` vs the Lean parser model on
                exported, mutated and random bytes.
Oracle        : the compiled Lean ROM model (`romV21` / `romV20`) run on the bytes SPSDK produced must accept and
                return exactly the content given to the builder (computed here independently, in Python, and also
                by the Lean specification `expected21/20`); the signature obligation it emits is discharged with
                `cryptography` directly; SPSDK's own `parse` must return the same content; a wrong KEK and sampled
                single-bit flips must give an error or unchanged content - in the ROM model and in SPSDK's parser.
"""
from __future__ import annotations

import hashlib
import os
import struct
import time
from datetime import datetime

from vcore import Infra, canon, hexs, pyres

EPOCH2000 = 946684800
LOAD_PADDED = True   # set in run() from the REAL code: CmdLoad.export() writes the padded length into the header's byte count
WRAP_OK = False   # set in run(): spsdk.crypto.symmetric.Counter wraps at 2^32 instead of raising OverflowError (C09)
EXT_MEM_IDS = [1, 4, 8, 9, 10, 11, 16]
DATA = os.environ.get("SPSDK_REPO", "/repo") + "/tests"


# ---------------------------------------------------------------------------------------------- command specs
def load_data(n, seed):
    return hashlib.shake_256(f"C04/{seed}".encode()).digest(n) if n else b""


def gen_cmd(rng, big=False):
    """A well-formed command spec (JSON-able list); all 13 kinds, boundary values favoured."""
    a32 = lambda: rng.choice([0, 1, 0x10, 0xFFFFFFFF, 0xFFFFFFF0, 0x80000000, rng.getrandbits(32), rng.getrandbits(16)])  # noqa: E731
    mem = lambda: rng.choice([0, 0, 1, 4, 8, 9, 0x10, 0xFF, 0x100, 0x101, 0x110, 0x120, 0xF00, 0xFFF, rng.randrange(0x1000)])  # noqa: E731
    k = rng.choice(["N", "T", "L", "L", "L", "F", "F", "J", "C", "E", "R", "M", "P", "V", "KT", "KF"])
    if k in ("N", "R"):
        return [k]
    if k == "T":
        return ["T", 0, 0, 0, 0]
    if k == "L":
        n = rng.choice([0, 1, 15, 16, 17, 31, 32, 33, 47, 48, 64, 70, rng.randrange(0, 71), rng.randrange(0, 71)])
        if big and rng.random() < 0.25:
            n = rng.choice([255, 256, 257, 1024, 4095, 4096, rng.randrange(71, 4097)])
        return ["L", a32(), mem(), rng.choice([0, 0, 0, 0, 1, 0x0F, 0x1000, 0xFFFF]), n, rng.randrange(1 << 30)]
    if k == "F":
        pat = rng.choice([0, 1, 0x5A, 0xFF, 0x100, 0x1234, 0xFFFF, 0x10000, 0x123456, 0xFFFFFF, 0x1000000, 0x12345678, 0xFFFFFFFF,
                          rng.getrandbits(8), rng.getrandbits(16), rng.getrandbits(32)])
        return ["F", a32(), pat, rng.choice([0, 4, 4, 8, 12, 0x100, 0xFFFFFFFC, 4 * rng.randrange(1 << 20)])]
    if k == "J":
        return ["J", a32(), a32(), rng.choice([None, None, 0, 1, 0x20008000, 0xFFFFFFFF, rng.getrandbits(32)])]
    if k == "C":
        return ["C", a32(), a32()]
    if k == "E":
        return ["E", a32(), rng.choice([0, 1, 0x1000, 0xFFFFFFFF, rng.getrandbits(32)]), rng.choice([0, 0, 1, 2, 0x0F, 0x1234, 0xFFFF, rng.getrandbits(16)]), mem()]
    if k == "M":
        return ["M", a32(), rng.choice([0, 4, 0xFFFFFFFF, rng.getrandbits(32)]), mem()]
    if k == "P":
        return ["P", a32(), rng.choice([0, 1, 4, 0xFF, rng.randrange(256)]), a32(), rng.choice([0, 0, 1, 0xFFFFFFFF, rng.getrandbits(32)]),
                rng.choice([0, 0, 1, 2, 0xFF, 0x1234, 0xFFFF, rng.getrandbits(16)])]
    if k == "V":
        return ["V", rng.choice([0, 1]), rng.choice([0, 1, 0x16, 0xFFFFFFFF, rng.getrandbits(32)])]
    return [k, a32(), rng.choice(EXT_MEM_IDS)]


def gen_bad_cmd(rng):
    """Constructor arguments outside the accepted domain (errors must agree with the model)."""
    k = rng.choice(["L", "F", "F", "F", "J", "C", "E", "P", "P", "V", "KT", "KF", "E2", "M2", "J2"])
    big = rng.choice([0x100000000, 0x100000001, 1 << 40])
    if k == "L":
        return ["L", big, 0, 0, 5, 1]
    if k == "F":
        return rng.choice([["F", 0, 0x100000000, 4], ["F", 0, 1 << 40, 8], ["F", 0, 1, 5], ["F", 0, 1, 2], ["F", big, 1, 4], ["F", 0, 0x1FFFFFFFF, 6]])
    if k == "J":
        return ["J", big, 0, None]
    if k == "C":
        return ["C", big, 0]
    if k == "E":
        return ["E", big, 0, 0, 0]
    if k == "P":
        return rng.choice([["P", 0, 256, 0, 0, 0], ["P", big, 1, 0, 0, 0], ["P", 0, 1, big, 0, 0], ["P", 0, 1, 0, big, 0], ["P", 0, 1000, big, 0, 0]])
    if k == "V":
        return ["V", rng.choice([2, 3, 255]), 1]
    if k in ("KT", "KF"):
        return rng.choice([[k, big, 1], [k, 0, 256], [k, 0, 257], [k, 0, 288]])
    if k == "E2":   # fits the constructor, not the struct field
        return rng.choice([["E", 0, big, 0, 0], ["E", 0, 0, 0x10000, 0], ["E", 0, 0, 0x12345, 1]])
    if k == "M2":
        return rng.choice([["M", big, 0, 0], ["M", 0, big, 1]])
    return rng.choice([["J", 0, big, None], ["J", 0, 0, big], ["C", 0, big]])


def cmd_tokens(sp):
    k = sp[0]
    if k == "L":
        return f"L {sp[1]} {sp[2]} {sp[3]} {hexs(load_data(sp[4], sp[5]))}"
    if k == "J":
        return f"J {sp[1]} {sp[2]} {'-' if sp[3] is None else sp[3]}"
    return " ".join(str(x) for x in sp)


def make_cmd(sp, zero=True):
    """SPSDK command object for a spec (may raise); zero=False: SPSDK's default random padding."""
    from spsdk.mboot.memories import ExtMemId
    from spsdk.sbfile.sb2 import commands as C

    k = sp[0]
    if k == "N":
        return C.CmdNop()
    if k == "T":
        return C.CmdTag()
    if k == "L":
        cmd = C.CmdLoad(sp[1], load_data(sp[4], sp[5]), sp[2], zero_filling=zero)
        if sp[3]:
            cmd.flags = cmd.flags | sp[3]      # public setter
        return cmd
    if k == "F":
        return C.CmdFill(sp[1], sp[2], sp[3], zero_filling=zero)
    if k == "J":
        return C.CmdJump(sp[1], sp[2], sp[3])
    if k == "C":
        return C.CmdCall(sp[1], sp[2])
    if k == "E":
        return C.CmdErase(sp[1], sp[2], sp[3], sp[4])
    if k == "R":
        return C.CmdReset()
    if k == "M":
        return C.CmdMemEnable(sp[1], sp[2], sp[3])
    if k == "P":
        return C.CmdProg(sp[1], sp[2], sp[3], sp[4], sp[5])
    if k == "V":
        return C.CmdVersionCheck(C.VersionCheckType.from_tag(sp[1]), sp[2])
    if k == "KT":
        return C.CmdKeyStoreRestore(sp[1], _ext_mem(sp[2]))
    if k == "KF":
        return C.CmdKeyStoreBackup(sp[1], _ext_mem(sp[2]))
    raise ValueError(k)


class _Ctl:
    """controller id outside ExtMemId (the constructor only reads `.tag`)"""

    def __init__(self, tag):
        self.tag = tag


def _ext_mem(tag):
    from spsdk.mboot.memories import ExtMemId
    try:
        return ExtMemId.from_tag(tag)
    except Exception:  # noqa: BLE001
        return _Ctl(tag)


def pad16(b):
    return b + bytes((16 - len(b) % 16) % 16)


def mem_bits(m):
    return (m % 256) * 256 + (m // 256 % 16) * 16


def fill_pattern(p):
    return p * 0x01010101 if p < 256 else p * 0x10001 if p < 65536 else p


def exp_view(sp, exact=None):
    """What the loader must do for a command given to the builder (independent arithmetic; twin of Spec.view).

    LOAD: `exact` = exactly the given bytes; otherwise the data zero-padded to 16 (open finding C04-load-count-padded).
    The default follows what the REAL code writes into the byte count (LOAD_PADDED, measured in run()), never the model."""
    if exact is None:
        exact = not LOAD_PADDED
    k = sp[0]
    if k == "N":
        return "nop"
    if k == "R":
        return "reset"
    if k == "T":
        return f"tag({sp[1]},{sp[2]},{sp[3]},{sp[4]})"
    if k == "L":
        d = load_data(sp[4], sp[5])
        return f"load({sp[1]},{sp[3] | mem_bits(sp[2])},{hexs(d if exact else pad16(d))})"
    if k == "F":
        return f"fill({sp[1]},{fill_pattern(sp[2])},{sp[3] or 4})"
    if k == "J":
        return f"jump({sp[1]},{sp[2]},{'-' if sp[3] is None else sp[3]})"
    if k == "C":
        return f"call({sp[1]},{sp[2]})"
    if k == "E":
        return f"erase({sp[1]},{sp[2]},{sp[3] | mem_bits(sp[4])})"
    if k == "M":
        return f"memEnable({sp[1]},{sp[2]},{mem_bits(sp[3])})"
    if k == "P":
        return f"prog({sp[1]},{sp[3]},{sp[4]},{(sp[5] | (1 if sp[4] else 0)) % 256 + sp[2] * 256})"
    if k == "V":
        return f"fwVersionCheck({sp[1]},{sp[2]})"
    if k == "KT":
        return f"keystoreToNv({sp[1]},{sp[2] * 256})"
    if k == "KF":
        return f"keystoreFromNv({sp[1]},{sp[2] * 256})"
    raise ValueError(k)


def obj_view(cmd):
    """The same notation, read from an SPSDK command object through its public attributes."""
    from spsdk.sbfile.sb2 import commands as C

    if isinstance(cmd, C.CmdNop):
        return "nop"
    if isinstance(cmd, C.CmdReset):
        return "reset"
    if isinstance(cmd, C.CmdTag):
        h = cmd.header
        return f"tag({h.flags},{h.address},{h.count},{h.data})"
    if isinstance(cmd, C.CmdLoad):
        return f"load({cmd.address},{cmd.flags},{hexs(cmd.data)})"
    if isinstance(cmd, C.CmdFill):
        return f"fill({cmd.address},{int.from_bytes(cmd.pattern, 'big')},{cmd.header.count})"
    if isinstance(cmd, C.CmdJump):
        return f"jump({cmd.address},{cmd.argument},{'-' if cmd.spreg is None else cmd.spreg})"
    if isinstance(cmd, C.CmdCall):
        return f"call({cmd.address},{cmd.argument})"
    if isinstance(cmd, C.CmdErase):
        return f"erase({cmd.address},{cmd.length},{cmd.flags})"
    if isinstance(cmd, C.CmdMemEnable):
        return f"memEnable({cmd.address},{cmd.size},{cmd.flags})"
    if isinstance(cmd, C.CmdProg):
        return f"prog({cmd.address},{cmd.data_word1},{cmd.data_word2},{cmd.flags})"
    if isinstance(cmd, C.CmdVersionCheck):
        return f"fwVersionCheck({cmd.type.tag},{cmd.version})"
    if isinstance(cmd, C.CmdKeyStoreRestore):
        return f"keystoreToNv({cmd.address},{cmd.controller_id * 256})"
    if isinstance(cmd, C.CmdKeyStoreBackup):
        return f"keystoreFromNv({cmd.address},{cmd.controller_id * 256})"
    return "unknown:" + type(cmd).__name__


def obj_obs(cmd):
    """header fields + payload + raw size of a command object (compared with the Lean `decodeCmd` model)"""
    h = cmd.header
    payload = cmd.data if type(cmd).__name__ == "CmdLoad" else b""
    return f"{cmd.raw_size};{h.tag};{h.flags};{h.address};{h.count};{h.data};{hexs(payload)}"


def cmd_len(sp):
    return 16 + ((sp[4] + 15) // 16 * 16 if sp[0] == "L" else 0)


def unaligned_load(sp):
    return sp[0] == "L" and sp[4] % 16 != 0


# ---------------------------------------------------------------------------------------------- sections / images
def gen_section(rng, uid, big):
    n = rng.choice([1, 1, 2, 3, 5, 8, 12, rng.randrange(1, 13)])
    cmds = [gen_cmd(rng, big) for _ in range(n)]
    return {"uid": uid, "hmac": rng.choice([1, 1, 2, 3, 4, 5, 0]), "cmds": cmds}


def mac_count(sec):
    return min(max(sec["hmac"], 1), sum(cmd_len(c) for c in sec["cmds"]) // 16)


def section_len(sec):
    return 48 + 32 * mac_count(sec) + sum(cmd_len(c) for c in sec["cmds"])


def bcd(rng):
    return rng.choice([0, 1, 9, 0x10, 0x99, 0x123, 0x999, 0x1000, 0x9999, int(str(rng.randrange(10000)), 16)])


def gen_image(rng, version, big, chains):
    nsec = rng.choice([1, 1, 2, 3, 4])
    uids = rng.sample(list(dict.fromkeys([0, 1, 2, 7, 0xFFFFFFFF, rng.getrandbits(32), rng.getrandbits(16), rng.getrandbits(32)])), nsec)
    if version == 21 and rng.random() < 0.3:
        uids = [uids[0]] * nsec       # V2.1 accepts equal section ids
    fixed = rng.random() < 0.5
    nonce = bytearray(bytes(16) if fixed and rng.random() < 0.3 else rng.randbytes(16))
    if rng.random() < 0.3:            # counter close to the 32-bit wrap
        nonce[12:16] = (0xFFFFFFFF - rng.randrange(4000, 6000)).to_bytes(4, "little")
    elif WRAP_OK and rng.random() < 0.15:   # the counter wraps inside the file
        nonce[12:16] = (0xFFFFFFFF - rng.randrange(0, 120)).to_bytes(4, "little")
    elif int.from_bytes(nonce[12:16], "little") > 0xFFFF0000:
        nonce[15] &= 0x7F
    case = {
        "version": version,
        "signed": True if version == 21 else rng.random() < 0.6,
        "chain": rng.randrange(len(chains)),
        "kek": (bytes(range(32)) if fixed else rng.randbytes(32)).hex(),
        "dek": (b"\xa0" * 32 if fixed else rng.randbytes(32)).hex(),
        "mac": (b"\x0b" * 32 if fixed else rng.randbytes(32)).hex(),
        "nonce": bytes(nonce).hex(),
        "ts": EPOCH2000 + rng.choice([0, 1, 633830400, 0xFFFFFFFF, rng.randrange(1 << 32), rng.randrange(1 << 31)]),
        "pv": [bcd(rng), bcd(rng), bcd(rng)],
        "cv": [bcd(rng), bcd(rng), bcd(rng)],
        "bn": rng.choice([0, 1, 0xFFFFFFFF, rng.getrandbits(32), rng.getrandbits(8)]),
        "flags": rng.choice([0x8, 0x8008, 0x8, 0x8008, 0xC, 0x800A, 0x9, 0xFFFF, 0x7FFF, 0x8 | rng.getrandbits(16)]) if version == 21 else 0,
        "sections": [gen_section(rng, u, big) for u in uids],
    }
    if rng.random() < 0.25:
        case["cv"] = list(case["pv"])
    # keep the 32-bit block counter from wrapping inside the file (assumption recorded in run())
    blocks = (208 + 4096 + sum(section_len(x) for x in case["sections"])) // 16
    ctr0 = int.from_bytes(nonce[12:16], "little")
    if ctr0 + blocks >= 1 << 32 and not WRAP_OK:
        nonce[12:16] = ((1 << 32) - 1 - blocks - rng.randrange(64)).to_bytes(4, "little")
        case["nonce"] = bytes(nonce).hex()
    return case


def ver_str(v):
    return ".".join(f"{x:X}" for x in v)


class Chain:
    """one certificate chain + signing key, loaded once per run"""

    def __init__(self, certs, key, roots=None):
        from spsdk.crypto.certificate import Certificate
        from spsdk.crypto.signature_provider import get_signature_provider

        self.certs = [Certificate.load(p) for p in certs]
        self.roots = [Certificate.load(p) for p in (roots or certs[:1])]
        self.sp = get_signature_provider(local_file_key=key)
        self.key_path = key
        self.cert_paths = list(certs)
        self.root_paths = list(roots or certs[:1])
        self.name = os.path.basename(certs[-1])

    def cert_block(self):
        from spsdk.utils.crypto.cert_blocks import CertBlockV1

        cb = CertBlockV1()
        for i, r in enumerate(self.roots):
            cb.set_root_key_hash(i, r)
        for c in self.certs:
            cb.add_certificate(c)
        return cb


def build_image(case, chains, zero=True):
    """SPSDK image object for a case (not yet exported); zero=False: random load/header padding (SPSDK's default)."""
    from spsdk.sbfile.sb2.images import BootImageV20, BootImageV21, BootSectionV2, SBV2xAdvancedParams

    adv = SBV2xAdvancedParams(dek=bytes.fromhex(case["dek"]), mac=bytes.fromhex(case["mac"]), nonce=bytes.fromhex(case["nonce"]),
                              timestamp=datetime.fromtimestamp(case["ts"]), padding=bytes(8) if zero else None)
    secs = [BootSectionV2(s["uid"], *[make_cmd(c, zero) for c in s["cmds"]], hmac_count=s["hmac"], zero_filling=zero) for s in case["sections"]]
    kw = dict(product_version=ver_str(case["pv"]), component_version=ver_str(case["cv"]), build_number=case["bn"], advanced_params=adv)
    if case["version"] == 21:
        img = BootImageV21(bytes.fromhex(case["kek"]), *secs, flags=case["flags"], **kw)
    else:
        img = BootImageV20(case["signed"], bytes.fromhex(case["kek"]), *secs, **kw)
    if case["signed"]:
        ch = chains[case["chain"]]
        img.cert_block = ch.cert_block()
        img.signature_provider = ch.sp
    return img


def rom_shape_ok(ans, image):
    """a driver answer of the ROM ops that has the expected shape (anything else = broken driver, a disagreement)"""
    if not isinstance(ans, str):
        return False
    if ans.startswith("E:rom:"):
        return True
    if not ans.startswith("ok:"):
        return False
    if not image:
        return ";" in ans
    head, sep, _ = ans[3:].partition(";sections=")
    keys = [kv.split("=", 1)[0] for kv in head.split(";") if "=" in kv]
    return bool(sep) and keys == ["ver", "flags", "ib", "fbtb", "fbsid", "offc", "hb", "kbb", "kbc", "mmc", "ts", "pv", "cv", "bn",
                                  "nonce", "dek", "mac", "signed", "sig", "cert"]


def exp_sections(case, exact=None):
    return "|".join(f"{s['uid']}:{0x8001}:{mac_count(s)}:[" + ",".join(exp_view(c, exact) for c in s["cmds"]) + "]" for s in case["sections"])


def exp_content(case, cert, sig):
    """The content the ROM must report (twin of Spec.expected21 / expected20), from the builder's inputs only."""
    secs_len = sum(section_len(s) for s in case["sections"])
    if case["version"] == 21:
        sha = 32 if case["flags"] & 0x8000 else 0
        signed_len = 208 + len(cert) + sha
        fbtb = (signed_len + len(sig)) // 16
        ib = (signed_len + len(sig) + secs_len) // 16
        flags, offc, mmc, minor = case["flags"], 208, sum(mac_count(s) for s in case["sections"]), 1
    else:
        cs = 80 + len(cert) if case["signed"] else 0
        fbtb = (208 + cs) // 16
        ib = (208 + cs + secs_len) // 16
        signed_len = 208 + cs + secs_len
        flags, offc, minor = (8, 288, 0) if case["signed"] else (4, 0, 0)
        mmc = (1 if case["signed"] else 0) + sum(mac_count(s) for s in case["sections"])
    pv, cv = case["pv"], case["cv"]
    return (f"ver=2.{minor};flags={flags};ib={ib};fbtb={fbtb};fbsid={case['sections'][0]['uid']};offc={offc};hb=6;kbb=8;kbc=5;mmc={mmc};"
            f"ts={(case['ts'] - EPOCH2000) * 1000000};pv={pv[0]}.{pv[1]}.{pv[2]};cv={cv[0]}.{cv[1]}.{cv[2]};bn={case['bn']};"
            f"nonce={case['nonce']};dek={case['dek']};mac={case['mac']};signed={signed_len};sig={hexs(sig)};cert={hexs(cert)};"
            f"sections=")


def cfg_tokens(case, cert, sig):
    t = [case["kek"], case["dek"], case["mac"], case["nonce"], "00" * 8, str((case["ts"] - EPOCH2000) * 1000000)]
    t += [str(x) for x in case["pv"]] + [str(x) for x in case["cv"]] + [str(case["bn"]), str(case["flags"]), hexs(cert), hexs(sig), str(len(case["sections"]))]
    for s in case["sections"]:
        t += [str(s["uid"]), str(s["hmac"]), str(len(s["cmds"]))] + [cmd_tokens(c) for c in s["cmds"]]
    return " ".join(t)


def parsed_view(img):
    """What SPSDK's parser recovered, in the notation of the expected content (fields the parser keeps)."""
    h = img.header
    secs = "|".join(f"{s.uid}:{s.hmac_count}:[" + ",".join(obj_view(c) for c in s) + "]" for s in img)
    return (f"ver={h.version};flags={h.flags};pv={h.product_version};cv={h.component_version};bn={h.build_number};"
            f"ts={int(h.timestamp.timestamp())};nonce={h.nonce.hex()};dek={img.dek.hex()};mac={img.mac.hex()};sections={secs}")


def exp_parsed_view(case):
    secs = "|".join(f"{s['uid']}:{mac_count(s)}:[" + ",".join(exp_view(c) for c in s["cmds"]) + "]" for s in case["sections"])
    flags = case["flags"] if case["version"] == 21 else (8 if case["signed"] else 4)
    return (f"ver=2.{1 if case['version'] == 21 else 0};flags={flags};pv={ver_str(case['pv'])};cv={ver_str(case['cv'])};bn={case['bn']};"
            f"ts={case['ts']};nonce={case['nonce']};dek={case['dek']};mac={case['mac']};sections={secs}")


def rom_fields(line):
    """'ok:k=v;...;sections=…' -> dict (sections last, may contain ';'-free text only)"""
    body = line[3:]
    head, _, secs = body.partition(";sections=")
    d = dict(kv.split("=", 1) for kv in head.split(";"))
    d["sections"] = secs
    return d


def verify_obligation(file, fields):
    """Discharge the ROM model's signature obligation with `cryptography` directly (RSA PKCS#1 v1.5 / SHA-256,
    key of the last certificate of the certificate block).  Returns True / False."""
    from cryptography import x509
    from cryptography.hazmat.primitives import hashes
    from cryptography.hazmat.primitives.asymmetric import padding

    cert = bytes.fromhex(fields["cert"]) if fields["cert"] != "-" else b""
    sig = bytes.fromhex(fields["sig"]) if fields["sig"] != "-" else b""
    n = int(fields["signed"])
    if not cert:
        return None
    try:
        _sig, _maj, _min, hlen, _fl, _bn, _il, count, _ctl = struct.unpack_from("<4s2H6I", cert)
        off, der = hlen, None
        for _ in range(count):
            (ln,) = struct.unpack_from("<I", cert, off)
            der = cert[off + 4: off + 4 + ln]
            off += 4 + ln
        # the table entry is the DER certificate zero-padded to a multiple of 4: cut at the DER length
        if der[1] & 0x80:
            nl = der[1] & 0x7F
            der = der[: 2 + nl + int.from_bytes(der[2: 2 + nl], "big")]
        else:
            der = der[: 2 + der[1]]
        key = x509.load_der_x509_certificate(der).public_key()
        key.verify(sig, file[:n], padding.PKCS1v15(), hashes.SHA256())
        return True
    except Exception:  # noqa: BLE001  (InvalidSignature, malformed DER / certificate block after tampering, ...)
        return False


# ---------------------------------------------------------------------------------------------- the check
def run(ck, only_cases=None):
    os.environ["TZ"] = "UTC"
    time.tzset()
    import warnings
    warnings.filterwarnings("ignore", message=".*negative serial number.*")   # a test certificate of /repo; irrelevant here
    warnings.filterwarnings("ignore", message=".*Attribute's length must be.*")  # another test certificate (RSA-3072)
    from spsdk.crypto.symmetric import Counter
    from spsdk.sbfile.sb2 import commands as C
    from spsdk.sbfile.sb2.headers import ImageHeaderV2
    from spsdk.sbfile.sb2.images import BootImageV20, BootImageV21, BootSectionV2

    ck.lean_obligations(generated=["Sb2Consts"])
    drv = ck.driver()
    rng = ck.rng
    # driver ops that evaluate Spec-only definitions (lean/SpsdkVerif/Spec/Sb2Rom.lean + Crypto/*: no import of Generated/ or of the
    # hand model of the code) - the only driver answers that oracle expectations (`expect`) may rely on
    ck.spec_ops = {"rom_cmd", "rom21", "rom20"}
    global WRAP_OK, LOAD_PADDED
    WRAP_OK = pyres(lambda: Counter(b"\xff" * 16, 5).value)[0] == "ok"
    ck.extra["counter_wraps"] = WRAP_OK
    probe = pyres(lambda: C.CmdLoad(0, b"12345", zero_filling=True).export())
    LOAD_PADDED = not (probe[0] == "ok" and int.from_bytes(probe[1][8:12], "little") == 5)
    ck.extra["load_count_is_padded_length"] = LOAD_PADDED
    ck.assume(
        "AES-256, SHA-256, HMAC, RFC 3394 key wrap and CRC-32/MPEG-2 of `cryptography`/`crcmod` equal the executable Lean "
        "references (validated by the C09 check; here implicitly by byte equality of whole files)",
        "RSA PKCS#1 v1.5 signing/verification is `cryptography`'s; the ROM model only delimits (range, signature, certificate "
        "block) and the harness verifies that obligation with `cryptography` directly - not through spsdk.crypto",
        "certificate block bytes are opaque to the model (C03 owns their structure); the ROM model reads only marker, header "
        "length and certificate-table length to find the block's end",
        "commands are built with zero_filling=True and images with zero header padding so that bytes are comparable; the random "
        "padding variants differ only in those padding bytes (sampled by the oracle through the ROM model)",
        "the 32-bit AES-CTR block counter wraps modulo 2^32 (model and ROM model); files in which it wraps are generated only "
        "when spsdk.crypto.symmetric.Counter supports the wrap (C09's subject; before its fix Counter raised OverflowError)",
        "Python struct.pack/unpack, bytes slicing and int.to_bytes behave as documented")
    gen = ck.generated_meta.get("Sb2Consts", {})
    # generated constants vs live objects (a disagreement = extractor trouble, not a verdict)
    live = {"cmdHeaderFmt": C.CmdHeader.SIZE, "imageHeaderFmt": ImageHeaderV2.SIZE}
    for k, v in live.items():
        if gen.get(k, {}).get("size") != v:
            raise Infra(f"extractor disagrees with the live object: {k} size {gen.get(k)} vs {v}")
    if dict((a, b) for a, b in gen.get("cmdTags", [])) != {m.label: m.tag for m in C.EnumCmdTag}:
        raise Infra("extractor disagrees with live EnumCmdTag")

    def ask(lines):
        return drv.batch(lines) if drv is not None else [None] * len(lines)

    # ================================================================== 1. commands
    s = ck.stream("commands", "generated command specs over all 13 kinds (boundary addresses/lengths/patterns/mem ids, load lengths "
                  "0..70 + sampled to 4 KiB) plus out-of-domain constructor arguments; real export vs model; ROM model and "
                  "parse_command on the real bytes vs the given command; non-trivial = distinct spec")
    n_cmd = ck.budget(2000, 30000)
    specs = [gen_cmd(rng, big=(i % 5 == 0)) for i in range(n_cmd)] + [gen_bad_cmd(rng) for _ in range(n_cmd // 6)]
    reals, lines = [], []
    for sp in specs:
        r = pyres(lambda: make_cmd(sp).export())
        reals.append(r)
        lines.append("cmd_exp " + cmd_tokens(sp))
    answers = ask(lines)
    rom_lines, rom_idx = [], []
    for i, (sp, r, ans) in enumerate(zip(specs, reals, answers)):
        s.note(sp, cls=sp[0] + (":ok" if r[0] == "ok" else ":" + r[0]))
        if ans is not None:
            # the property names no exception classes: any refusal is "E" on both sides
            s.compare(sp, _err(canon(r)), _err(ans), "exported command bytes / accepted-or-refused")
        if r[0] == "ok":
            tail = rng.randbytes(rng.choice([0, 0, 16, 5]))
            rom_lines.append("rom_cmd " + hexs(r[1] + tail))
            rom_idx.append(i)
            s.expect(len(r[1]) == cmd_len(sp), sp, "exported command length is not 16 (+ padded load data)", len(r[1]), cmd_len(sp))
            # (iii) SPSDK's own parser
            p = pyres(lambda: C.parse_command(r[1] + tail))
            okp = p[0] == "ok" and obj_view(p[1]) == exp_view(sp) and p[1].raw_size == len(r[1])
            s.expect(okp, sp, "parse_command(export(cmd)) does not give back the command", obj_view(p[1]) if p[0] == "ok" else p, exp_view(sp))
    # the open finding is read off the REAL bytes (byte count field of the exported LOAD header), not off any model
    for sp, r in zip(specs, reals):
        if r[0] == "ok" and unaligned_load(sp):
            cnt, padded = int.from_bytes(r[1][8:12], "little"), (sp[4] + 15) // 16 * 16
            if cnt == padded and r[1][16:] == pad16(load_data(sp[4], sp[5])):
                s.expect(False, ["load-count", sp[4]], "LOAD byte count in the file is the padded length: the loader writes the padding too",
                         f"count={cnt}", f"count={sp[4]}", finding="C04-load-count-padded")
            else:
                s.expect(cnt == sp[4], sp, "LOAD byte count is neither the data length nor the padded length (or the padding is not zero)", cnt, sp[4])
    for i, ans in zip(rom_idx, ask(rom_lines)):
        if ans is None:
            break
        sp, r = specs[i], reals[i]
        if not rom_shape_ok(ans, image=False):
            s.compare(sp, "well-formed answer of the ROM model", str(ans)[:60], "driver answer")
            continue
        want = f"ok:{len(r[1])};{exp_view(sp)}"
        s.expect(ans == want, sp, "ROM model does not decode the exported command to the given command", ans, want)

    # ================================================================== 2. parse_command on arbitrary bytes
    s = ck.stream("cmd_parse", "parse_command vs the Lean parser model on exported commands with field/checksum/CRC mutations, truncations "
                  "and random 16..48-byte blocks with a valid checksum; non-trivial = distinct byte string")
    blobs = []
    okbytes = [r[1] for r in reals if r[0] == "ok"]
    for b in okbytes[: ck.budget(600, 8000)]:
        blobs.append(b)
        m = bytearray(b)
        pos = rng.randrange(len(m))
        m[pos] ^= 1 << rng.randrange(8)
        blobs.append(bytes(m))
        if rng.random() < 0.3:
            blobs.append(b[: rng.randrange(0, len(b))])
    for _ in range(ck.budget(1000, 15000)):
        tag = rng.choice([0, 1, 2, 3, 4, 5, 6, 7, 8, 9, 10, 11, 12, 13, 14, 255])
        flags = rng.choice([0, 1, 2, 0x100, 0x400, 0x1000, 0x0910, 0xFFFF, rng.getrandbits(16)])
        addr = rng.choice([0, 1, 2, rng.getrandbits(32)])
        count = rng.choice([0, 3, 4, 5, 16, 17, 32, rng.getrandbits(32)])
        body = rng.randbytes(rng.choice([0, 16, 32]))
        data = rng.choice([0, 0xFFFFFFFF, rng.getrandbits(32)])
        if tag == 2 and rng.random() < 0.7:
            from spsdk.crypto.crc import CrcAlg, from_crc_algorithm
            count = rng.choice([len(body), max(0, len(body) - rng.randrange(0, 16))])
            data = from_crc_algorithm(CrcAlg.CRC32_MPEG).calculate(body[: (count + 15) // 16 * 16])
        raw = struct.pack("<2BH3L", 0, tag, flags, addr, count, data)
        ck_ = (0x5A + sum(raw[1:])) & 0xFF
        if rng.random() < 0.1:
            ck_ ^= 0x10
        blobs.append(bytes([ck_]) + raw[1:] + body)
    blobs += [b"", b"\x00", b"\x5a\x00", bytes(15), bytes(16)]
    lines = ["cmd_parse " + hexs(b) for b in blobs]
    for b, ans in zip(blobs, ask(lines)):
        r = pyres(lambda: C.parse_command(b))
        real = "ok:" + obj_obs(r[1]) if r[0] == "ok" else r[0]
        s.note(b, cls=real[:7] if r[0] != "ok" else "ok:" + str(b[1]))
        if ans is not None:
            s.compare(b.hex(), _err(real), _err(ans), "parse_command result (header fields, payload, raw_size) / accepted-or-refused")

    # ================================================================== 3. sections
    s = ck.stream("sections", "BootSectionV2.export(dek, mac, counter) vs the Lean section model: 1..12 commands, hmac_count 0..5, "
                  "counter start values incl. large ones, BOOTABLE with/without LAST_SECT; BootSectionV2.parse(export) gives the "
                  "commands back; non-trivial = distinct section spec")
    lines, keep = [], []
    for i in range(ck.budget(150, 3000)):
        sec = gen_section(rng, rng.choice([0, 1, 0xFFFFFFFF, rng.getrandbits(32)]), big=(i % 4 == 0))
        dek, mac, nonce = rng.randbytes(32), rng.randbytes(32), bytearray(rng.randbytes(16))
        nonce[15] &= 0x7F
        nonce = bytes(nonce)
        ctr_add = rng.choice([0, 13, 1000, rng.randrange(1 << 20)])
        last = rng.random() < 0.5

        def exp(sec=sec, dek=dek, mac=mac, nonce=nonce, ctr_add=ctr_add, last=last):
            bs = BootSectionV2(sec["uid"], *[make_cmd(c) for c in sec["cmds"]], hmac_count=sec["hmac"], zero_filling=True)
            if last:
                bs.is_last = True
            return bs.export(dek=dek, mac=mac, counter=Counter(nonce, ctr_add))
        r = pyres(exp)
        inp = {"sec": sec, "dek": dek.hex(), "mac": mac.hex(), "nonce": nonce.hex(), "ctr_add": ctr_add, "last": last}
        s.note(inp, cls=f"hmac={sec['hmac']},cmds={len(sec['cmds'])}")
        ctr = int.from_bytes(nonce[12:], "little") + ctr_add
        toks = [str(sec["uid"]), str(sec["hmac"]), str(len(sec["cmds"]))] + [cmd_tokens(c) for c in sec["cmds"]]
        lines.append(f"section {dek.hex()} {mac.hex()} {nonce.hex()} {ctr} {0x8001 if last else 1} " + " ".join(toks))
        keep.append((inp, r, sec, dek, mac, nonce, ctr_add))
    for (inp, r, sec, dek, mac, nonce, ctr_add), ans in zip(keep, ask(lines)):
        if ans is not None:
            s.compare(inp, canon(r), ans, "exported boot section bytes")
        s.expect(r[0] == "ok" and len(r[1]) == section_len(sec), inp, "section length is not header + MAC table + commands", r if r[0] != "ok" else len(r[1]), section_len(sec))
        if r[0] == "ok":
            p = pyres(lambda: BootSectionV2.parse(r[1] + b"\xee" * 16, 0, dek=dek, mac=mac, counter=Counter(nonce, ctr_add)))
            got = [obj_view(c) for c in p[1]] if p[0] == "ok" else p
            want = [exp_view(c) for c in sec["cmds"]]
            s.expect(p[0] == "ok" and got == want and p[1].uid == sec["uid"] and p[1].hmac_count == mac_count(sec), inp,
                     "BootSectionV2.parse(export(section)) does not give back uid / MAC count / commands", got, want)

    # ================================================================== 4./5. images
    chains = load_chains(ck)
    s21 = ck.stream("images_v21", "BootImageV21: 1..4 sections x 1..12 commands, hmac_count 0..5, product != component version, flags with/"
                    "without 0x8000 and other bits, fixed and random KEK/DEK/MAC/nonce (counter near 2^32), RSA-2048 self-signed and "
                    "RSA-4096 chain: model bytes = SPSDK bytes; ROM model accepts SPSDK's file and reports the given content; signature "
                    "obligation verified; SPSDK parse gives the content; non-trivial = distinct case")
    s20 = ck.stream("images_v20", "BootImageV20 signed (certificate section) and unsigned: same checks")
    st = ck.stream("tamper", "per file: wrong KEK + single-bit flips sampled per region (header, header MAC, key blob, certificate block, "
                   "SHA-256, signature, every section's header / MAC table / body): ROM model and SPSDK parser must report an error or "
                   "unchanged content; non-trivial = distinct (file, bit)")
    if only_cases is not None:
        cases = only_cases
    else:
        n21, n20 = ck.budget(160, 3000), ck.budget(80, 1500)
        cases = [gen_image(rng, 21, big=(i % 3 == 0), chains=chains) for i in range(n21)] + \
                [gen_image(rng, 20, big=(i % 3 == 0), chains=chains) for i in range(n20)]
        # one deterministic multi-section / SHA / distinct-version case in every run
        cases[1].update(flags=0x8008, pv=[1, 2, 3], cv=[4, 5, 6])
        if len(cases[1]["sections"]) < 2:
            cases[1]["sections"] = cases[1]["sections"] + [gen_section(rng, 77, False)]
    if only_cases is None:
        sc = ck.stream("config_path", "generated YAML configurations (1..3 sections, the 9 command kinds SB21Helper can express, files for LOAD "
                       "data, options incl. flags/versions/dek/mac/nonce/timestamp, binary certificate block of any chain): "
                       "BootImageV21.load_from_config(...).export() and `nxpimage sb21 export` (click CliRunner) produce the same bytes as "
                       "the API path; ROM model on the CLI output = content of the configuration; non-trivial = distinct case")
        for i in range(ck.budget(8, 80)):
            check_config_path(ck, drv, sc, chains, i)
        sb = ck.stream("cli_path", "generated BD command files (1..3 sections with explicit ids; load from named / extern sources with and "
                       "without memory id, word fill, ranged .b/.h/.w fill, erase range / all with and without memory id, enable, "
                       "version_check, jump / jump_sp / call with argument, reset, load fuse, keystore_to_nv / keystore_from_nv, `keywrap`, "
                       "`encrypt` with an enabled, a disabled and a byte-swapping key blob; all options incl. dek/mac/nonce/timestamp) through click's CliRunner: "
                       "`nxpimage sb21 export -c x.bd -k -s -S -R -h` -> the ROM model accepts the file and reports the content of the BD "
                       "file (keywrap: the LOAD unwraps under the OTFAD KEK to key/counter/start/flags of the key blob; encrypt: the LOAD "
                       "decrypts to the source data); `nxpimage sb21 parse` on that file writes exactly the LOAD data / certificates and "
                       "fails for a wrong KEK and for one flipped byte; `nxpimage sb21 convert` + `export` of the converted YAML gives the "
                       "same file; non-trivial = distinct case")
        for i in range(ck.budget(5, 60)):
            check_cli_path(ck, drv, sb, chains, i)
    if only_cases is None:
        sk = ck.stream("kek_len", "BootImageV21/V20.parse of a well-formed file with a KEK of length 0, 1, 15, 17, 24, 31, 33, 48, 64 (24: a "
                       "legal AES length, wrong key): always an exception, never content (theorem parser_illegal_kek_len); error / no error "
                       "= the Lean parser model; non-trivial = distinct (file, length)")
        for case in [c for c in cases if c["version"] == 21][:ck.budget(3, 30)] + [c for c in cases if c["version"] == 20][:ck.budget(3, 30)]:
            check_kek_len(ck, drv, sk, case, chains, BootImageV20, BootImageV21)
    n_flip = ck.budget(8, 16)
    for case in cases:
        forced = case.pop("_forced", None)
        check_image(ck, drv, s21 if case["version"] == 21 else s20, st, case, chains, n_flip, BootImageV20, BootImageV21, forced)


# ---------------------------------------------------------------------------------------------- config / CLI path
def gen_yaml_cmd(rng):
    """(spec for the API path, YAML command dict builder) over the command kinds SB21Helper can express"""
    sp = None
    while sp is None or sp[0] not in ("L", "F", "E", "M", "KT", "KF", "V", "J", "P"):
        sp = gen_cmd(rng, big=False)
    if sp[0] == "L":
        sp[3] = 0                       # no extra flag bits through the config
    if sp[0] == "P":
        sp[2], sp[4], sp[5] = 4, 0, 0   # `programFuses` with a pattern: data word 1 only, memory id 4
        sp[3] = sp[3] or 1              # `pattern: 0` is refused by SB21Helper._prog (truthiness test; front end = C19's subject)
    return sp


def yaml_cmd(sp, idx, tmp):
    k = sp[0]
    if k == "L":
        path = os.path.join(tmp, f"load_{idx}.bin")
        with open(path, "wb") as fh:
            fh.write(load_data(sp[4], sp[5]))
        d = {"address": sp[1], "file": path}
        if sp[2]:
            d["load_opt"] = sp[2]
        return {"load": d}
    if k == "F":
        d = {"address": sp[1], "pattern": sp[2]}
        if sp[3]:
            d["length"] = sp[3]
        return {"fill": d}
    if k == "E":
        d = {"address": sp[1], "length": sp[2], "flags": sp[3]}
        if sp[4]:
            d["mem_opt"] = sp[4]
        return {"erase": d}
    if k == "M":
        d = {"address": sp[1], "size": sp[2]}
        if sp[3]:
            d["mem_opt"] = sp[3]
        return {"enable": d}
    if k in ("KT", "KF"):
        return {"keystore_to_nv" if k == "KT" else "keystore_from_nv": {"address": sp[1], "mem_opt": sp[2]}}
    if k == "V":
        return {"version_check": {"ver_type": sp[1], "fw_version": sp[2]}}
    if k == "J":
        d = {"address": sp[1], "argument": sp[2]}
        if sp[3] is not None:
            d["spreg"] = sp[3]
        return {"jump": d}
    if k == "P":
        return {"programFuses": {"address": sp[1], "pattern": sp[3]}}
    raise ValueError(k)


def check_config_path(ck, drv, s, chains, idx):
    """The YAML configuration path (`BootImageV21.load_from_config`, `nxpimage sb21 export`) builds the same file as the
    API path for the same content; the ROM model accepts the CLI's output with the given content."""
    import yaml
    from click.testing import CliRunner
    from spsdk.apps import nxpimage
    from spsdk.sbfile.sb2.images import BootImageV21
    from spsdk.utils.misc import load_configuration

    rng = ck.rng
    tmp = os.path.join(os.environ.get("VERIF_SCRATCH", "/tmp"), f"c04cfg{idx}")
    os.makedirs(tmp, exist_ok=True)
    case = gen_image(rng, 21, big=False, chains=chains)
    nsec = rng.choice([1, 2, 3])
    case["sections"] = [{"uid": i, "hmac": 1, "cmds": [gen_yaml_cmd(rng) for _ in range(rng.choice([1, 2, 4, 7]))]} for i in range(nsec)]
    if case["bn"] == 0:
        case["bn"] = 1
    ch = chains[case["chain"]]
    cb = ch.cert_block()
    cb.header.build_number = case["bn"]
    with open(os.path.join(tmp, "cert_block.bin"), "wb") as fh:
        fh.write(cb.export())
    cfg = {
        "family": "rt5xx",
        "options": {"flags": case["flags"], "buildNumber": case["bn"], "productVersion": ver_str(case["pv"]),
                    "componentVersion": ver_str(case["cv"]), "secureBinaryVersion": "2.1", "zeroPadding": True,
                    "dek": case["dek"], "mac": case["mac"], "nonce": case["nonce"], "timestamp": case["ts"]},
        "signPrivateKey": ch.key_path, "certBlock": os.path.join(tmp, "cert_block.bin"),
        "containerOutputFile": os.path.join(tmp, "out.sb2"), "containerKeyBlobEncryptionKey": case["kek"],
        "RKTHOutputPath": os.path.join(tmp, "hash.bin"),
        "sections": [{"commands": [yaml_cmd(c, f"{si}_{ci}", tmp) for ci, c in enumerate(sec["cmds"])]} for si, sec in enumerate(case["sections"])],
    }
    cfg_path = os.path.join(tmp, "config.yaml")
    with open(cfg_path, "w") as fh:
        yaml.safe_dump(cfg, fh)
    s.note(case, cls=f"sections={nsec},chain={case['chain']}")
    api = pyres(lambda: build_image(case, chains).export(padding=bytes(8)))
    if api[0] != "ok":
        s.expect(False, case, "SPSDK refuses to build the image through the API", api)
        return
    lib = pyres(lambda: BootImageV21.load_from_config(load_configuration(cfg_path), rkth_out_path=os.path.join(tmp, "hash.bin"), search_paths=[tmp]).export())
    s.expect(lib == api, case, "BootImageV21.load_from_config(config).export() differs from the API path for the same content",
             _bdiff(lib, api))
    out = os.path.join(tmp, "cli.sb2")
    res = pyres(lambda: CliRunner().invoke(nxpimage.main, ["sb21", "export", "-c", cfg_path, "-o", out]))
    cli = pyres(lambda: open(out, "rb").read()) if res[0] == "ok" and res[1].exit_code == 0 else ("E:cli", res[1].output[-300:] if res[0] == "ok" else res)
    s.expect(cli == api, case, "`nxpimage sb21 export -c config.yaml` writes a different file than the API path for the same content", _bdiff(cli, api))
    if drv is not None and cli[0] == "ok":
        cert = cb.export()
        sha = 32 if case["flags"] & 0x8000 else 0
        sig = cli[1][208 + len(cert) + sha: 208 + len(cert) + sha + cb.signature_size]
        # the certificate block inside the file carries image_length etc. set by update(): take it from the file
        cert = cli[1][208: 208 + len(cert)]
        want = "ok:" + exp_content(case, cert, sig) + exp_sections(case)
        ans = drv.ask(f"rom21 {case['kek']} {cli[1].hex()}")
        if not rom_shape_ok(ans, image=True):
            s.compare(case, "well-formed answer of the ROM model", str(ans)[:60], "driver answer")
        else:
            okr = ans == want and verify_obligation(cli[1], rom_fields(ans)) is True
            s.expect(okr, case, "ROM model does not accept the CLI's output with the content of the configuration", _diff(ans, want))
    import shutil
    shutil.rmtree(tmp, ignore_errors=True)


# ---------------------------------------------------------------------------------------------- BD file / CLI path (phase 3)
KEYBLOBS = [
    {"id": 0, "start": 0x08001000, "end": 0x08002FFF, "key": "000102030405060708090A0B0C0D0E0F", "counter": "0123456789ABCDEF"},   # ADE|VLD
    {"id": 1, "start": 0x08004000, "end": 0x080043FD, "key": "0F0E0D0C0B0A09080706050403020100", "counter": "FEDCBA9876543210"},   # ADE clear
    {"id": 2, "start": 0x08008000, "end": 0x08008FFF, "key": "A0A1A2A3A4A5A6A7A8A9AAABACADAEAF", "counter": "1122334455667788", "byteSwap": 1},
]


def gen_bd_cmd(rng, nsrc):
    """(BD statement, expectation).  Expectation: a command spec of the API path (`exp_view` gives the loader's view) with,
    for keywrap / encrypt, a 7th element describing what the LOAD data must be."""
    a = lambda: rng.choice([0, 0x10, 0x1000, 0x20001000, 0x80000000, 0xFFFFFFF0, rng.getrandbits(32) & ~3, rng.getrandbits(16)])  # noqa: E731
    k = rng.choice(["L", "L", "LM", "FW", "FB", "FH", "FR", "E", "EM", "EA", "M", "V", "J", "JA", "JS", "C", "CA", "R", "P", "KT", "KF",
                    "KW", "KW", "EN", "EN", "EN"])
    if k == "L":
        i = rng.randrange(nsrc)
        ad = a()
        return f"load src{i} > {ad:#x};", ["L", ad, 0, 0, None, None, ("src", i)]
    if k == "LM":
        i, ad, m = rng.randrange(nsrc), a(), rng.choice([9, 8, 1, 0x10, 0x101, 0x120])
        return f"load @{m:#x} src{i} > {ad:#x};", ["L", ad, m, 0, None, None, ("src", i)]
    if k in ("FH", "FR"):
        ad, n = rng.choice([0, 0x1000, 0x20000000, 0xFFFF0000]), 4 * rng.choice([1, 1, 4, 0x40, rng.randrange(1, 0x1000)])
        pat = rng.choice([0x1122, 0x100, 0xFFFF, 0x100 + rng.getrandbits(15)]) if k == "FH" else rng.choice([0x11223344, 0x1000000, 0xFFFFFFFF, rng.getrandbits(32) | 0x1000000])
        return f"load {pat:#x}.{'h' if k == 'FH' else 'w'} > {ad:#x}..{ad + n:#x};", ["F", ad, pat, n]
    if k == "EM":
        ad, n, m = rng.choice([0, 0x8000000, 0x10000]), rng.choice([1, 0x1000, 0x10000, rng.getrandbits(24) + 1]), rng.choice([9, 8, 1, 0x101, 0x110])
        return f"erase @{m:#x} {ad:#x}..{ad + n:#x};", ["E", ad, n, 0, m]
    if k == "EA":
        m = rng.choice([0, 0, 9, 0x101])
        return (f"erase @{m:#x} all;" if m else "erase all;"), ["E", 0, 0, 1, m]
    if k in ("JA", "JS"):
        ad, arg, sp = a(), rng.choice([0, 0x55, 0xFFFFFFFF, rng.getrandbits(32)]), rng.choice([0x20008000, 0x20000000, rng.getrandbits(32) & ~7])
        return (f"jump {ad:#x} ({arg:#x});", ["J", ad, arg, None]) if k == "JA" else (f"jump_sp {sp:#x} {ad:#x} ({arg:#x});", ["J", ad, arg, sp])
    if k == "CA":
        ad, arg = a(), rng.choice([1, 0x55, 0xFFFFFFFF, rng.getrandbits(32)])
        return f"call {ad:#x} ({arg:#x});", ["C", ad, arg]
    if k in ("KT", "KF"):
        ad, m = a(), rng.choice(EXT_MEM_IDS)
        return f"keystore_{'to' if k == 'KT' else 'from'}_nv @{m:#x} {ad:#x};", [k, ad, m]
    if k == "FW":
        ad, pat = a(), rng.choice([0xC1503057, 0x20000000, 0x01000000, 0xFFFFFFFF, 0x1000000 + rng.getrandbits(24), rng.getrandbits(32) | 0x1000000])
        return f"load {pat:#x} > {ad:#x};", ["F", ad, pat, 4]
    if k == "FB":
        ad, b, n = rng.choice([0, 0x2000, 0x20000000, 0xFFFF0000]), rng.randrange(1, 256), 4 * rng.choice([1, 2, 0x100, 0x400, rng.randrange(1, 0x3000)])
        return f"load {b:#x}.b > {ad:#x}..{ad + n:#x};", ["F", ad, b, n]
    if k == "E":
        ad, n = rng.choice([0, 0x8000000, 0x10000, rng.getrandbits(28)]), rng.choice([1, 0x1000, 0x10000, rng.getrandbits(24) + 1])
        return f"erase {ad:#x}..{ad + n:#x};", ["E", ad, n, 0, 0]
    if k == "M":
        ad, m = a(), rng.choice([9, 8, 1, 0x10, 0x101, 0x110])
        return f"enable @{m:#x} {ad:#x};", ["M", ad, 4, m]
    if k == "V":
        t, v = rng.choice([0, 1]), rng.choice([0, 1, 0xAFBC, 0xFFFFFFFF, rng.getrandbits(32)])
        return f"version_check {'sec' if t == 0 else 'nsec'} {v:#x};", ["V", t, v]
    if k == "J":
        ad = a()
        return f"jump {ad:#x};", ["J", ad, 0, None]
    if k == "C":
        ad = a()
        return f"call {ad:#x};", ["C", ad, 0]
    if k == "R":
        return "reset;", ["R"]
    if k == "P":
        ad, w = a(), rng.choice([1, 0x55, 0xAABB, 0xFFFFFFFF, rng.getrandbits(32) | 1])
        return f"load fuse {w:#x} > {ad:#x};", ["P", ad, 4, w, 0, 0]
    if k == "KW":
        kb, ad, kek = rng.choice(KEYBLOBS), rng.choice([0x08000000, 0x08000040, 0x08000400, a()]), rng.randbytes(16).hex()
        return f"keywrap ({kb['id']}) {{ load {{{{{kek}}}}} > {ad:#x}; }}", ["L", ad, 0, 0, 64, None, ("kw", kb["id"], kek)]
    kb = rng.choice(KEYBLOBS)
    i = rng.randrange(nsrc)
    ad = kb["start"] + 0x400 * rng.randrange(0, max(1, (kb["end"] - kb["start"]) // 0x400 - 1))
    return f"encrypt ({kb['id']}) {{ load src{i} > {ad:#x}; }}", ["L", ad, 0, 0, None, None, ("enc", kb["id"], i)]


def bd_text(case, sources, externs):
    pv, cv = case["pv"], case["cv"]
    o = [f"    flags = {case['flags']:#x};", f"    buildNumber = {case['bn']:#x};", f"    productVersion = \"{ver_str(pv)}\";",
         f"    componentVersion = \"{ver_str(cv)}\";", "    secureBinaryVersion = \"2.1\";", "    zeroPadding = True;",
         f"    dek = \"{case['dek']}\";", f"    mac = \"{case['mac']}\";", f"    nonce = \"{case['nonce']}\";", f"    timestamp = {case['ts']};"]
    src = []
    for i, path in enumerate(sources):
        src.append(f"    src{i} = extern({externs.index(path)});" if path in externs else f"    src{i} = \"{path}\";")
    kbs = []
    for kb in KEYBLOBS:
        extra = f",\n        byteSwap = {kb['byteSwap']}" if "byteSwap" in kb else ""
        kbs.append(f"keyblob({kb['id']}){{\n    (\n        start = {kb['start']:#010x},\n        end = {kb['end']:#010x},\n"
                   f"        key = \"{kb['key']}\",\n        counter = \"{kb['counter']}\"{extra}\n    )\n}}")
    secs = []
    for s in case["sections"]:
        secs.append(f"section ({s['uid']}) {{\n" + "\n".join("    " + st for st in s["bd"]) + "\n}")
    return "options {\n" + "\n".join(o) + "\n}\nsources {\n" + "\n".join(src) + "\n}\n" + "\n".join(kbs) + "\n" + "\n".join(secs) + "\n"


def rom_sections(ans):
    """sections of a ROM-model answer: [(uid, flags, mac count, [command text, ...]), ...]"""
    import re
    out = []
    for part in rom_fields(ans)["sections"].split("|"):
        uid, fl, hc, body = part.split(":", 3)
        out.append((int(uid), int(fl), int(hc), re.findall(r"[A-Za-z]+(?:\([^)]*\))?", body[1:-1])))
    return out


def keywrap_ok(data, kb, kek_hex):
    """RFC 3394 unwrap (cryptography, directly) of the wrapped OTFAD key blob: key, counter, start address, flag bits and
    1 KiB page of the end address are the configured ones; the rest of the 64 bytes is zero"""
    from cryptography.hazmat.primitives.keywrap import aes_key_unwrap
    if len(data) != 64 or any(data[48:]):
        return False
    try:
        pt = aes_key_unwrap(bytes.fromhex(kek_hex), data[:48])
    except Exception:  # noqa: BLE001
        return False
    endw = int.from_bytes(pt[28:32], "little")
    return (pt[:16] == bytes.fromhex(kb["key"]) and pt[16:24] == bytes.fromhex(kb["counter"]) and
            int.from_bytes(pt[24:28], "little") == kb["start"] and endw & 7 == kb["end"] & 7 and endw >> 10 == (kb["end"] - 1) >> 10)


def encrypt_ok(data, kb, addr, plain):
    """`encrypt`: with ADE and VLD set the LOAD carries AES-CTR ciphertext of the source aligned to 512 bytes (checked by
    running the OTFAD key blob's own encryption over it again: CTR is an involution); otherwise the plain source"""
    from spsdk.utils.crypto.otfad import KeyBlob
    if kb["end"] & 3 != 3:
        # SB21Helper._encrypt builds CmdLoad without `zero_filling`: the bytes behind the data (known finding
        # C04-load-count-padded: the byte count is the padded length) are random even with `zeroPadding`
        return data[:len(plain)] == plain and len(data) == (len(pad16(plain)) if LOAD_PADDED else len(plain))
    want = plain + bytes((512 - len(plain) % 512) % 512)
    if len(data) != len(want) or data == want:
        return False
    blob = KeyBlob(start_addr=kb["start"], end_addr=kb["end"], key=bytes.fromhex(kb["key"]), counter_iv=bytes.fromhex(kb["counter"]))
    back = pyres(lambda: blob.encrypt_image(base_address=addr, data=data, byte_swap=bool(kb.get("byteSwap")), counter_value=addr))
    return back == ("ok", want)


def cli_cmd_ok(text, sp, srcs):
    """one command of the ROM model's answer against the expectation of the BD statement"""
    extra = sp[6] if len(sp) > 6 else None
    if extra is None or extra[0] == "src":
        return text == bd_exp_view(sp, srcs)
    if not (text.startswith("load(") and text.endswith(")")):
        return False
    f = text[5:-1].split(",")
    if len(f) != 3 or f[0] != str(sp[1]) or f[1] != "0":
        return False
    data = bytes.fromhex(f[2]) if f[2] != "-" else b""
    kb = KEYBLOBS[extra[1]]
    return keywrap_ok(data, kb, extra[2]) if extra[0] == "kw" else encrypt_ok(data, kb, sp[1], srcs[extra[2]])


def bd_exp_view(sp, srcs):
    if sp[0] == "L":
        d = srcs[sp[6][1]]
        return f"load({sp[1]},{mem_bits(sp[2])},{hexs(d if not LOAD_PADDED else pad16(d))})"
    return exp_view(sp)


def bd_load_len(sp, srcs):
    """byte length of the LOAD data a BD statement produces"""
    extra = sp[6]
    if extra[0] == "src":
        return len(srcs[extra[1]])
    if extra[0] == "kw":
        return 64
    n = len(srcs[extra[2]])
    return (n + 511) // 512 * 512 if KEYBLOBS[extra[1]]["end"] & 3 == 3 else n


def check_cli_path(ck, drv, s, chains, idx):
    """BD file -> `nxpimage sb21 export` -> ROM model; `nxpimage sb21 parse`; `nxpimage sb21 convert` + export."""
    import shutil
    from click.testing import CliRunner
    from spsdk.apps import nxpimage

    rng = ck.rng
    tmp = os.path.join(os.environ.get("VERIF_SCRATCH", "/tmp"), f"c04cli{idx}_{os.getpid()}")
    shutil.rmtree(tmp, ignore_errors=True)
    os.makedirs(tmp)
    try:
        _check_cli_path(ck, drv, s, chains, idx, tmp, rng, CliRunner, nxpimage)
    finally:
        shutil.rmtree(tmp, ignore_errors=True)


def _check_cli_path(ck, drv, s, chains, idx, tmp, rng, CliRunner, nxpimage):
    case = gen_image(rng, 21, big=False, chains=chains)
    case["flags"] = rng.choice([0x8, 0x8008, 0x8008, 0xC, 0x800A])
    if case["bn"] == 0:
        case["bn"] = 1
    nsrc = rng.choice([1, 2, 3])
    srcs = [load_data(rng.choice([1, 4, 16, 37, 48, 511, 512, 600, rng.randrange(1, 1500)]), rng.randrange(1 << 30)) for _ in range(nsrc)]
    paths = []
    for i, d in enumerate(srcs):
        paths.append(os.path.join(tmp, f"src{i}.bin"))
        with open(paths[-1], "wb") as fh:
            fh.write(d)
    externs = [p for p in paths if rng.random() < 0.4]
    nsec = rng.choice([1, 2, 3])
    uids = rng.sample([0, 1, 2, 7, 0x1234, 0xFFFFFFFF, rng.getrandbits(32)], nsec)
    case["sections"] = []
    for u in uids:
        pairs = [gen_bd_cmd(rng, nsrc) for _ in range(rng.choice([1, 2, 4, 7, 10]))]
        cmds = []
        for _, sp in pairs:
            if sp[0] == "L":
                sp[4] = bd_load_len(sp, srcs)
            cmds.append(sp)
        case["sections"].append({"uid": u, "hmac": 1, "cmds": cmds, "bd": [st for st, _ in pairs]})
    if idx == 0:      # one fixed case per run: ranged fill + file load + erase + encrypt with the byte-swapping key blob, self-signed chain, nothing random
        case["chain"] = 0
        fixed = [("load 0x55.b > 0x2000..0x3000;", ["F", 0x2000, 0x55, 0x1000]), ("load src0 > 0x1000;", ["L", 0x1000, 0, 0, len(srcs[0]), None, ("src", 0)]),
                 ("erase 0x8000000..0x8010000;", ["E", 0x8000000, 0x10000, 0, 0]),
                 ("encrypt (2) { load src0 > 0x8008000; }", ["L", 0x8008000, 0, 0, (len(srcs[0]) + 511) // 512 * 512, None, ("enc", 2, 0)])]
        case["sections"] = [{"uid": 7, "hmac": 1, "cmds": [sp for _, sp in fixed], "bd": [st for st, _ in fixed]}]
        nsec = 1
    ch = chains[case["chain"]]
    bd = os.path.join(tmp, "cmd.bd")
    with open(bd, "w") as fh:
        fh.write(bd_text(case, paths, externs))
    kekf = os.path.join(tmp, "kek.txt")
    with open(kekf, "w") as fh:
        fh.write(case["kek"])
    kinds = sorted({(c[6][0] if len(c) > 6 else c[0]) for sc in case["sections"] for c in sc["cmds"]})
    shown = {k: v for k, v in case.items() if k != "sections"}
    shown.update(bd=open(bd).read(), sources=[d.hex() for d in srcs])
    s.note(shown, cls=f"sections={nsec},kw={int('kw' in kinds)},enc={int('enc' in kinds)},sha={int(bool(case['flags'] & 0x8000))}")
    sign = ["-k", kekf, "-s", ch.key_path] + [x for p in ch.cert_paths for x in ("-S", p)] + [x for p in ch.root_paths for x in ("-R", p)] + \
           ["-h", os.path.join(tmp, "hash.bin")]
    out = os.path.join(tmp, "cli.sb2")
    res = pyres(lambda: CliRunner().invoke(nxpimage.main, ["sb21", "export", "-c", bd, "-o", out] + sign + externs))
    okc = res[0] == "ok" and res[1].exit_code == 0 and os.path.isfile(out)
    s.expect(okc, shown, "`nxpimage sb21 export -c file.bd` fails on a well-formed BD file",
             res[1].output[-300:] if res[0] == "ok" else res)
    if not okc:
        return
    file = open(out, "rb").read()
    # ---- ROM model as the oracle on the CLI's file
    cbr = pyres(lambda: ch.cert_block().export())
    clen = len(cbr[1]) if cbr[0] == "ok" else 0
    sha = 32 if case["flags"] & 0x8000 else 0
    sig_len = ch.cert_block().signature_size
    cert = file[208: 208 + clen]
    sig = file[208 + clen + sha: 208 + clen + sha + sig_len]
    if drv is not None:
        ans = drv.ask(f"rom21 {case['kek']} {file.hex()}")
        if not rom_shape_ok(ans, image=True) or not ans.startswith("ok:"):
            if rom_shape_ok(ans, image=True):
                s.expect(False, shown, "ROM model refuses the file `nxpimage sb21 export` made from a BD file", ans[:80])
            else:
                s.compare(shown, "well-formed answer of the ROM model", str(ans)[:60], "driver answer")
        else:
            head_ok = ans.partition(";sections=")[0] == ("ok:" + exp_content(case, cert, sig)).partition(";sections=")[0]
            got = pyres(lambda: rom_sections(ans))
            secs_ok = got[0] == "ok" and [(u, f, h, len(c)) for u, f, h, c in got[1]] == \
                [(sc["uid"], 0x8001, mac_count(sc), len(sc["cmds"])) for sc in case["sections"]]
            bad = None
            if secs_ok:
                for si, sc in enumerate(case["sections"]):
                    for ci, sp in enumerate(sc["cmds"]):
                        if bad is None and not cli_cmd_ok(got[1][si][3][ci], sp, srcs):
                            bad = [si, ci, sc["bd"][ci], got[1][si][3][ci][:120]]
            s.expect(head_ok and secs_ok and bad is None and verify_obligation(file, rom_fields(ans)) is True, shown,
                     "ROM model on the output of `nxpimage sb21 export -c file.bd`: header values / sections / a command differ from "
                     "the BD file's content (or the signature does not verify)",
                     {"header": head_ok, "sections": secs_ok, "first_bad_command": bad,
                      "head_diff": _diff(ans.partition(";sections=")[0], ("ok:" + exp_content(case, cert, sig)).partition(";sections=")[0])})
    # ---- `nxpimage sb21 parse`
    pdir = os.path.join(tmp, "parsed")
    res = pyres(lambda: CliRunner().invoke(nxpimage.main, ["sb21", "parse", "-b", out, "-k", kekf, "-o", pdir]))
    okp = res[0] == "ok" and res[1].exit_code == 0
    s.expect(okp, shown, "`nxpimage sb21 parse` fails on the file `nxpimage sb21 export` wrote", res[1].output[-300:] if res[0] == "ok" else res)
    if okp:
        names = sorted(n for n in os.listdir(pdir) if n.startswith("section_"))
        want_names, bad = [], None
        for si, sc in enumerate(case["sections"]):
            for ci, sp in enumerate(sc["cmds"]):
                if sp[0] != "L":
                    continue
                n = f"section_{si}_load_command_{ci}_data.bin"
                want_names.append(n)
                d = pyres(lambda: open(os.path.join(pdir, n), "rb").read())
                fl = mem_bits(sp[2])
                text = f"load({sp[1]},{fl},{hexs(d[1])})" if d[0] == "ok" else "missing"
                if bad is None and not cli_cmd_ok(text, sp, srcs) and not (d[0] == "ok" and not LOAD_PADDED and cli_cmd_ok(f"load({sp[1]},{fl},{hexs(d[1][:sp[4]])})", sp, srcs)):
                    bad = [n, sc["bd"][ci]]
        certs_ok = all(pyres(lambda: open(os.path.join(pdir, f"certificate_{k}_der.cer"), "rb").read()) == ("ok", open(p, "rb").read())
                       for k, p in enumerate(ch.cert_paths))
        info = pyres(lambda: open(os.path.join(pdir, "parsed_info.txt")).read())
        info_ok = info[0] == "ok" and all(x in info[1] for x in (f"Build Number:         {case['bn']}", f"Product Version:      {ver_str(case['pv'])}",
                                                                  f"Component Version:    {ver_str(case['cv'])}"))
        s.expect(names == sorted(want_names) and bad is None and certs_ok and info_ok, shown,
                 "`nxpimage sb21 parse` does not write exactly the LOAD data / certificates / header values of the file",
                 {"files": names, "want": sorted(want_names), "bad": bad, "certs": certs_ok, "info": info_ok})
    wk = os.path.join(tmp, "wrong.txt")
    with open(wk, "w") as fh:
        fh.write(bytes(b ^ 1 for b in bytes.fromhex(case["kek"])).hex())
    res = pyres(lambda: CliRunner().invoke(nxpimage.main, ["sb21", "parse", "-b", out, "-k", wk, "-o", os.path.join(tmp, "p2")]))
    s.expect(res[0] != "ok" or res[1].exit_code != 0, shown, "`nxpimage sb21 parse` succeeds with a wrong KEK", "exit code 0")
    start = 208 + clen + sha + sig_len
    pos = rng.choice([rng.randrange(0, 96 - 4), rng.randrange(start, len(file)), rng.randrange(start, len(file)), start + rng.randrange(0, 48)])
    if 12 <= pos < 20:
        pos = 40     # header padding / unchecked reserved bytes are not covered by anything the parser compares
    tf = os.path.join(tmp, "tampered.sb2")
    with open(tf, "wb") as fh:
        fh.write(file[:pos] + bytes([file[pos] ^ (1 << rng.randrange(8))]) + file[pos + 1:])
    p3 = os.path.join(tmp, "p3")
    res = pyres(lambda: CliRunner().invoke(nxpimage.main, ["sb21", "parse", "-b", tf, "-k", kekf, "-o", p3]))
    s.expect(res[0] != "ok" or res[1].exit_code != 0, shown, "`nxpimage sb21 parse` accepts a file with one flipped bit", {"byte": pos})
    # ---- `nxpimage sb21 convert` -> YAML -> export: same file (keywrap draws 4 random bytes: same length only)
    # (`convert` writes root certificates only: chains of depth 1; the YAML schema has no `call` / `reset` command, so
    #  CommentedConfig refuses such a configuration - front-end limitation outside this property, reported, not judged)
    if len(ch.cert_paths) == 1 and ch.cert_paths[0] in ch.root_paths and not ({"C", "R"} & set(kinds)):
        conv = os.path.join(tmp, "converted.yaml")
        res = pyres(lambda: CliRunner().invoke(nxpimage.main, ["sb21", "convert", "-f", "rt5xx", "-c", bd, "-o", conv] + sign + externs))
        okv = res[0] == "ok" and res[1].exit_code == 0 and os.path.isfile(conv)
        s.expect(okv, shown, "`nxpimage sb21 convert` fails on a well-formed BD file",
                 (res[1].output[-300:], "".join(__import__("traceback").format_exception(*res[1].exc_info))[-600:]) if res[0] == "ok" and res[1].exc_info else res)
        if okv:
            out2 = os.path.join(tmp, "conv.sb2")
            res = pyres(lambda: CliRunner().invoke(nxpimage.main, ["sb21", "export", "-c", conv, "-o", out2]))
            f2 = pyres(lambda: open(out2, "rb").read()) if res[0] == "ok" and res[1].exit_code == 0 else ("E:cli", res[1].output[-300:] if res[0] == "ok" else res)
            # random by design: 4 bytes inside a wrapped key blob; LOAD padding of `encrypt` with a disabled key blob
            rnd = "kw" in kinds or any(len(c) > 6 and c[6][0] == "enc" and KEYBLOBS[c[6][1]]["end"] & 3 != 3 and c[4] % 16
                                        for sc in case["sections"] for c in sc["cmds"])
            # (ranged fills and byte-swapping key blobs included: `length` / `byteSwap` are schema properties since dfe695a;
            #  before that `convert` dropped them - fixed record in known_findings.jsonl)
            weak = f2[0] == "ok" and len(f2[1]) == len(file) and f2[1][:96] == file[:96]
            s.expect(weak, shown, "`nxpimage sb21 convert` + `export` of the converted YAML: no file, or one of different size / header than "
                     "`export` of the BD file", _bdiff(f2, ("ok", file)))
            if weak and not rnd:
                s.expect(f2[1] == file, shown, "`nxpimage sb21 convert` + `export` of the converted YAML gives a different file than `export` of "
                         "the BD file", _bdiff(f2, ("ok", file)))


def check_kek_len(ck, drv, s, case, chains, BootImageV20, BootImageV21):
    v21 = case["version"] == 21
    cls = BootImageV21 if v21 else BootImageV20
    built = pyres(lambda: build_image(case, chains).export(padding=bytes(8)))
    if built[0] != "ok":
        return
    file = built[1]
    for n in (0, 1, 15, 17, 24, 31, 33, 48, 64):
        kek = ck.rng.randbytes(n)
        inp = {"case": case, "kek": kek.hex()}
        s.note([case["nonce"], case["kek"], n], cls=f"len={n}")
        r = pyres(lambda: cls.parse(file, kek=kek))
        s.expect(r[0] != "ok", inp, "SPSDK parser returns content for a KEK of a length that is not the image's", n)
        if drv is not None and n > 0:
            pans = drv.ask(parser_model_line(file, kek, v21))
            m = str(pans)
            s.compare(inp, "ok" if r[0] == "ok" else "E", "ok" if m.startswith("ok:") else ("E" if m.startswith("E:") else m[:40]),
                      "BootImageV2x.parse vs the Lean parser model for a KEK of another length")


def _bdiff(a, b):
    if a[0] != "ok" or b[0] != "ok":
        return [a if a[0] != "ok" else "ok", b if b[0] != "ok" else "ok"]
    n = next((i for i, (x, y) in enumerate(zip(a[1], b[1])) if x != y), min(len(a[1]), len(b[1])))
    return {"len": [len(a[1]), len(b[1])], "first_diff_at": n, "got": a[1][n: n + 16].hex(), "want": b[1][n: n + 16].hex()}


def load_chains(ck):
    d1 = f"{DATA}/sbfile/data/sb2_x/"
    d2 = f"{DATA}/nxpimage/data/sb_sources/keys_and_certs/"
    chains = [Chain([d1 + "selfsign_2048_v3.der.crt"], d1 + "selfsign_privatekey_rsa2048.pem")]
    r = pyres(lambda: Chain([d2 + "root_k0_signed_cert0_noca.der.cert"], d2 + "k0_cert0_2048.pem",
                            roots=[d2 + f"root_k{i}_signed_cert0_noca.der.cert" for i in range(4)]))
    if r[0] == "ok":
        chains.append(r[1])
    r = pyres(lambda: Chain([d2 + "root_cert_0_ca_v3.der.crt", d2 + "chain_cert_0_v3.der.crt", d2 + "chain_cert_1_v3.der.crt"],
                            d2 + "chain_cert_1_pkey_rsa4096.pem"))
    if r[0] == "ok" and pyres(lambda: r[1].cert_block().export())[0] == "ok":
        chains.append(r[1])
    d3 = f"{DATA}/image/mbi/data/keys_and_certs/"
    for certs, key in (([d3 + "selfsign_3072_v3.der.crt"], d3 + "private_rsa3072.pem"),
                       ([d1 + "selfsign_4096_v3.der.crt"], d1 + "selfsign_privatekey_rsa4096.pem")):
        r = pyres(lambda: Chain(certs, key))
        if r[0] == "ok" and pyres(lambda: r[1].cert_block().export())[0] == "ok" and pyres(lambda: r[1].sp.try_to_verify_public_key(r[1].certs[-1].get_public_key()))[0] == "ok":
            chains.append(r[1])
    ck.extra["cert_chains"] = [c.name for c in chains]
    return chains


def parser_model_line(file, kek, v21):
    """request line for the Lean model of SPSDK's own parser (`sparse21` / `sparse20`).

    The certificate block is opaque to that model: raw size / signature size come from SPSDK's CertBlockV1.parse on the
    bytes where the block must start, and `verify_data` is replaced by a direct `cryptography` verification over the
    range the format prescribes (header fields read from the file itself)."""
    from spsdk.utils.crypto.cert_blocks import CertBlockV1

    off = 208 if v21 else 288
    flags = int.from_bytes(file[26:28], "little") if len(file) >= 28 else 0
    raw, sg, ok = "-", 0, 0
    if v21 or flags == 8:
        r = pyres(lambda: CertBlockV1.parse(file[off:]))
        r2 = pyres(lambda: (r[1].raw_size, r[1].signature_size)) if r[0] == "ok" else ("E",)
        if r2[0] == "ok":
            raw, sg = r2[1]
            if v21:
                n = off + raw + (32 if flags & 0x8000 else 0)
                sig = file[n: n + sg]
            else:
                n = int.from_bytes(file[28:32], "little") * 16
                sig = file[n:]
            ok = int(verify_obligation(file, {"cert": file[off: off + raw].hex() or "-", "sig": sig.hex() or "-", "signed": str(n)}) is True)
    return f"sparse{'21' if v21 else '20'} {kek.hex()} {raw} {sg} {ok} {file.hex()}"


def regions(case, file, cert_len, sig_len):
    """named byte ranges of a built file"""
    out = [("header", 0, 96), ("header_mac", 96, 128), ("key_blob", 128, 208)]
    if case["version"] == 21:
        p = 208
        out.append(("cert_block", p, p + cert_len))
        p += cert_len
        if case["flags"] & 0x8000:
            out.append(("sha256", p, p + 32))
            p += 32
        out.append(("signature", p, p + sig_len))
        p += sig_len
    else:
        p = 208
        if case["signed"]:
            out += [("cert_sect_header", p, p + 16), ("cert_sect_macs", p + 16, p + 80), ("cert_block", p + 80, p + 80 + cert_len)]
            p += 80 + cert_len
    for i, sct in enumerate(case["sections"]):
        hc = mac_count(sct)
        out += [(f"s{i}_header", p, p + 16), (f"s{i}_header_mac", p + 16, p + 48), (f"s{i}_mac_table", p + 48, p + 48 + 32 * hc),
                (f"s{i}_body", p + 48 + 32 * hc, p + section_len(sct))]
        p += section_len(sct)
    if case["version"] == 20 and case["signed"]:
        out.append(("signature", p, p + sig_len))
    return out


def check_image(ck, drv, s, st, case, chains, n_flip, BootImageV20, BootImageV21, forced=None):
    rng = ck.rng
    v21 = case["version"] == 21
    nun = sum(1 for sec in case["sections"] for c in sec["cmds"] if unaligned_load(c))
    s.note(case, cls=f"sections={len(case['sections'])},sha={int(bool(case['flags'] & 0x8000))},signed={int(case['signed'])},pv{'=' if case['pv'] == case['cv'] else '!='}cv")
    state = {}

    def build():
        img = build_image(case, chains)
        state["img"] = img
        return img.export(padding=bytes(8))
    r = pyres(build)
    if r[0] != "ok":
        s.expect(False, case, "SPSDK refuses to build an image from well-formed input", r)
        return
    file = r[1]
    img = state["img"]
    cert = img.cert_block.export() if case["signed"] else b""
    sig_len = img.cert_block.signature_size if case["signed"] else 0
    kek = bytes.fromhex(case["kek"])
    if v21:
        sha = 32 if case["flags"] & 0x8000 else 0
        sig = file[208 + len(cert) + sha: 208 + len(cert) + sha + sig_len]
    else:
        sig = file[len(file) - sig_len:] if sig_len else b""
    toks = cfg_tokens(case, cert, sig)
    tag = "21" if v21 else "20 " + ("1" if case["signed"] else "0")
    want = "ok:" + exp_content(case, cert, sig) + exp_sections(case)
    if drv is not None:
        model_file, spec_line, rom_line, pspec_line, pmodel_line = drv.batch(
            [f"build{tag} {toks}", f"expected{tag} {toks}", f"rom{'21' if v21 else '20'} {case['kek']} {file.hex()}",
             f"parsed{tag} {toks}", parser_model_line(file, kek, v21)])
        # (i) builder model = SPSDK
        s.compare(case, "ok:" + file.hex(), model_file, "exported image bytes (signature taken from SPSDK's output)")
        # Lean specification = Python expectation (ties Spec.expected21/20 to this file's exp_content)
        s.compare(case, want, spec_line, "Lean specification `expected` vs the harness' independent expectation (or input not WF)")
        # (ii) ROM model (Spec-only op) on SPSDK's bytes
        if not rom_shape_ok(rom_line, image=True):
            s.compare(case, "well-formed answer of the ROM model", str(rom_line)[:60], "driver answer")
            rom_line = None
        elif not s.expect(rom_line == want, case, "ROM model does not accept SPSDK's file with exactly the given content",
                          _diff(rom_line, want), "see 'want' fields"):
            return
        else:
            f = rom_fields(rom_line)
            ob = verify_obligation(file, f)
            s.expect(ob is (True if case["signed"] else None), case, "signature does not verify over the range the ROM authenticates", ob)
    else:
        rom_line = None
    if nun and LOAD_PADDED:     # measured on the real code (run()), independent of the driver
        s.expect(False, ["load-count", nun], "LOAD byte count in the file is the padded length: the loader writes the padding too",
                 "padded", "exact", finding="C04-load-count-padded")
    # SPSDK's default: random padding of LOAD data and of the header (no byte comparison possible) - the ROM model must
    # still accept and report the given content; only the bytes behind the given LOAD data and the signature may differ
    if rom_line is not None and rng.random() < 0.3:
        rr = pyres(lambda: build_image(case, chains, zero=False).export())
        if rr[0] != "ok":
            s.expect(False, case, "SPSDK refuses to build the image with random padding", rr)
        else:
            ans = drv.ask(f"rom{'21' if v21 else '20'} {case['kek']} {rr[1].hex()}")
            if not rom_shape_ok(ans, image=True):
                s.compare(case, "well-formed answer of the ROM model", str(ans)[:60], "driver answer")
            else:
                okr = ans.startswith("ok:") and same_modulo_padding(case, ans, want) and \
                    verify_obligation(rr[1], rom_fields(ans)) is (True if case["signed"] else None)
                s.expect(okr, case, "ROM model does not accept SPSDK's file built with random padding (content or signature)", _diff(ans, want))
    # header describes the file (on the real bytes, independent of the model)
    h = struct.unpack_from("<16s4s4s2BH4I4H4sQ12HI4s", file)
    ib, fbtb = h[6], h[7]
    first = len(file) - sum(section_len(x) for x in case["sections"]) - (sig_len if not v21 else 0)
    s.expect(fbtb * 16 == first, case, "first_boot_tag_block does not point at the first boot section", fbtb * 16, first)
    s.expect(ib * 16 == len(file) - (sig_len if not v21 else 0), case, "image_blocks does not describe the file size", ib * 16, len(file))
    # (iii) SPSDK's parser
    cls = BootImageV21 if v21 else BootImageV20
    p = pyres(lambda: cls.parse(file, kek=kek))
    got = parsed_view(p[1]) if p[0] == "ok" else p
    s.expect(got == exp_parsed_view(case), case, "SPSDK parse(export(image)) does not return the given content", _diff(got, exp_parsed_view(case)) if p[0] == "ok" else p)
    if drv is not None:
        # Lean model of SPSDK's parser = SPSDK's parser; Lean `parsedOf` (right-hand side of `parser_agrees`) = expectation
        s.compare(case, "ok:" + got if p[0] == "ok" else "E", _err(pmodel_line), "BootImageV2x.parse vs the Lean parser model")
        s.compare(case, "ok:" + exp_parsed_view(case), pspec_line, "Lean `parsedOf` vs the harness' expectation of the parsed content")
    # (iv) wrong KEK, bit flips
    good_rom = rom_fields(rom_line) if rom_line is not None else None
    trials = [("wrong_kek", None, None)]
    regs = regions(case, file, len(cert), sig_len)
    picks = rng.sample(regs, min(n_flip, len(regs)))
    for name, lo, hi in picks:
        if hi > lo:
            trials.append((name, rng.randrange(lo, hi), rng.randrange(8)))
    for name, pos, bit in forced or []:      # replay of a recorded flip
        if pos is not None and 0 <= pos < len(file):
            trials.append((name, pos, bit))
    lines, metas = [], []
    for name, pos, bit in trials:
        if name == "wrong_kek":
            k2 = bytearray(kek)
            k2[rng.randrange(32)] ^= 1 << rng.randrange(8)
            f2, k2 = file, bytes(k2)
        else:
            m = bytearray(file)
            m[pos] ^= 1 << bit
            f2, k2 = bytes(m), kek
        metas.append((name, pos, bit, f2, k2))
        lines.append(f"rom{'21' if v21 else '20'} {k2.hex()} {f2.hex()}")
        lines.append(parser_model_line(f2, k2, v21))
    answers = drv.batch(lines) if drv is not None else [None] * len(lines)
    for (name, pos, bit, f2, k2), ans, pans in zip(metas, answers[0::2], answers[1::2]):
        inp = {"case": case, "region": name, "byte": pos, "bit": bit}
        st.note([case["nonce"], case["kek"], name, pos, bit], cls=("sect_" + name.split("_", 1)[-1]) if name[0] == "s" and name[1].isdigit() else name)
        if ans is not None and (good_rom is None or not rom_shape_ok(ans, image=True)):
            if good_rom is not None:
                st.compare(inp, "well-formed answer of the ROM model", str(ans)[:60], "driver answer")
        elif ans is not None:
            if name[0] == "s" and name[1].isdigit():
                # theorems image_section_byte_tampered_v21/_v20: one changed byte in the boot-section area is REFUSED
                st.compare(inp, "E:rom", ans[:5], "compiled ROM model vs the theorem `image_section_byte_tampered`: a flipped bit in a "
                           "boot section (header / header MAC / MAC table / ciphertext) is refused")
            if v21 and name in ("header_mac", "sha256"):
                # theorems header_mac_byte_tampered_v21 / sha_byte_tampered_v21: refused with exactly this verdict
                st.compare(inp, "E:rom:badHeaderMac" if name == "header_mac" else "E:rom:badSha", ans[:40],
                           "compiled ROM model vs the theorems on a flipped bit in the header-MAC / SHA-256 field of an SB 2.1 file")
            if (not v21) and name == "header_mac":
                st.compare(inp, "E:rom", ans[:5], "compiled ROM model vs the theorem header_mac_byte_tampered_v20: a flipped bit in the "
                           "header-MAC field of an SB 2.0 file is refused")
            if ans.startswith("ok:"):
                f = rom_fields(ans)
                ob = verify_obligation(f2, f)
                accepted = ob is not False
                same = all(f[k] == good_rom[k] for k in f if k not in ("sig",)) and (name != "wrong_kek")
                st.expect((not accepted) or same, inp, "ROM model accepts a tampered file / wrong KEK with different content", ans[:300])
            else:
                st.expect(ans.startswith("E:rom:"), inp, "ROM model gave no verdict", ans[:100])
        p2 = pyres(lambda: cls.parse(f2, kek=k2))
        if pans is not None:
            st.compare(inp, "ok:" + parsed_view(p2[1]) if p2[0] == "ok" else "E", _err(pans),
                       "BootImageV2x.parse vs the Lean parser model on a tampered file / wrong KEK")
        if p2[0] == "ok":
            st.expect(name != "wrong_kek" and parsed_view(p2[1]) == exp_parsed_view(case), inp,
                      "SPSDK parser returns different content for a tampered file / wrong KEK instead of an error", parsed_view(p2[1])[:300])
        else:
            st.expect(True, inp, "")


CMD_RE = None


def split_cmds(sections):
    """'uid:flags:hc:[cmd,...]|...' -> list of (prefix, [cmd strings])"""
    import re
    global CMD_RE
    CMD_RE = CMD_RE or re.compile(r"[A-Za-z]+\([^)]*\)|nop|reset")
    out = []
    for sec in sections.split("|"):
        head, _, body = sec.partition(":[")
        out.append((head, CMD_RE.findall(body)))
    return out


def same_modulo_padding(case, got, want):
    """content lines equal except the signature and the bytes behind the given data of every LOAD"""
    g, w = rom_fields(got), rom_fields(want)
    for k in w:
        if k not in ("sig", "sections") and g.get(k) != w[k]:
            return False
    gs, ws = split_cmds(g["sections"]), split_cmds(w["sections"])
    if [h for h, _ in gs] != [h for h, _ in ws]:
        return False
    for (_, gc), (_, wc), sec in zip(gs, ws, case["sections"]):
        if len(gc) != len(wc) or len(gc) != len(sec["cmds"]):
            return False
        for a, b, sp in zip(gc, wc, sec["cmds"]):
            if sp[0] == "L":
                n = 2 * sp[4]
                ha, hb = a[:-1].rsplit(",", 1), b[:-1].rsplit(",", 1)
                da, db = ("" if ha[1] == "-" else ha[1]), ("" if hb[1] == "-" else hb[1])
                if ha[0] != hb[0] or len(da) != len(db) or da[:n] != db[:n]:
                    return False
            elif a != b:
                return False
    return True


def _err(line):
    return "E" if line.startswith("E:") else line


def _diff(a, b):
    """first differing ';' field of two content lines (keeps replays readable)"""
    if not isinstance(a, str) or not isinstance(b, str):
        return a
    fa, fb = a.split(";"), b.split(";")
    for x, y in zip(fa, fb):
        if x != y:
            return {"got": x[:400], "want": y[:400]}
    return {"got_len": len(fa), "want_len": len(fb), "got": a[:200]}


def replay(ck, data):
    """Re-run recorded image cases (inputs are complete specs); anything else: the whole quick sweep."""
    cases = []
    for c in data.get("cases", []):
        inp = c.get("input")
        forced = None
        if isinstance(inp, dict) and "case" in inp:
            forced = [(inp.get("region"), inp.get("byte"), inp.get("bit"))]
            inp = inp["case"]
        if isinstance(inp, dict) and "sections" in inp and "version" in inp:
            inp = dict(inp)
            if forced:
                inp["_forced"] = forced
            cases.append(inp)
    run(ck, only_cases=cases or None)
