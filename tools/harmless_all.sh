#!/bin/bash
# harmless_all.sh [TAG...] : run ./check (quick) against every archived behaviour-preserving rewrite seeded/harmless/CxxH_k.diff (3 jobs in parallel)
# and write seeded/harmless/results.json  {"C01h_1": {"property": "C01", "kind": ..., "files": [...], "changed_lines": n, "result": "exit 0" | "no-failing-input-found" | "concrete violation" | "exit 2"}}
cd /verif
tags=${@:-$(ls seeded/harmless/*.diff | sed 's|.*/||; s|_[123].diff||' | sort -u)}
mkdir -p /tmp/sv/hl
run_one() {
  f=$1; b=$(basename $f .diff); prop=${b:0:3}
  out=$(/verif/tools/try_patch.sh /verif/seeded/harmless/$b.diff $prop 2>&1)
  ex=$(echo "$out" | grep -o "check exit=[0-9]*" | head -1 | sed 's/check exit=//')
  res="exit $ex"
  if [ "$ex" = 1 ]; then
    if echo "$out" | grep "^VIOLATION" | grep -qv "no-failing-input-found"; then res="concrete violation"; else res="no-failing-input-found"; fi
  fi
  echo "$b|$res" > /tmp/sv/hl/$b.res
  echo "$out" | grep -E "BROKEN|^DISAGREE" | cut -c1-300 | head -4 > /tmp/sv/hl/$b.why
  echo "HL $b: $res"
}
export -f run_one
for t in $tags; do for k in 1 2 3; do echo seeded/harmless/${t}_$k.diff; done; done | xargs -P ${PAR:-3} -I{} bash -c 'run_one {}'
/venv/bin/python - <<'P'
import json, glob, os, re
out = {}
old = {}
if os.path.exists('/verif/seeded/harmless/results.json'):
    old = json.load(open('/verif/seeded/harmless/results.json'))
kinds = {"1": "control-flow / structure rewrite", "2": "data-representation rewrite", "3": "non-functional rewrite"}
for f in sorted(glob.glob('/verif/seeded/harmless/*.diff')):
    b = os.path.basename(f)[:-5]
    txt = open(f).read()
    files = re.findall(r'^\+\+\+ b/(\S+)', txt, re.M)
    n = len([l for l in txt.splitlines() if re.match(r'^[+-][^+-]', l)])
    e = dict(old.get(b, {}))
    e.update(property=b[:3], kind=kinds[b[-1]], files=files, changed_lines=n)
    r = f'/tmp/sv/hl/{b}.res'
    if os.path.exists(r):
        res = open(r).read().strip().split('|')[1]
        if 'first_result' not in e:
            e['first_result'] = e.get('result', res)
        e['result'] = res
        e['why'] = open(f'/tmp/sv/hl/{b}.why').read().strip().splitlines()[:3] if res != 'exit 0' else []
    out[b] = e
json.dump(out, open('/verif/seeded/harmless/results.json', 'w'), indent=1, sort_keys=True)
print({k: sum(1 for v in out.values() if v.get('result') == k) for k in set(v.get('result') for v in out.values())})
P
