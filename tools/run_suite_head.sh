#!/bin/bash
# Run the repository's test suite on /repo's committed HEAD (clean scratch worktree), compare with the baseline list.
W=/tmp/suite-wt
git -C /repo worktree remove --force $W 2>/dev/null
git -C /repo worktree add -q --detach $W HEAD || exit 9
cp /repo/spsdk/__version__.py $W/spsdk/__version__.py
(cd $W && env -u SPSDK_VERIF PYTHONPATH=$W SPSDK_CACHE_FOLDER=/tmp/suite-wt-cache /venv/bin/python -m pytest -q -p no:cacheprovider --timeout=900 --continue-on-collection-errors -n 12 --junitxml=/tmp/suite-head.xml > /tmp/suite-head.log 2>&1)
tail -1 /tmp/suite-head.log
python3 /verif/tools/baseline_cmp.py /tmp/suite-head.xml | head -30
git -C /repo worktree remove --force $W; rm -rf /tmp/suite-wt-cache
