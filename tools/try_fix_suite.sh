#!/bin/bash
# try_fix_suite.sh NAME : run the repository suite on /repo HEAD + proposed_fixes/NAME.diff in a scratch worktree (nothing is committed)
n=$1; W=/tmp/suite-try-$n
git -C /repo worktree remove --force $W 2>/dev/null
git -C /repo worktree add -q --detach $W HEAD || exit 9
cp /repo/spsdk/__version__.py $W/spsdk/__version__.py
grep -v '^#' /verif/proposed_fixes/$n.diff > /tmp/tf_$n.diff
(cd $W && (git apply /tmp/tf_$n.diff || git apply --recount /tmp/tf_$n.diff)) || { echo "$n: DOES NOT APPLY"; git -C /repo worktree remove --force $W; exit 8; }
(cd $W && env -u SPSDK_VERIF PYTHONPATH=$W SPSDK_CACHE_FOLDER=/tmp/suite-try-$n-cache /venv/bin/python -m pytest -q -p no:cacheprovider --timeout=900 --continue-on-collection-errors -n 12 --junitxml=/tmp/suite-try-$n.xml > /tmp/suite-try-$n.log 2>&1)
echo "$n: $(tail -1 /tmp/suite-try-$n.log)"; python3 /verif/tools/baseline_cmp.py /tmp/suite-try-$n.xml | head -8
git -C /repo worktree remove --force $W; rm -rf /tmp/suite-try-$n-cache
